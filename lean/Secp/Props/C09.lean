import Secp.Proofs.Der
import Secp.Proofs.BytesProg
import Secp.Proofs.BytesBuild
/-
  Props/C09 — DER signature codec is strict, canonical and round-trips.
  ONLY property theorems and non-vacuity examples live here; helper lemmas are
  in `Secp/Proofs/Der.lean`.  Model: `Secp.Model.parseDER`, `serializeDER`
  (hand-written mirrors of signature.go, tied by the correspondence check);
  specification: `Secp.Spec.canonicalDER` (written from X.690).
-/
namespace Secp.Props.C09
open Secp.Spec Secp.Model

/-- The parser never panics (no index or slice out of range), for every byte string. -/
theorem parseDER_no_panic (b : Bytes) : parseDER b ≠ .panic :=
  Secp.Proofs.Der.parseDER_no_panic b

/-- Acceptance is exactly "the canonical DER encoding of two scalars in [1, N-1]",
    and the parsed values are those scalars. -/
theorem parseDER_ok_iff (b : Bytes) (r s : Nat) :
    parseDER b = .ok (r, s) ↔ (b = canonicalDER r s ∧ 0 < r ∧ r < N ∧ 0 < s ∧ s < N) :=
  Secp.Proofs.Der.parseDER_ok_iff b r s

/-- Accepted encodings have total length 8..72. -/
theorem parseDER_ok_length (b : Bytes) (r s : Nat) (h : parseDER b = .ok (r, s)) :
    8 ≤ b.length ∧ b.length ≤ 72 :=
  Secp.Proofs.Der.parseDER_ok_length b r s h

/-- Uniqueness: two accepted strings with the same values are the same string. -/
theorem parseDER_unique (b b' : Bytes) (r s : Nat)
    (h : parseDER b = .ok (r, s)) (h' : parseDER b' = .ok (r, s)) : b = b' := by
  rw [(parseDER_ok_iff b r s).1 h |>.1, (parseDER_ok_iff b' r s).1 h' |>.1]

/-- Serialisation emits the canonical encoding of (r, low-s). -/
theorem serializeDER_eq (r s : Nat) (hr : r < N) (hs : s < N) :
    serializeDER r s = canonicalDER r (lowS s) :=
  Secp.Proofs.Der.serializeDER_eq r s hr hs

/-- parse ∘ serialise = low-s form. -/
theorem parse_serialize (r s : Nat) (hr0 : 0 < r) (hr : r < N) (hs0 : 0 < s) (hs : s < N) :
    parseDER (serializeDER r s) = .ok (r, lowS s) :=
  Secp.Proofs.Der.parse_serialize r s hr0 hr hs0 hs

/-- serialise ∘ parse = id whenever the parsed s is already low. -/
theorem serialize_parse (b : Bytes) (r s : Nat) (h : parseDER b = .ok (r, s)) (hlow : s ≤ halfN) :
    serializeDER r s = b :=
  Secp.Proofs.Der.serialize_parse b r s h hlow

/-- Every rejection names a rule the input really violates. -/
theorem parseDER_err_sound (b : Bytes) (e : SigErr) (h : parseDER b = .err e) :
    DerViolates b e :=
  Secp.Proofs.Der.parseDER_err_sound b e h

/-! ### the parser as REGENERATED from signature.go

  `Secp.Gen.BytesProg.parseDER` is produced on every run by tools/gotr pass T7: a statement-by-statement translation
  of `ParseDERSignature` into the `Outcome` monad (index and slice expressions bound first, `&&` kept short-circuit,
  the strip-leading-zeroes loop and the scalar decoding recognised as the model's `stripZeros` /
  `scalarSetByteSlice`).  It is the same function as the hand-written model, so every theorem above is a theorem
  about what the Go source says now: a changed bound, a moved check, an index off by one or a dropped rule makes
  `parseDER_regenerated` fail to check. -/

/-- the regenerated parser and the hand-written model are the same function -/
theorem parseDER_regenerated (b : Bytes) : Secp.Gen.BytesProg.parseDER b = parseDER b :=
  Secp.Proofs.BytesProg.parseDER_gen_eq_model b

/-- acceptance of the REGENERATED parser is exactly canonical DER of two scalars in [1, N-1] -/
theorem regenerated_ok_iff (b : Bytes) (r s : Nat) :
    Secp.Gen.BytesProg.parseDER b = .ok (r, s) ↔ (b = canonicalDER r s ∧ 0 < r ∧ r < N ∧ 0 < s ∧ s < N) := by
  rw [parseDER_regenerated]; exact parseDER_ok_iff b r s

/-- the REGENERATED parser never indexes or slices out of range -/
theorem regenerated_no_panic (b : Bytes) : Secp.Gen.BytesProg.parseDER b ≠ .panic := by
  rw [parseDER_regenerated]; exact parseDER_no_panic b

/-- every rejection of the REGENERATED parser names a rule the input really violates -/
theorem regenerated_err_sound (b : Bytes) (e : SigErr) (h : Secp.Gen.BytesProg.parseDER b = .err e) : DerViolates b e := by
  rw [parseDER_regenerated] at h; exact parseDER_err_sound b e h

-- non-vacuity: a concrete accepted string, a concrete rejected one
example : parseDER [0x30, 0x06, 0x02, 0x01, 0x01, 0x02, 0x01, 0x01] = .ok (1, 1) := by decide
example : parseDER [0x30, 0x07, 0x02, 0x02, 0x00, 0x01, 0x02, 0x01, 0x01] = .err .ErrSigTooMuchRPadding := by decide


/-- `Signature.Serialize` as REGENERATED statement by statement (tools/gotr pass T7, builders): low-s normalisation, the two
    33-byte buffers filled by PutBytesUnchecked, the canonicalisation loops, the length bytes and the appends — is the
    hand-written model `serializeDER` for every r and every canonical s.  With `serializeDER_eq` it follows that the code as it
    stands emits the canonical DER of (r, low-s). -/
theorem serializeDER_regenerated (r s : Nat) (hs : s < N) :
    Secp.Gen.BytesBuild.serializeDER r s = serializeDER r s :=
  Secp.Proofs.BytesBuild.serializeDER_gen_eq_model r s hs

theorem regenerated_serialize_canonical (r s : Nat) (hr : r < N) (hs : s < N) :
    Secp.Gen.BytesBuild.serializeDER r s = canonicalDER r (lowS s) := by
  rw [serializeDER_regenerated r s hs]; exact serializeDER_eq r s hr hs

end Secp.Props.C09
