import Secp.Gen.Drivers
import Secp.Model.Bip32
import Secp.Proofs.DriversChild
import Secp.Proofs.DriversAdaptor
import Secp.Proofs.FrontBip
/-
  Proofs/DriversDerive — ExtendedKey.DeriveWithIL and ExtendedKey.Derive (extended.go): the regenerated
  `for _, i := range path` loops equal the model `deriveWithIL`.
-/
namespace Secp.Proofs.DriversDerive
open Secp.Spec Secp.Model

open Secp.Proofs.DriversChild (tup)

/-- `ChildWithIL` with the four adaptor hypotheses discharged -/
theorem childWithIL_gen (O : Oracles) (e : ExtKey) (i : Nat)
    (hd : e.depth < 256) (hi : i < 2^32) (hfp : 4 ≤ (O.hash160 e.pubKeyBytes).length) :
    Secp.Gen.Drivers.childWithILGen O (tup e) i =
      (match childWithIL O e i with
       | .ok (il, c) => DR.ok (il, tup c)
       | .error err => DR.err err) :=
  Secp.Proofs.DriversChild.childWithIL_regenerated
    Secp.Proofs.DriversAdaptor.scalarBaseMult_regenerated
    Secp.Proofs.DriversAdaptor.add_regenerated
    Secp.Proofs.DriversAdaptor.pubKeyX_regenerated
    Secp.Proofs.DriversAdaptor.pubKeyY_regenerated
    O e i hd hi hfp

/-- the accumulation of the tweak: generated form vs model form -/
theorem accum_eq (il : Option Nat) (cur : Nat) :
    (if il.isNone then some cur
      else some (((some ((il.getD 0) + ((some cur).getD 0)) : Option Nat).getD 0) % N)) =
      some (match il with | none => cur | some a => (a + cur) % N) := by
  cases il <;> rfl

theorem deriveWithIL_loop_regenerated (O : Oracles) (k : Bytes × Nat × Bytes × Nat × Bytes × Bytes × Unit)
    (path0 : List Nat)
    (hfp : ∀ x, 4 ≤ (O.hash160 x).length) (path : List Nat) (hp : ∀ i ∈ path, i < 2^32) (e : ExtKey)
    (hd : e.depth < 256) (il : Option Nat) :
    Secp.Gen.Drivers.deriveWithILGen_loop O k path0 il (tup e) path =
      (match deriveWithIL O e path il with | .ok (t, c) => DR.ok (t, tup c) | .error err => DR.err err) := by
  induction path generalizing e il with
  | nil => rfl
  | cons i rest ih =>
    have hi : i < 2^32 := hp i (List.mem_cons_self ..)
    have hrest : ∀ j ∈ rest, j < 2^32 := fun j hj => hp j (List.mem_cons_of_mem _ hj)
    unfold Secp.Gen.Drivers.deriveWithILGen_loop deriveWithIL
    rw [childWithIL_gen O e i hd hi (hfp _)]
    cases hc : childWithIL O e i with
    | error err => rfl
    | ok r =>
      obtain ⟨cur, c⟩ := r
      obtain ⟨h1, h2, _⟩ := Secp.Proofs.DriversChild.childWithIL_ok_fields O e i cur c hc
      have hcd : c.depth < 256 := by omega
      simp only []
      rw [accum_eq il cur]
      exact ih hrest c hcd _

theorem deriveWithIL_regenerated (O : Oracles) (hfp : ∀ x, 4 ≤ (O.hash160 x).length) (e : ExtKey)
    (hd : e.depth < 256) (path : List Nat) (hp : ∀ i ∈ path, i < 2^32) :
    Secp.Gen.Drivers.deriveWithILGen O (tup e) path =
      (match deriveWithIL O e path none with | .ok (t, c) => DR.ok (t, tup c) | .error err => DR.err err) := by
  unfold Secp.Gen.Drivers.deriveWithILGen
  exact deriveWithIL_loop_regenerated O (tup e) path hfp path hp e hd none

theorem derive_loop_regenerated (O : Oracles) (k : Bytes × Nat × Bytes × Nat × Bytes × Bytes × Unit)
    (path0 : List Nat)
    (hfp : ∀ x, 4 ≤ (O.hash160 x).length) (path : List Nat) (hp : ∀ i ∈ path, i < 2^32) (e : ExtKey)
    (hd : e.depth < 256) (il : Option Nat) :
    Secp.Gen.Drivers.deriveGen_loop O k path0 (tup e) path =
      (match deriveWithIL O e path il with | .ok (_, c) => DR.ok (tup c) | .error err => DR.err err) := by
  induction path generalizing e il with
  | nil => rfl
  | cons i rest ih =>
    have hi : i < 2^32 := hp i (List.mem_cons_self ..)
    have hrest : ∀ j ∈ rest, j < 2^32 := fun j hj => hp j (List.mem_cons_of_mem _ hj)
    unfold Secp.Gen.Drivers.deriveGen_loop deriveWithIL
    rw [Secp.Proofs.FrontBip.child_front, childWithIL_gen O e i hd hi (hfp _)]
    cases hc : childWithIL O e i with
    | error err => rfl
    | ok r =>
      obtain ⟨cur, c⟩ := r
      obtain ⟨h1, h2, _⟩ := Secp.Proofs.DriversChild.childWithIL_ok_fields O e i cur c hc
      have hcd : c.depth < 256 := by omega
      simp only []
      exact ih hrest c hcd _

theorem derive_regenerated (O : Oracles) (hfp : ∀ x, 4 ≤ (O.hash160 x).length) (e : ExtKey)
    (hd : e.depth < 256) (path : List Nat) (hp : ∀ i ∈ path, i < 2^32) :
    Secp.Gen.Drivers.deriveGen O (tup e) path =
      (match deriveWithIL O e path none with | .ok (_, c) => DR.ok (tup c) | .error err => DR.err err) := by
  unfold Secp.Gen.Drivers.deriveGen
  exact derive_loop_regenerated O (tup e) path hfp path hp e hd none

end Secp.Proofs.DriversDerive

#print axioms Secp.Proofs.DriversDerive.deriveWithIL_loop_regenerated
#print axioms Secp.Proofs.DriversDerive.deriveWithIL_regenerated
#print axioms Secp.Proofs.DriversDerive.derive_regenerated
