/-
  Model/DriverRt — result type of the REGENERATED value-level drivers (tools/gotr pass T8, Gen/Drivers.lean).
  `ok a`   : the Go function returned normally with a (and a nil error / true flag);
  `err e`  : it returned the error kind e (or `false` for a `(T, bool)` result, ε = Unit);
  `panic`  : it reached an explicit `panic(...)`;
  `fuel`   : a retry loop did not finish within the fuel the definition was given (Go would keep looping);
  `undef`  : an arithmetic assumption of the translation failed (a Go `int` subtraction went negative, which ℕ
             cannot represent) — the `*_regenerated` theorems show this is never produced.
-/
namespace Secp.Model

inductive DR (ε α : Type) where
  | ok (a : α)
  | err (e : ε)
  | panic
  | fuel
  | undef
  deriving Repr, DecidableEq

end Secp.Model
