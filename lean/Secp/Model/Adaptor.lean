import Secp.Model.Bip32
/-
  Model/Adaptor — ellipticadaptor.go (crypto/elliptic Curve methods over big.Int) and ecdh.go.
  big.Int values are naturals; `bigToField` is `bigAffineToJacobian`'s coordinate conversion
  (big.Int.Bytes() then SetByteSlice: the first 32 bytes of the minimal encoding, not reduced).
-/
namespace Secp.Model
open Secp.Spec

/-- `jacobianToBigAffine` -/
def jacToBig (q : Jac) : Nat × Nat :=
  let A := toAffineJ q
  (A.1, A.2.1)

/-- `curve.IsOnCurve(x, y)` -/
def adaptorIsOnCurve (x y : Nat) : Bool := isOnCurveM (bigToField x) (bigToField y)

/-- `curve.Double(x, y)` -/
def adaptorDouble (p : Nat × Nat) : Nat × Nat :=
  if p.2 = 0 then (0, 0) else
  match runNamed "DoubleNonConst" [bigToField p.1, bigToField p.2, 1, 0, 0, 0] [] with
  | some (r, _) => jacToBig (FOp.rget r 3, FOp.rget r 4, FOp.rget r 5)
  | none => (0, 0)

/-- `curve.ScalarMult(Bx, By, k)` -/
def adaptorScalarMult (p : Nat × Nat) (k : Bytes) : Nat × Nat :=
  jacToBig (scalarMultNC (adaptorScalar k) (bigToField p.1, bigToField p.2, 1))

/-- the (0,0) identity convention of crypto/elliptic -/
def ptOfXY (p : Nat × Nat) : Pt := if p.1 = 0 ∧ p.2 = 0 then none else some p
def xyOfPt : Pt → Nat × Nat
  | none => (0, 0)
  | some q => q

/-- `GenerateSharedSecret(priv, pub)` -/
def ecdhM (a : Nat) (Q : Nat × Nat) : Bytes :=
  be32 (toAffineJ (scalarMultNC a (Q.1, Q.2, 1))).1

end Secp.Model
