package main

// T6: shared-state facts.
//
//  * shared roots: package-level variables and variables captured by function literals that
//    initialise package-level variables (the base-point table lives in such a closure);
//  * per-function "may write through parameter i" summaries (receiver = index 0), closed over
//    calls inside the package (flow-insensitive, locals that alias parameters are resolved);
//  * every store whose target is rooted in a shared root, with the construct guarding it:
//    `init` (package initialisation: var initialisers and func init), `once` (inside the function
//    passed to sync.Once.Do), or `none`;
//  * every call that passes memory rooted in a shared root to a parameter the callee may write
//    through, with the same guard classification.

import (
	"fmt"
	"go/ast"
	"go/token"
	"go/types"
	"sort"
	"strings"
)

type sharedFact struct {
	kind  string // store | passes
	fn    string
	root  string
	guard string
	pos   string
	note  string
}

type funcInfo struct {
	key    string
	decl   *ast.FuncDecl
	lit    *ast.FuncLit
	params []types.Object // receiver first (may be nil)
	writes map[int]bool
	body   *ast.BlockStmt
	guard  string // init | once | none : context in which this body runs
}

type t6 struct {
	p       *Pkg
	pkgName string
	shared  map[types.Object]string // shared root → name
	funcs   map[string]*funcInfo
	byObj   map[types.Object]*funcInfo // function object → info
	onceFns map[*ast.FuncLit]bool
	onceIds map[types.Object]bool // local func-valued variables passed to Once.Do
}

func isRefType(t types.Type) bool {
	switch t.Underlying().(type) {
	case *types.Pointer, *types.Slice, *types.Map:
		return true
	}
	return false
}

// rootsOf returns the parameter indices / shared roots an expression's memory may belong to.
type rootset struct {
	params map[int]bool
	shared map[types.Object]bool
}

func newRS() rootset { return rootset{map[int]bool{}, map[types.Object]bool{}} }
func (r rootset) add(o rootset) bool {
	ch := false
	for k := range o.params {
		if !r.params[k] {
			r.params[k] = true
			ch = true
		}
	}
	for k := range o.shared {
		if !r.shared[k] {
			r.shared[k] = true
			ch = true
		}
	}
	return ch
}

type fnAnalysis struct {
	t      *t6
	fi     *funcInfo
	locals map[types.Object]rootset
	pidx   map[types.Object]int
}

func (a *fnAnalysis) roots(e ast.Expr) rootset {
	rs := newRS()
	switch x := e.(type) {
	case *ast.ParenExpr:
		return a.roots(x.X)
	case *ast.Ident:
		obj := a.t.p.info.Uses[x]
		if obj == nil {
			obj = a.t.p.info.Defs[x]
		}
		if obj == nil {
			return rs
		}
		if i, ok := a.pidx[obj]; ok {
			if isRefType(obj.Type()) {
				rs.params[i] = true
			}
			return rs
		}
		if _, ok := a.t.shared[obj]; ok {
			rs.shared[obj] = true
			return rs
		}
		if l, ok := a.locals[obj]; ok {
			rs.add(l)
		}
		return rs
	case *ast.SelectorExpr:
		if id, ok := x.X.(*ast.Ident); ok {
			if _, isPkg := a.t.p.info.Uses[id].(*types.PkgName); isPkg {
				return rs
			}
		}
		return a.roots(x.X)
	case *ast.IndexExpr:
		return a.roots(x.X)
	case *ast.SliceExpr:
		return a.roots(x.X)
	case *ast.StarExpr:
		return a.roots(x.X)
	case *ast.UnaryExpr:
		if x.Op == token.AND {
			return a.roots(x.X)
		}
		return rs
	case *ast.TypeAssertExpr:
		return a.roots(x.X)
	case *ast.CallExpr:
		// result of a call: (a) a package function value that returns shared memory (e.g. s256BytePoints()),
		// (b) methods returning their receiver (chaining) → rooted where the receiver is
		if id, ok := x.Fun.(*ast.Ident); ok {
			obj := a.t.p.info.Uses[id]
			if _, ok := a.t.shared[obj]; ok && isRefType(a.t.p.info.Types[e].Type) {
				rs.shared[obj] = true // value obtained from a shared function variable: treat as shared memory
				return rs
			}
			if l, ok := a.locals[obj]; ok && isRefType(a.t.p.info.Types[e].Type) {
				rs.add(l)
			}
		}
		if sel, ok := x.Fun.(*ast.SelectorExpr); ok {
			if t := a.t.p.info.Types[e].Type; t != nil && isRefType(t) {
				rs.add(a.roots(sel.X))
			}
		}
		if id, ok := x.Fun.(*ast.Ident); ok && (id.Name == "append") && len(x.Args) > 0 {
			rs.add(a.roots(x.Args[0]))
		}
		return rs
	}
	return rs
}

// appendMayWrite: append(x, ...) can store into x's backing array unless x is a full slice expression
// x[lo:hi:hi] (no spare capacity) or a fresh conversion/literal.
func appendMayWrite(x ast.Expr) bool {
	switch e := x.(type) {
	case *ast.ParenExpr:
		return appendMayWrite(e.X)
	case *ast.SliceExpr:
		if e.Slice3 && e.High != nil && e.Max != nil {
			return exprString(e.High) != exprString(e.Max)
		}
		return true
	case *ast.CompositeLit:
		return false
	case *ast.CallExpr:
		return false // a conversion or a call result: fresh or rooted via roots() of the call
	}
	return true
}

func exprString(e ast.Expr) string {
	var sb strings.Builder
	ast.Inspect(e, func(n ast.Node) bool {
		switch x := n.(type) {
		case *ast.Ident:
			sb.WriteString(x.Name + " ")
		case *ast.BasicLit:
			sb.WriteString(x.Value + " ")
		case *ast.BinaryExpr:
			sb.WriteString(x.Op.String() + " ")
		}
		return true
	})
	return sb.String()
}

func (t *t6) guardOf(fi *funcInfo) string { return fi.guard }

// methods of other packages that do not modify their receiver (or whose modification IS the synchronisation)
var externalReadOnly = map[string]bool{
	"sync.Once.Do": true, "sync.Mutex.Lock": true, "sync.Mutex.Unlock": true, "sync.RWMutex.Lock": true, "sync.RWMutex.Unlock": true,
	"sync.RWMutex.RLock": true, "sync.RWMutex.RUnlock": true,
	"sync/atomic.Pointer.Load": true, "sync/atomic.Value.Load": true, "sync/atomic.Bool.Load": true, "sync/atomic.Int32.Load": true,
	"sync/atomic.Uint32.Load": true, "sync/atomic.Int64.Load": true, "sync/atomic.Uint64.Load": true,
	"math/big.Int.Cmp": true, "math/big.Int.CmpAbs": true, "math/big.Int.Sign": true, "math/big.Int.BitLen": true, "math/big.Int.Bytes": true,
	"math/big.Int.FillBytes": true, "math/big.Int.Bit": true, "math/big.Int.Int64": true, "math/big.Int.Uint64": true, "math/big.Int.IsInt64": true,
	"math/big.Int.IsUint64": true, "math/big.Int.String": true, "math/big.Int.Text": true, "math/big.Int.ProbablyPrime": true,
	"math/big.Int.TrailingZeroBits": true, "math/big.Int.Bits": true,
}

// externalMutator: call is `x.M(...)` with M a pointer-receiver method declared outside the analysed package and not
// known to be read-only → ("pkg.Type.M", x)
func (t *t6) externalMutator(call *ast.CallExpr) (string, ast.Expr) {
	f, ok := call.Fun.(*ast.SelectorExpr)
	if !ok {
		return "", nil
	}
	sel, ok := t.p.info.Selections[f]
	if !ok || sel.Kind() != types.MethodVal {
		return "", nil
	}
	fn, ok := sel.Obj().(*types.Func)
	if !ok || fn.Pkg() == nil || fn.Pkg() == t.p.pkg {
		return "", nil
	}
	sig := fn.Type().(*types.Signature)
	if sig.Recv() == nil {
		return "", nil
	}
	rt := sig.Recv().Type()
	ptr, isPtr := rt.(*types.Pointer)
	if !isPtr {
		return "", nil // value receiver (or interface method): cannot write the receiver variable itself
	}
	name := fn.Pkg().Path() + "." + typeName(ptr.Elem()) + "." + fn.Name()
	if externalReadOnly[name] {
		return "", nil
	}
	return name, f.X
}

func passShared(pkgs []*Pkg) (string, []string) {
	var facts []sharedFact
	var inventory []string
	var summaries []string
	for _, p := range pkgs {
		t := &t6{p: p, pkgName: p.pkg.Name(), shared: map[types.Object]string{}, funcs: map[string]*funcInfo{}, byObj: map[types.Object]*funcInfo{},
			onceFns: map[*ast.FuncLit]bool{}, onceIds: map[types.Object]bool{}}
		// 1. shared roots: package-level vars
		scope := p.pkg.Scope()
		for _, n := range scope.Names() {
			if v, ok := scope.Lookup(n).(*types.Var); ok {
				t.shared[v] = t.pkgName + "." + n
			}
		}
		// 2. function literals in package-level var initialisers: their captured locals are shared too
		var litInfos []*funcInfo
		for _, f := range p.files {
			for _, d := range f.Decls {
				gd, ok := d.(*ast.GenDecl)
				if !ok || gd.Tok != token.VAR {
					continue
				}
				for _, sp := range gd.Specs {
					vs := sp.(*ast.ValueSpec)
					for vi, val := range vs.Values {
						vname := "?"
						if vi < len(vs.Names) {
							vname = vs.Names[vi].Name
						}
						// locals declared directly inside a func literal that is CALLED in the initialiser (IIFE):
						// they outlive the initialiser when captured by an inner literal
						depth := 0
						ast.Inspect(val, func(n ast.Node) bool {
							fl, ok := n.(*ast.FuncLit)
							if !ok {
								return true
							}
							depth++
							fi := &funcInfo{key: fmt.Sprintf("%s.%s$lit%d", t.pkgName, vname, depth), lit: fl, body: fl.Body, writes: map[int]bool{}, guard: "none"}
							if depth == 1 {
								fi.guard = "init"
							}
							litInfos = append(litInfos, fi)
							return true
						})
						// variables declared in the outermost literal body are captured state
						if call, ok := val.(*ast.CallExpr); ok {
							if fl, ok := call.Fun.(*ast.FuncLit); ok {
								for _, st := range fl.Body.List {
									switch s := st.(type) {
									case *ast.DeclStmt:
										if g, ok := s.Decl.(*ast.GenDecl); ok {
											for _, sp2 := range g.Specs {
												if v2, ok := sp2.(*ast.ValueSpec); ok {
													for _, nm := range v2.Names {
														if o := p.info.Defs[nm]; o != nil {
															t.shared[o] = t.pkgName + "." + vname + "$" + nm.Name
														}
													}
												}
											}
										}
									case *ast.AssignStmt:
										if s.Tok == token.DEFINE {
											for _, l := range s.Lhs {
												if id, ok := l.(*ast.Ident); ok {
													if o := p.info.Defs[id]; o != nil {
														t.shared[o] = t.pkgName + "." + vname + "$" + id.Name
													}
												}
											}
										}
									}
								}
							}
						}
					}
				}
			}
		}
		// 3. sync.Once.Do(f): mark f
		for _, f := range p.files {
			ast.Inspect(f, func(n ast.Node) bool {
				call, ok := n.(*ast.CallExpr)
				if !ok {
					return true
				}
				sel, ok := call.Fun.(*ast.SelectorExpr)
				if !ok || sel.Sel.Name != "Do" || len(call.Args) != 1 {
					return true
				}
				if tn := typeName(p.info.Types[sel.X].Type); tn != "Once" {
					return true
				}
				switch a := call.Args[0].(type) {
				case *ast.FuncLit:
					t.onceFns[a] = true
				case *ast.Ident:
					if o := p.info.Uses[a]; o != nil {
						t.onceIds[o] = true
					}
				}
				return true
			})
		}
		// literals assigned to identifiers passed to Once.Do
		for _, f := range p.files {
			ast.Inspect(f, func(n ast.Node) bool {
				as, ok := n.(*ast.AssignStmt)
				if !ok {
					return true
				}
				for i, l := range as.Lhs {
					id, ok := l.(*ast.Ident)
					if !ok || i >= len(as.Rhs) {
						continue
					}
					o := p.info.Defs[id]
					if o == nil {
						o = p.info.Uses[id]
					}
					if t.onceIds[o] {
						if fl, ok := as.Rhs[i].(*ast.FuncLit); ok {
							t.onceFns[fl] = true
						}
					}
				}
				return true
			})
		}
		for _, fi := range litInfos {
			if t.onceFns[fi.lit] {
				fi.guard = "once"
			}
			t.funcs[fi.key] = fi
		}
		// 4. declared functions
		for k, fd := range p.funcs {
			if fd.Body == nil {
				continue
			}
			fi := &funcInfo{key: t.pkgName + "." + k, decl: fd, body: fd.Body, writes: map[int]bool{}, guard: "none"}
			if fd.Recv == nil && fd.Name.Name == "init" {
				fi.guard = "init"
			}
			if fd.Recv != nil && len(fd.Recv.List[0].Names) > 0 {
				fi.params = append(fi.params, p.info.Defs[fd.Recv.List[0].Names[0]])
			} else {
				fi.params = append(fi.params, nil)
			}
			for _, fld := range fd.Type.Params.List {
				for _, nm := range fld.Names {
					fi.params = append(fi.params, p.info.Defs[nm])
				}
			}
			t.funcs[fi.key] = fi
			if o := p.info.Defs[fd.Name]; o != nil {
				t.byObj[o] = fi
			}
		}
		// 5. fixed point: local aliasing + write summaries
		keys := make([]string, 0, len(t.funcs))
		for k := range t.funcs {
			keys = append(keys, k)
		}
		sort.Strings(keys)
		analyses := map[string]*fnAnalysis{}
		for _, k := range keys {
			fi := t.funcs[k]
			a := &fnAnalysis{t: t, fi: fi, locals: map[types.Object]rootset{}, pidx: map[types.Object]int{}}
			for i, o := range fi.params {
				if o != nil {
					a.pidx[o] = i
				}
			}
			analyses[k] = a
		}
		calleeOf := func(call *ast.CallExpr) (*funcInfo, ast.Expr) {
			switch f := call.Fun.(type) {
			case *ast.Ident:
				if fi, ok := t.byObj[p.info.Uses[f]]; ok {
					return fi, nil
				}
			case *ast.SelectorExpr:
				if sel, ok := p.info.Selections[f]; ok {
					if fi, ok := t.byObj[sel.Obj()]; ok {
						return fi, f.X
					}
				}
			}
			return nil, nil
		}
		for iter := 0; iter < 20; iter++ {
			changed := false
			for _, k := range keys {
				a := analyses[k]
				fi := a.fi
				ast.Inspect(fi.body, func(n ast.Node) bool {
					if fl, ok := n.(*ast.FuncLit); ok && fl != fi.lit {
						return false // inner literals are analysed as their own functions
					}
					switch s := n.(type) {
					case *ast.AssignStmt:
						// alias propagation into locals
						if len(s.Lhs) == len(s.Rhs) {
							for i, l := range s.Lhs {
								if id, ok := l.(*ast.Ident); ok {
									o := p.info.Defs[id]
									if o == nil {
										o = p.info.Uses[id]
									}
									if o == nil {
										continue
									}
									if _, isParam := a.pidx[o]; isParam {
										continue
									}
									if _, isShared := t.shared[o]; isShared {
										continue
									}
									if t2 := o.Type(); t2 != nil && isRefType(t2) {
										rs := a.roots(s.Rhs[i])
										cur, ok := a.locals[o]
										if !ok {
											cur = newRS()
											a.locals[o] = cur
										}
										if cur.add(rs) {
											changed = true
										}
									}
								}
							}
						}
						// stores through parameters
						for _, l := range s.Lhs {
							if _, isIdent := l.(*ast.Ident); isIdent {
								continue // rebinding a variable is not a store through it
							}
							for pi := range a.roots(l).params {
								if !fi.writes[pi] {
									fi.writes[pi] = true
									changed = true
								}
							}
						}
					case *ast.IncDecStmt:
						if _, isIdent := s.X.(*ast.Ident); !isIdent {
							for pi := range a.roots(s.X).params {
								if !fi.writes[pi] {
									fi.writes[pi] = true
									changed = true
								}
							}
						}
					case *ast.CallExpr:
						callee, recv := calleeOf(s)
						args := s.Args
						if callee != nil {
							if recv != nil && callee.writes[0] {
								for pi := range a.roots(recv).params {
									if !fi.writes[pi] {
										fi.writes[pi] = true
										changed = true
									}
								}
							}
							for ai, arg := range args {
								if callee.writes[ai+1] {
									for pi := range a.roots(arg).params {
										if !fi.writes[pi] {
											fi.writes[pi] = true
											changed = true
										}
									}
								}
							}
						} else if id, ok := s.Fun.(*ast.Ident); ok && id.Name == "copy" && len(args) == 2 {
							for pi := range a.roots(args[0]).params {
								if !fi.writes[pi] {
									fi.writes[pi] = true
									changed = true
								}
							}
						} else if id, ok := s.Fun.(*ast.Ident); ok && id.Name == "append" && len(args) >= 2 && appendMayWrite(args[0]) {
							// append writes into the spare capacity of its first argument
							for pi := range a.roots(args[0]).params {
								if !fi.writes[pi] {
									fi.writes[pi] = true
									changed = true
								}
							}
						}
					}
					return true
				})
			}
			if !changed {
				break
			}
		}
		// 6. facts: stores and writing-calls rooted in shared roots
		for _, k := range keys {
			a := analyses[k]
			fi := a.fi
			ast.Inspect(fi.body, func(n ast.Node) bool {
				if fl, ok := n.(*ast.FuncLit); ok && fl != fi.lit {
					return false
				}
				emit := func(kind string, rs rootset, node ast.Node, note string) {
					for o := range rs.shared {
						facts = append(facts, sharedFact{kind, fi.key, t.shared[o], fi.guard, p.pos(node), note})
					}
				}
				switch s := n.(type) {
				case *ast.AssignStmt:
					for _, l := range s.Lhs {
						if id, ok := l.(*ast.Ident); ok {
							// assignment to the shared variable itself
							o := p.info.Uses[id]
							if o == nil {
								o = p.info.Defs[id]
							}
							if nm, ok := t.shared[o]; ok && s.Tok != token.DEFINE {
								facts = append(facts, sharedFact{"store", fi.key, nm, fi.guard, p.pos(s), "assign"})
							}
							continue
						}
						emit("store", a.roots(l), s, "store")
					}
				case *ast.IncDecStmt:
					emit("store", a.roots(s.X), s, "incdec")
				case *ast.CallExpr:
					callee, recv := calleeOf(s)
					if callee != nil {
						if recv != nil && callee.writes[0] {
							emit("passes", a.roots(recv), s, "receiver of "+callee.key)
						}
						for ai, arg := range s.Args {
							if callee.writes[ai+1] {
								emit("passes", a.roots(arg), s, fmt.Sprintf("arg %d of %s", ai, callee.key))
							}
						}
					} else if ext, recvX := t.externalMutator(s); ext != "" {
						// a method of another package with a pointer receiver, called on shared memory: assumed to write
						// unless it is a known synchronisation primitive or a known read-only accessor
						emit("passes", a.roots(recvX), s, "receiver of external "+ext)
					} else if id, ok := s.Fun.(*ast.Ident); ok && id.Name == "copy" && len(s.Args) == 2 {
						emit("store", a.roots(s.Args[0]), s, "copy")
					} else if id, ok := s.Fun.(*ast.Ident); ok && id.Name == "append" && len(s.Args) >= 2 && appendMayWrite(s.Args[0]) {
						emit("store", a.roots(s.Args[0]), s, "append into spare capacity")
					}
				}
				return true
			})
		}
		// 7. reads of once-initialised roots: a root written under sync.Once may only be read inside the once function,
		// during package initialisation, or after an unconditional Once.Do call in the same function body
		onceRoots := map[string]bool{}
		for _, f := range facts {
			if f.guard == "once" {
				onceRoots[f.root] = true
			}
		}
		for _, k := range keys {
			fi := t.funcs[k]
			if fi.guard != "none" {
				continue
			}
			doEnd := token.NoPos // end of the first top-level `once.Do(...)` statement of this body
			for _, st := range fi.body.List {
				if es, ok := st.(*ast.ExprStmt); ok {
					if call, ok := es.X.(*ast.CallExpr); ok {
						if sel, ok := call.Fun.(*ast.SelectorExpr); ok && sel.Sel.Name == "Do" && typeName(p.info.Types[sel.X].Type) == "Once" {
							doEnd = es.End()
							break
						}
					}
				}
			}
			ast.Inspect(fi.body, func(n ast.Node) bool {
				if fl, ok := n.(*ast.FuncLit); ok && fl != fi.lit {
					return false
				}
				id, ok := n.(*ast.Ident)
				if !ok {
					return true
				}
				o := p.info.Uses[id]
				nm, isShared := t.shared[o]
				if !isShared || !onceRoots[nm] {
					return true
				}
				if doEnd != token.NoPos && id.Pos() > doEnd {
					facts = append(facts, sharedFact{"read", fi.key, nm, "once", p.pos(id), "read after Once.Do"})
				} else {
					facts = append(facts, sharedFact{"read", fi.key, nm, "none", p.pos(id), "read not ordered after Once.Do"})
				}
				return true
			})
		}
		names := make([]string, 0, len(t.shared))
		for _, n := range t.shared {
			names = append(names, n)
		}
		sort.Strings(names)
		inventory = append(inventory, names...)
		for _, k := range keys {
			fi := t.funcs[k]
			var ws []string
			for i := range fi.writes {
				ws = append(ws, fmt.Sprint(i))
			}
			sort.Strings(ws)
			if len(ws) > 0 {
				summaries = append(summaries, fmt.Sprintf("%s:%s", k, strings.Join(ws, ",")))
			}
		}
	}
	sort.Slice(facts, func(i, j int) bool {
		if facts[i].pos != facts[j].pos {
			return facts[i].pos < facts[j].pos
		}
		return facts[i].root < facts[j].root
	})
	var sb strings.Builder
	sb.WriteString("import Secp.Core.Conc\n/- GENERATED by tools/gotr (pass T6) from /repo — do not edit. -/\nnamespace Secp.Gen.Shared\nopen Secp.Conc\n\n")
	sb.WriteString("/-- shared roots: package-level variables and state captured by package-level function values -/\ndef roots : List String := [\n")
	for i, n := range inventory {
		sep := ","
		if i == len(inventory)-1 {
			sep = ""
		}
		fmt.Fprintf(&sb, "  %q%s\n", n, sep)
	}
	sb.WriteString("]\n\n/-- every store into shared memory, and every call that hands shared memory to a parameter the callee may write through -/\ndef facts : List Fact := [\n")
	for i, f := range facts {
		sep := ","
		if i == len(facts)-1 {
			sep = ""
		}
		g := map[string]string{"init": ".init", "once": ".once", "none": ".none"}[f.guard]
		k := map[string]string{"store": ".store", "passes": ".passes", "read": ".read"}[f.kind]
		rel := f.pos
		if idx := strings.Index(rel, "/repo/"); idx >= 0 {
			rel = rel[idx+6:]
		}
		fmt.Fprintf(&sb, "  { kind := %s, fn := %q, root := %q, guard := %s, pos := %q, note := %q }%s\n", k, f.fn, f.root, g, rel, f.note, sep)
	}
	sb.WriteString("]\n\n")
	fmt.Fprintf(&sb, "/-- functions that may write through a parameter (0 = receiver): %d summaries -/\ndef writeSummaries : List String := [\n", len(summaries))
	for i, s := range summaries {
		sep := ","
		if i == len(summaries)-1 {
			sep = ""
		}
		fmt.Fprintf(&sb, "  %q%s\n", s, sep)
	}
	sb.WriteString("]\n\nend Secp.Gen.Shared\n")
	return sb.String(), nil
}
