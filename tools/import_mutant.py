#!/usr/bin/env python3
"""import_mutant.py <worktree> <seeded-name> <property> <needs-text-file|-> [checks…]
Confirm a sub-agent's seeded change in its scratch worktree (tools/verify_mutant.sh), copy it to
seeded/<name>/ (patch.diff, demonstration, MUTANT.md, meta.json), run the given checks against it
(tools/run_seeded.py: apply to /repo, check, revert) and remove the worktree."""
import sys, os, subprocess, json, shutil, re
V = os.path.dirname(os.path.dirname(os.path.abspath(__file__)))
wt, name, prop = sys.argv[1:4]
checks = sys.argv[4:] or [prop]
out = subprocess.run([os.path.join(V, "tools", "verify_mutant.sh"), wt], capture_output=True, text=True).stdout
print(out)
sec = out.split("== ")
ok_suite = "FAIL" not in sec[1] and "ok" in sec[1]
fails_with = "FAIL" in sec[2]
passes_without = "FAIL" not in sec[3] and ("ok" in sec[3] or "PASS" in sec[3])
if not (ok_suite and fails_with and passes_without):
    print("NOT CONFIRMED: suite_ok=%s demo_fails_with=%s demo_passes_without=%s" % (ok_suite, fails_with, passes_without))
    sys.exit(1)
d = os.path.join(V, "seeded", name)
os.makedirs(d, exist_ok=True)
shutil.copy(os.path.join(wt, "patch.diff"), d)
if os.path.exists(os.path.join(wt, "MUTANT.md")):
    shutil.copy(os.path.join(wt, "MUTANT.md"), d)
demos = subprocess.run(["git", "ls-files", "--others", "--exclude-standard"], cwd=wt, capture_output=True, text=True).stdout.split()
for f in demos:
    if f.endswith("_test.go"):
        shutil.copy(os.path.join(wt, f), os.path.join(d, f.replace("/", "__")))
needs = ""
md = os.path.join(d, "MUTANT.md")
if os.path.exists(md):
    txt = open(md).read()
    m = re.search(r"(?is)(trigger|needs|manifest)[^\n]*\n(.{0,600})", txt)
    needs = (m.group(2) if m else txt[:600]).strip()
meta = {"property": prop, "needs_to_manifest": needs[:600], "round": int(os.environ.get("ROUND", "4")),
        "source": "independent sub-agent given only the property text and a scratch worktree",
        "verified_by_me": "tools/verify_mutant.sh: builds, existing suite passes with the change, TestDemo fails with it and passes without it",
        "demo_files": [f for f in demos if f.endswith("_test.go")]}
json.dump(meta, open(os.path.join(d, "meta.json"), "w"), indent=1)
subprocess.run(["git", "-C", "/repo", "worktree", "remove", "--force", wt])
subprocess.run([sys.executable, os.path.join(V, "tools", "stage_seeded.py"), os.environ.get("SLOT", "0"), name] + checks)
