//go:build verif

package main

import (
	"github.com/ModChain/secp256k1/ecckd"
	"math/big"
	"strconv"

	"github.com/ModChain/base58"
)

func init() { generators["C20"] = genC20 }

// every byte-taking entry point, every length 0..128 with random / all-zero / all-ff / structured
// contents, in a shuffled order with repeats (the answer must not depend on earlier calls)
func genC20(h *H) {
	var lines []string
	x, y := h.randPoint()
	gx, gy := hx(x), hx(y)
	contents := func(l int) [][]byte {
		out := [][]byte{h.randBytes(l), make([]byte, l), bytesRepeat(0xff, l)}
		if l > 0 {
			s := h.randBytes(l)
			s[0] = []byte{0x30, 0x02, 0x03, 0x04, 0x06, 27, 31, 0x00}[h.rng.Intn(8)]
			if l > 1 {
				s[1] = byte(l - 2)
			}
			out = append(out, s)
		}
		return out
	}
	step := 1
	if h.budget == 1 {
		step = 3
	}
	for l := 0; l <= 128; l += step {
		for _, b := range contents(l) {
			s := hx(b)
			lines = append(lines,
				"der_parse "+s, "pubkey_parse "+s, "schnorr_pubkey_parse "+s, "parse_compact "+s,
				"schnorr_parse "+s, "bip_unmarshal "+s, "privkey_frombytes "+s,
				"recover_compact "+s+" "+hx(h.randBytes(h.rng.Intn(40))),
				"verify "+s+" "+gx+" "+gy+" "+hx(h.randBytes(32))+" "+hx(h.randBytes(32)),
				"nonce "+s+" "+hx(h.randBytes(h.rng.Intn(70)))+" - - 0",
				"nonce "+hx(h.randBytes(32))+" "+s+" "+hx(h.randBytes([]int{0, 32, 33}[h.rng.Intn(3)]))+" "+hx(h.randBytes([]int{0, 16, 17}[h.rng.Intn(3)]))+" "+strconv.Itoa(h.rng.Intn(3)),
			)
			if l%9 == 0 {
				lines = append(lines, "ad_sbmul "+s)
				// FromString on arbitrary text: the model is told what base58 decoding yields
				dec, err := base58.Bitcoin.Decode(string(b))
				res := "ERR"
				if err == nil {
					res = hx(dec)
				}
				lines = append(lines, "bip_fromstring "+s+" b58d="+s+":"+res)
			}
		}
	}
	// well-formed extended keys among the junk (decoded into fresh and into long-lived receivers, see the op),
	// their prefixes and one-byte extensions with the checksum recomputed
	for i := 0; i < 2; i++ {
		if m, err := ecckd.FromBitcoinSeed(h.randBytes(32)); err == nil {
			c, _ := m.Child(uint32(h.rng.Intn(1<<31)) | 0x80000000)
			if c == nil {
				c = m
			}
			p, _ := c.Public()
			for _, k := range []*ecckd.ExtendedKey{m, c, p} {
				bin, _ := k.MarshalBinary()
				lines = append(lines, "bip_unmarshal "+hx(bin), "bip_unmarshal "+hx(bin[:len(bin)-1]), "bip_unmarshal "+hx(append(append([]byte{}, bin...), 0)))
			}
		}
	}
	// VALID public keys in every accepted format (compressed, uncompressed, both hybrid tags) and their wrong-parity
	// twins: a parser that succeeds must leave the caller's bytes alone too
	cat := func(parts ...[]byte) []byte {
		var o []byte
		for _, p := range parts {
			o = append(o, p...)
		}
		return o
	}
	for i := 0; i < 2; i++ {
		px, py := h.affinePoint()
		x, y := be32(px), be32(py)
		par := byte(y[31] & 1)
		for _, enc := range [][]byte{cat([]byte{2 + par}, x), cat([]byte{4}, x, y), cat([]byte{6 + par}, x, y), cat([]byte{7 - par}, x, y), cat([]byte{3 - par}, x)} {
			lines = append(lines, "pubkey_parse "+hx(enc), "schnorr_pubkey_parse "+hx(enc), "pubkey_roundtrip "+hx(enc))
		}
	}
	// FromPublicKey on caller-owned keys with coordinates in and out of range
	{
		px, py := h.affinePoint()
		for _, xv := range append([][]byte{be32(px)}, h.overP()[:4]...) {
			lines = append(lines, "bip_frompub "+hx(xv)+" "+hx(be32(py))+" "+hx(h.randBytes(32)))
		}
	}
	// prefixes of valid DER signatures with the length bytes fixed up (a parser that indexes before it checks)
	for i := 0; i < 3; i++ {
		r, sv := h.randScalarInt(), h.randScalarInt()
		if i == 0 {
			r, sv = big.NewInt(1), big.NewInt(1)
		}
		for _, m := range derTruncFix(derEncodeRaw(minimalInt(r), minimalInt(sv))) {
			lines = append(lines, "der_parse "+hx(m))
		}
	}
	// calls that take the rare branches of Verify / RecoverPublicKey (r < p-n, nonce x >= n), each several
	// times, so that a branch that leaves something behind changes a later answer
	for i := 0; i < 3; i++ {
		qx, qy, r, sg, hash, ok := h.highXSig()
		if !ok {
			continue
		}
		ri := new(big.Int).SetBytes(unhx(r))
		miss := hx(be32(new(big.Int).Add(ri, big.NewInt(1))))
		for k := 0; k < 3; k++ {
			lines = append(lines,
				"verify "+hx(hash)+" "+qx+" "+qy+" "+r+" "+sg,
				"verify "+hx(hash)+" "+qx+" "+qy+" "+miss+" "+sg,
				"recover "+hx(hash)+" "+r+" "+sg+" 2",
				"recover "+hx(hash)+" "+r+" "+sg+" 3",
				"recover "+hx(hash)+" "+miss+" "+sg+" "+strconv.Itoa(h.rng.Intn(4)))
		}
	}
	// repeats at random positions, then shuffle
	for i := 0; i < len(lines)/20; i++ {
		lines = append(lines, lines[h.rng.Intn(len(lines))])
	}
	h.rng.Shuffle(len(lines), func(i, j int) { lines[i], lines[j] = lines[j], lines[i] })
	for _, l := range lines {
		op := l
		for i := 0; i < len(l); i++ {
			if l[i] == ' ' {
				op = l[:i]
				break
			}
		}
		h.doLine(op, l)
	}
}
