#!/bin/bash
# verify_mutant.sh <worktree> : confirm that a seeded change compiles, passes the existing suite,
# and that its demonstration fails with the change and passes without it.
set -u
WT=$1
export GOFLAGS=-mod=mod GOPROXY=off GOSUMDB=off GOTOOLCHAIN=local
cd "$WT" || exit 2
DEMOS=$(git ls-files --others --exclude-standard | grep '_test.go$')
echo "demo files: $DEMOS"
echo "patch touches: $(grep '^+++ ' patch.diff | tr '\n' ' ')"
# state: change applied?
git diff --quiet -- . ':(exclude)patch.diff' && { echo "change not applied; applying"; git apply patch.diff || exit 2; }
mkdir -p /tmp/demo_hold.$$
for d in $DEMOS; do mkdir -p /tmp/demo_hold.$$/$(dirname $d); mv $d /tmp/demo_hold.$$/$d; done
echo "== suite with change (demo removed)"
go build ./... && go test -vet=off -count=1 ./... 2>&1 | tail -4; S1=${PIPESTATUS[0]}
for d in $DEMOS; do mv /tmp/demo_hold.$$/$d $d; done
echo "== demo with change (must FAIL)"
go test -vet=off -count=1 -run TestDemo ./... 2>&1 | grep -E "^(ok|FAIL|---)" | head -8
git apply -R patch.diff || { echo "cannot revert"; exit 2; }
echo "== demo without change (must PASS)"
go test -vet=off -count=1 -run TestDemo ./... 2>&1 | grep -E "^(ok|FAIL|---)" | head -8
git apply patch.diff
rm -rf /tmp/demo_hold.$$
