/-
  Proofs/PointOpsR2Add11 — addZ1AndZ2EqualsOne (mmadd-2007-bl), result≡p2.
-/
import Secp.Proofs.PointOpsR2Base
import Secp.Proofs.PointOpsAdd11

set_option linter.unusedSimpArgs false
namespace Secp.Proofs.PointOps
open Secp.Spec Secp.Model Secp.FOp Secp.Proofs
open Secp.Gen.FormulasC

theorem addZ1AndZ2EqualsOne_a011_contract (f : Nat) :
    AddContract (fun Z1 Z2 => Z1 = 1 ∧ Z2 = 1) (RunR2 (f + 1) 14) (DRunP f) where
  ne := by
    intro X1 Y1 Z1 X2 Y2 Z2 hb1 hb2 hz1 hz2 hpre hne
    obtain ⟨hp1, hp2⟩ := hpre
    subst hp1 hp2
    rw [Ne, ← add11_U_iff hb1.1 hb2.1] at hne
    refine ⟨?X3, ?Y3, ?Z3, ?run, ⟨?b1, ?b2, ?b3⟩, ?ch⟩
    case run =>
      show callE (f + 1) 14 [X1, Y1, 1, X2, Y2, 1] = some [X1, Y1, 1, _, _, _]
      rw [callE_succ f 14 _ addZ1AndZ2EqualsOne_a011 rfl]
      exec_simp [addZ1AndZ2EqualsOne_a011, addZ1AndZ2EqualsOne_a011_p0, addZ1AndZ2EqualsOne_a011_p1, addZ1AndZ2EqualsOne_a011_p2, hne]
      and_intros <;> rfl
    case b1 => exact Nat.mod_lt _ P_pos
    case b2 => exact Nat.mod_lt _ P_pos
    case b3 => exact Nat.mod_lt _ P_pos
    case ch =>
      convert chordRep_addG (X1 : F) Y1 ((1 : Nat) : F) X2 Y2 ((1 : Nat) : F) using 1
      all_goals cast_simp
      all_goals simp only [agX, agY, agZ]
      all_goals ring
  eq_ne := by
    intro X1 Y1 Z1 X2 Y2 Z2 hb1 hb2 hz1 hz2 hpre hU hS
    obtain ⟨hp1, hp2⟩ := hpre
    subst hp1 hp2
    rw [Ne] at hS
    rw [← add11_U_iff hb1.1 hb2.1] at hU
    rw [← add11_S_iff hb1.2.1 hb2.2.1] at hS
    dsimp only at hU hS
    show callE (f + 1) 14 [X1, Y1, 1, X2, Y2, 1] = some [X1, Y1, 1, 0, 0, 0]
    rw [callE_succ f 14 _ addZ1AndZ2EqualsOne_a011 rfl]
    exec_simp [addZ1AndZ2EqualsOne_a011, addZ1AndZ2EqualsOne_a011_p0, addZ1AndZ2EqualsOne_a011_p1, addZ1AndZ2EqualsOne_a011_p2, hS, hU]
  eq_eq := by
    intro X1 Y1 Z1 X2 Y2 Z2 hb1 hb2 hz1 hz2 hpre hU hS r hr
    obtain ⟨hp1, hp2⟩ := hpre
    subst hp1 hp2
    rw [← add11_U_iff hb1.1 hb2.1] at hU
    rw [← add11_S_iff hb1.2.1 hb2.2.1] at hS
    obtain ⟨a, b, c⟩ := r
    have hr' : callE f 4 [X1, Y1, 1, X2, Y2, 1] = some [X1, Y1, 1, a, b, c] := hr X2 Y2 1
    show callE (f + 1) 14 [X1, Y1, 1, X2, Y2, 1] = some [X1, Y1, 1, a, b, c]
    rw [callE_succ f 14 _ addZ1AndZ2EqualsOne_a011 rfl]
    subst hU hS
    exec_simp [addZ1AndZ2EqualsOne_a011, addZ1AndZ2EqualsOne_a011_p0, addZ1AndZ2EqualsOne_a011_p1, addZ1AndZ2EqualsOne_a011_p2, hr']

end Secp.Proofs.PointOps
