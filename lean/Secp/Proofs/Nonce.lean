import Secp.Model.Nonce
/-
  Proofs/Nonce — the `HmacObj` state machine refines RFC 2104 HMAC-SHA256 and the mirrored
  `nonceM` equals the RFC 6979 generator `nonceRFC6979 hmacSha256`.
  SHA-256 is used as an opaque function except for one fact: its output has 32 bytes.
-/
namespace Secp.Proofs.Nonce
open Secp.Spec Secp.Model

/-! ### the only fact about SHA-256 that is needed: the digest has 32 bytes -/

theorem compress_size (h : Array UInt32) (b : Bytes) : (compress h b).size = 8 := by
  unfold compress
  simp only [Id.run, bind, pure]
  rfl

theorem sha256Blocks_size : ∀ (n : Nat) (h : Array UInt32) (m : Bytes), h.size = 8 →
    (sha256Blocks n h m).size = 8
  | 0, _, _, hh => hh
  | n+1, _, _, _ => sha256Blocks_size n _ _ (compress_size _ _)

theorem flatMap_wordBytes_length (l : List UInt32) :
    (l.flatMap wordBytes).length = 4 * l.length := by
  induction l with
  | nil => rfl
  | cons a l ih => simp [List.flatMap_cons, ih, wordBytes]; omega

theorem sha256_length (m : Bytes) : (sha256 m).length = 32 := by
  unfold sha256
  simp only [flatMap_wordBytes_length, Array.length_toList]
  rw [sha256Blocks_size _ _ _ rfl]

theorem hmacSha256_length (k d : Bytes) : (hmacSha256 k d).length = 32 := by
  unfold hmacSha256; exact sha256_length _

/-! ### the HMAC object -/

/-- the RFC 2104 inner / outer pads of a key -/
def pad36 (k : Bytes) : Bytes := (hmacKeyBlock k).map (· ^^^ 0x36)
def pad5c (k : Bytes) : Bytes := (hmacKeyBlock k).map (· ^^^ 0x5c)

theorem hmacSha256_eq (k d : Bytes) :
    hmacSha256 k d = sha256 (pad5c k ++ sha256 (pad36 k ++ d)) := rfl

/-- the object carries the pads of key `k` -/
def Keyed (h : HmacObj) (k : Bytes) : Prop := h.ipad = pad36 k ∧ h.opad = pad5c k

theorem copyInto_zeros (key : Bytes) (hk : key.length ≤ 64) :
    copyInto (zeros 64) key = key ++ List.replicate (64 - key.length) 0 := by
  unfold copyInto zeros
  rw [List.length_replicate, List.take_of_length_le hk, Nat.min_eq_left hk, List.drop_replicate]

theorem hmacKeyBlock_short (key : Bytes) (hk : key.length ≤ 64) :
    hmacKeyBlock key = key ++ List.replicate (64 - key.length) 0 := by
  unfold hmacKeyBlock
  have : ¬ key.length > 64 := by omega
  simp only [this, if_false]

/-- the fresh object used by both `newHMACSHA256` and `ResetKey` -/
def blank : HmacObj := { inner := [], outer := [], ipad := zeros 64, opad := zeros 64 }

theorem initKey_blank (k : Bytes) (hk : k.length ≤ 64) :
    blank.initKey k = { inner := pad36 k, outer := [], ipad := pad36 k, opad := pad5c k } := by
  have hn : ¬ k.length > 64 := by omega
  unfold HmacObj.initKey blank pad36 pad5c
  simp only [hn, if_false, List.nil_append, copyInto_zeros k hk, hmacKeyBlock_short k hk]

theorem hmacNew_eq (k : Bytes) (hk : k.length ≤ 64) :
    hmacNew k = { inner := pad36 k, outer := [], ipad := pad36 k, opad := pad5c k } :=
  initKey_blank k hk

theorem resetKey_eq (h : HmacObj) (k : Bytes) (hk : k.length ≤ 64) :
    h.resetKey k = { inner := pad36 k, outer := [], ipad := pad36 k, opad := pad5c k } :=
  initKey_blank k hk

theorem hmac_write_write (h : HmacObj) (a b : Bytes) : (h.write a).write b = h.write (a ++ b) := by
  simp [HmacObj.write, List.append_assoc]

theorem keyed_write {h : HmacObj} {k : Bytes} (hK : Keyed h k) (d : Bytes) : Keyed (h.write d) k := hK
theorem keyed_reset {h : HmacObj} {k : Bytes} (hK : Keyed h k) : Keyed h.reset k := hK
theorem keyed_sum {h : HmacObj} {k : Bytes} (hK : Keyed h k) : Keyed h.sum.2 k := hK
theorem keyed_new (k : Bytes) (hk : k.length ≤ 64) : Keyed (hmacNew k) k := by
  rw [hmacNew_eq k hk]; exact ⟨rfl, rfl⟩
theorem keyed_resetKey (h : HmacObj) (k : Bytes) (hk : k.length ≤ 64) : Keyed (h.resetKey k) k := by
  rw [resetKey_eq h k hk]; exact ⟨rfl, rfl⟩

/-- a keyed object whose inner hash holds `ipad ‖ data` returns HMAC(k, data) -/
theorem sum_of_inner {h : HmacObj} {k : Bytes} (hK : Keyed h k) (data : Bytes)
    (hi : h.inner = pad36 k ++ data) : h.sum.1 = hmacSha256 k data := by
  simp only [HmacObj.sum, hmacSha256_eq, hi, hK.2]

theorem keyed_reset_write_sum {h : HmacObj} {k : Bytes} (hK : Keyed h k) (data : Bytes) :
    ((h.reset).write data).sum.1 = hmacSha256 k data :=
  sum_of_inner (keyed_write (keyed_reset hK) data) data (by simp [HmacObj.write, HmacObj.reset, hK.1])

theorem hmac_new_sum (k data : Bytes) (hk : k.length ≤ 64) :
    ((hmacNew k).write data).sum.1 = hmacSha256 k data :=
  sum_of_inner (keyed_write (keyed_new k hk) data) data (by rw [hmacNew_eq k hk]; rfl)

theorem hmac_resetKey_sum (h : HmacObj) (k data : Bytes) (hk : k.length ≤ 64) :
    ((h.resetKey k).write data).sum.1 = hmacSha256 k data :=
  sum_of_inner (keyed_write (keyed_resetKey h k hk) data) data (by rw [resetKey_eq h k hk]; rfl)

theorem hmac_reset_sum (k junk data : Bytes) (hk : k.length ≤ 64) :
    ((((hmacNew k).write junk).sum.2.reset).write data).sum.1 = hmacSha256 k data :=
  keyed_reset_write_sum (keyed_sum (keyed_write (keyed_new k hk) junk)) data

/-! ### key buffer -/

theorem keyBuf_spec (priv hash extra version : Bytes) :
    nonceKeyBuf priv hash extra version = nonceKeyMaterial priv hash extra version := by
  unfold nonceKeyBuf nonceKeyMaterial fit32 leftPad zeros
  by_cases he : extra.length = 32 <;> by_cases hv : version.length = 16 <;>
    simp [he, hv, List.append_assoc]

theorem schnorr_tag_distinct (priv hash : Bytes) :
    nonceKeyBuf priv hash rfc6979ExtraDataV0 [] ≠ nonceKeyBuf priv hash [] [] := by
  intro h
  have := congrArg List.length h
  simp [nonceKeyBuf, rfc6979ExtraDataV0] at this

/-! ### the candidate test -/

theorem candidate_test (t : Bytes) (ht : t.length = 32) :
    let c := beNat t
    (scalarSetByteSlice t).1 = (if c ≥ N then c - N else c) ∧
    ((!(scalarSetByteSlice t).2 && (scalarSetByteSlice t).1 != 0) = true ↔ (0 < c ∧ c < N)) := by
  have htk : t.take 32 = t := List.take_of_length_le (by omega)
  simp only [scalarSetByteSlice, htk]
  refine ⟨trivial, ?_⟩
  by_cases hc : beNat t ≥ N
  · simp [hc]
  · simp [hc]; omega

/-! ### the generation loop -/

theorem nonceLoop_spec : ∀ (fuel : Nat) (h : HmacObj) (s : DrbgState) (g e : Nat),
    Keyed h s.k → g ≤ e →
    nonceLoop fuel h s.v g e = drbgNonce hmacSha256 fuel s (e - g)
  | 0, _, _, _, _, _, _ => rfl
  | fuel+1, h, s, g, e, hK, hge => by
    -- the candidate
    have hv1 : ((h.reset).write s.v).sum.1 = hmacSha256 s.k s.v := keyed_reset_write_sum hK _
    have hK1 : Keyed ((h.reset).write s.v).sum.2 s.k := keyed_sum (keyed_write (keyed_reset hK) _)
    -- the retry key and value
    have hk2 : ((((h.reset).write s.v).sum.2.reset.write (hmacSha256 s.k s.v)).write [0x00]).sum.1
        = hmacSha256 s.k (hmacSha256 s.k s.v ++ [0x00]) := by
      rw [hmac_write_write]; exact keyed_reset_write_sum hK1 _
    have hklen : (hmacSha256 s.k (hmacSha256 s.k s.v ++ [0x00])).length ≤ 64 := by
      rw [hmacSha256_length]; omega
    obtain ⟨hsec, hok⟩ := candidate_test (hmacSha256 s.k s.v) (hmacSha256_length _ _)
    unfold nonceLoop drbgNonce
    simp only [drbgNext, drbgRetry, hv1, hk2]
    generalize hh2 : (((((h.reset).write s.v).sum.2.reset.write (hmacSha256 s.k s.v)).write
      [0x00]).sum.2) = h2
    have hv3 := hmac_resetKey_sum h2 _ (hmacSha256 s.k s.v) hklen
    have hK3 : Keyed (((h2.resetKey (hmacSha256 s.k (hmacSha256 s.k s.v ++ [0x00]))).write
        (hmacSha256 s.k s.v)).sum.2) (hmacSha256 s.k (hmacSha256 s.k s.v ++ [0x00])) :=
      keyed_sum (keyed_write (keyed_resetKey h2 _ hklen) _)
    simp only [hv3]
    by_cases hc : 0 < beNat (hmacSha256 s.k s.v) ∧ beNat (hmacSha256 s.k s.v) < N
    · have hokt := hok.2 hc
      have hnot : ¬ beNat (hmacSha256 s.k s.v) ≥ N := by omega
      simp only [hc, hokt, and_self, if_true, Bool.true_and, decide_eq_true_eq]
      by_cases hs : e - g = 0
      · have : g + 1 > e := by omega
        simp only [hs, this, if_true, hsec, hnot, if_false]
      · have : ¬ g + 1 > e := by omega
        simp only [hs, this, if_false]
        have := nonceLoop_spec fuel _
          { k := hmacSha256 s.k (hmacSha256 s.k s.v ++ [0x00]),
            v := hmacSha256 (hmacSha256 s.k (hmacSha256 s.k s.v ++ [0x00])) (hmacSha256 s.k s.v) }
          (g + 1) e hK3 (by omega)
        rw [show e - (g + 1) = e - g - 1 by omega] at this
        exact this
    · have hokf : (!(scalarSetByteSlice (hmacSha256 s.k s.v)).2 &&
          (scalarSetByteSlice (hmacSha256 s.k s.v)).1 != 0) = false := by
        cases hb : (!(scalarSetByteSlice (hmacSha256 s.k s.v)).2 &&
          (scalarSetByteSlice (hmacSha256 s.k s.v)).1 != 0)
        · rfl
        · exact absurd (hok.1 hb) hc
      simp only [hc, hokf, if_false, Bool.false_and, Bool.false_eq_true]
      exact nonceLoop_spec fuel _
          { k := hmacSha256 s.k (hmacSha256 s.k s.v ++ [0x00]),
            v := hmacSha256 (hmacSha256 s.k (hmacSha256 s.k s.v ++ [0x00])) (hmacSha256 s.k s.v) }
          g e hK3 hge

theorem nonce_spec (fuel : Nat) (priv hash extra version : Bytes) (i : Nat) :
    nonceM fuel priv hash extra version i
      = nonceRFC6979 hmacSha256 fuel priv hash extra version i := by
  have h32 : (zeros 32).length ≤ 64 := by simp [zeros]
  unfold nonceM nonceRFC6979
  rw [keyBuf_spec]
  generalize nonceKeyMaterial priv hash extra version = km
  simp only [hmac_write_write]
  -- K1
  have hk1 := hmac_new_sum (zeros 32) (List.replicate 32 (0x01 : UInt8) ++ [0x00] ++ km) h32
  simp only [hk1]
  generalize ((hmacNew (zeros 32)).write (List.replicate 32 (0x01 : UInt8) ++ [0x00] ++ km)).sum.2 = h1
  have hinit : drbgInit hmacSha256 km =
      { k := hmacSha256 (hmacSha256 (zeros 32) (List.replicate 32 (0x01 : UInt8) ++ [0x00] ++ km))
              (hmacSha256 (hmacSha256 (zeros 32) (List.replicate 32 (0x01 : UInt8) ++ [0x00] ++ km))
                (List.replicate 32 (0x01 : UInt8)) ++ [0x01] ++ km),
        v := hmacSha256 (hmacSha256 (hmacSha256 (zeros 32) (List.replicate 32 (0x01 : UInt8) ++ [0x00] ++ km))
              (hmacSha256 (hmacSha256 (zeros 32) (List.replicate 32 (0x01 : UInt8) ++ [0x00] ++ km))
                (List.replicate 32 (0x01 : UInt8)) ++ [0x01] ++ km))
              (hmacSha256 (hmacSha256 (zeros 32) (List.replicate 32 (0x01 : UInt8) ++ [0x00] ++ km))
                (List.replicate 32 (0x01 : UInt8))) } := rfl
  rw [hinit]
  have hk1len : (hmacSha256 (zeros 32) (List.replicate 32 (0x01 : UInt8) ++ [0x00] ++ km)).length ≤ 64 := by
    rw [hmacSha256_length]; omega
  generalize hmacSha256 (zeros 32) (List.replicate 32 (0x01 : UInt8) ++ [0x00] ++ km) = k1 at hk1len ⊢
  -- V1
  have hv1 := hmac_resetKey_sum h1 k1 (List.replicate 32 (0x01 : UInt8)) hk1len
  have hKd1 : Keyed ((h1.resetKey k1).write (List.replicate 32 (0x01 : UInt8))).sum.2 k1 :=
    keyed_sum (keyed_write (keyed_resetKey h1 k1 hk1len) _)
  simp only [hv1]
  generalize ((h1.resetKey k1).write (List.replicate 32 (0x01 : UInt8))).sum.2 = h2 at hKd1 ⊢
  generalize hmacSha256 k1 (List.replicate 32 (0x01 : UInt8)) = v1
  -- K2
  have hk2 : ((h2.reset).write (v1 ++ [0x01] ++ km)).sum.1 = hmacSha256 k1 (v1 ++ [0x01] ++ km) :=
    keyed_reset_write_sum hKd1 _
  simp only [hk2]
  generalize ((h2.reset).write (v1 ++ [0x01] ++ km)).sum.2 = h3
  have hk2len : (hmacSha256 k1 (v1 ++ [0x01] ++ km)).length ≤ 64 := by
    rw [hmacSha256_length]; omega
  generalize hmacSha256 k1 (v1 ++ [0x01] ++ km) = k2 at hk2len ⊢
  -- V2
  have hv2 := hmac_resetKey_sum h3 k2 v1 hk2len
  have hKd2 : Keyed ((h3.resetKey k2).write v1).sum.2 k2 :=
    keyed_sum (keyed_write (keyed_resetKey h3 k2 hk2len) _)
  simp only [hv2]
  exact nonceLoop_spec fuel _ { k := k2, v := hmacSha256 k2 v1 } 0 i hKd2 (Nat.zero_le _)

/-- every value produced by the RFC 6979 generator is in [1, N-1] -/
theorem drbgNonce_range (H : HmacFn) : ∀ (fuel : Nat) (s : DrbgState) (skip k : Nat),
    drbgNonce H fuel s skip = some k → 0 < k ∧ k < N
  | 0, _, _, _, h => by simp [drbgNonce] at h
  | fuel+1, s, skip, k, h => by
    unfold drbgNonce at h
    simp only at h
    split at h
    · rename_i hc
      split at h
      · cases h; exact hc
      · exact drbgNonce_range H fuel _ _ _ h
    · exact drbgNonce_range H fuel _ _ _ h

theorem nonce_range (fuel : Nat) (priv hash extra version : Bytes) (i k : Nat)
    (h : nonceM fuel priv hash extra version i = some k) : 0 < k ∧ k < N := by
  rw [nonce_spec] at h
  exact drbgNonce_range _ _ _ _ _ h

end Secp.Proofs.Nonce
