//go:build verif

package main

import (
	"math/big"

	secp "github.com/ModChain/secp256k1"
	"github.com/ModChain/secp256k1/schnorr"
)

func pubXY(p *secp.PublicKey) string {
	u := p.SerializeUncompressed()
	return hx(u[1:33]) + " " + hx(u[33:65])
}

func init() {
	opImpl["pubkey_parse"] = func(a []string) string {
		b := unhx(a[0])
		return withArgsCheck([][]byte{b}, func() string {
			k, err := secp.ParsePubKey(b)
			if err != nil {
				return "err " + errKind(err)
			}
			if !k.IsOnCurve() {
				return "ok-OFF-CURVE " + pubXY(k)
			}
			return "ok " + pubXY(k)
		})
	}
	// parse, then both serialisations, then re-parse both and compare
	opImpl["pubkey_roundtrip"] = func(a []string) string {
		b := unhx(a[0])
		k, err := secp.ParsePubKey(b)
		if err != nil {
			return "err " + errKind(err)
		}
		c, u := k.SerializeCompressed(), k.SerializeUncompressed()
		k2, e2 := secp.ParsePubKey(c)
		k3, e3 := secp.ParsePubKey(u)
		if e2 != nil || e3 != nil || !k.IsEqual(k2) || !k.IsEqual(k3) {
			return "ROUNDTRIP-MISMATCH"
		}
		return "ok " + hx(c) + " " + hx(u)
	}
	opImpl["schnorr_pubkey_parse"] = func(a []string) string {
		var b []byte
		if a[0] != "nil" {
			b = unhx(a[0])
			if b == nil {
				b = []byte{}
			}
		}
		k, err := schnorr.ParsePubKey(b)
		if err != nil {
			kind := errKind(err)
			if len(kind) > 6 && kind[:6] == "other:" {
				switch {
				case b == nil:
					kind = "SchnorrNil"
				case len(b) != 33:
					kind = "SchnorrBadSize"
				default:
					kind = "SchnorrWrongType"
				}
			}
			return "err " + kind
		}
		return "ok " + pubXY(k)
	}
	generators["C08"] = genC08
}

func (h *H) randPoint() (x, y []byte) {
	for {
		k := secp.PrivKeyFromBytes(h.randBytes(32))
		if k.Key.IsZero() {
			continue
		}
		u := k.PubKey().SerializeUncompressed()
		return u[1:33], u[33:65]
	}
}

// an x < P with no point on the curve
func (h *H) nonResidueX() []byte {
	for {
		b := h.randBytes(32)
		b[0] &= 0x7f
		cb := append([]byte{2}, b...)
		if _, err := secp.ParsePubKey(cb); err != nil && errKind(err) == "ErrPubKeyNotOnCurve" {
			return b
		}
	}
}

func genC08(h *H) {
	cat := func(parts ...[]byte) []byte {
		var o []byte
		for _, p := range parts {
			o = append(o, p...)
		}
		return o
	}
	negY := func(y []byte) []byte {
		return be32(new(big.Int).Sub(curveP, new(big.Int).SetBytes(y)))
	}
	npts := 3 * h.budget
	for i := 0; i < npts; i++ {
		x, y := h.randPoint()
		// all 256 format bytes × both lengths, on a valid point
		for t := 0; t < 256; t++ {
			h.do("tag-x-65", "pubkey_parse", hx(cat([]byte{byte(t)}, x, y)))
			h.do("tag-x-33", "pubkey_parse", hx(cat([]byte{byte(t)}, x)))
		}
		// wrong-parity y (valid point, flipped) under every tag that cares
		ny := negY(y)
		for _, t := range []byte{4, 6, 7} {
			h.do("flipped-y", "pubkey_parse", hx(cat([]byte{t}, x, ny)))
			h.do("roundtrip", "pubkey_roundtrip", hx(cat([]byte{t}, x, ny)))
			h.do("roundtrip", "pubkey_roundtrip", hx(cat([]byte{t}, x, y)))
		}
		h.do("roundtrip", "pubkey_roundtrip", hx(cat([]byte{2}, x)))
		h.do("roundtrip", "pubkey_roundtrip", hx(cat([]byte{3}, x)))
		// off-curve y, y >= P, x >= P
		y1 := be32(new(big.Int).Add(new(big.Int).SetBytes(y), big.NewInt(1)))
		h.do("off-curve", "pubkey_parse", hx(cat([]byte{4}, x, y1)))
		h.do("off-curve", "pubkey_parse", hx(cat([]byte{6}, x, y1)))
		h.do("off-curve", "pubkey_parse", hx(cat([]byte{7}, x, y1)))
		bigs := [][]byte{be32(curveP), be32(new(big.Int).Add(curveP, big.NewInt(1))), be32(new(big.Int).Sub(new(big.Int).Lsh(big.NewInt(1), 256), big.NewInt(1))),
			be32(new(big.Int).Sub(curveP, big.NewInt(1)))}
		for _, bb := range bigs {
			h.do("coord-boundary", "pubkey_parse", hx(cat([]byte{4}, x, bb)))
			h.do("coord-boundary", "pubkey_parse", hx(cat([]byte{4}, bb, y)))
			h.do("coord-boundary", "pubkey_parse", hx(cat([]byte{2}, bb)))
			h.do("coord-boundary", "pubkey_parse", hx(cat([]byte{3}, bb)))
			h.do("coord-boundary", "pubkey_parse", hx(cat([]byte{6}, bb, bb)))
		}
		nr := h.nonResidueX()
		h.do("non-residue-x", "pubkey_parse", hx(cat([]byte{2}, nr)))
		h.do("non-residue-x", "pubkey_parse", hx(cat([]byte{3}, nr)))
		h.do("non-residue-x", "pubkey_parse", hx(cat([]byte{4}, nr, y)))
		// schnorr parser on the same material
		for _, t := range []byte{2, 3, 4, 6, 0, 5} {
			h.do("schnorr", "schnorr_pubkey_parse", hx(cat([]byte{t}, x)))
		}
		h.do("schnorr", "schnorr_pubkey_parse", hx(cat([]byte{2}, nr)))
		h.do("schnorr", "schnorr_pubkey_parse", hx(cat([]byte{4}, x, y)))
		// single bit flips of valid encodings
		for _, enc := range [][]byte{cat([]byte{2 + y[31]&1}, x), cat([]byte{4}, x, y)} {
			for j := 0; j < 12; j++ {
				m := append([]byte{}, enc...)
				m[h.rng.Intn(len(m))] ^= 1 << uint(h.rng.Intn(8))
				h.do("bitflip", "pubkey_parse", hx(m))
			}
		}
	}
	h.do("schnorr", "schnorr_pubkey_parse", "nil")
	h.do("schnorr", "schnorr_pubkey_parse", "-")
	// every length 0..70: random content and valid-prefix content
	x, y := h.randPoint()
	full := cat([]byte{4}, x, y, h.randBytes(8))
	for l := 0; l <= 70; l++ {
		h.do("length", "pubkey_parse", hx(h.randBytes(l)))
		h.do("length", "pubkey_parse", hx(full[:l]))
		c := cat([]byte{2 + y[31]&1}, x, h.randBytes(40))
		h.do("length", "pubkey_parse", hx(c[:l]))
		h.do("length", "schnorr_pubkey_parse", hx(c[:l]))
	}
	// small x values (some on curve, some not), x = 0
	for v := 0; v < 12; v++ {
		xb := be32(big.NewInt(int64(v)))
		h.do("small-x", "pubkey_parse", hx(cat([]byte{2}, xb)))
		h.do("small-x", "pubkey_parse", hx(cat([]byte{3}, xb)))
	}
}
