import Secp.Gen.BytesProg
import Secp.Model.Ecdsa
import Secp.Model.Schnorr
import Secp.Proofs.BytesProg
/-
  Proofs/BytesProgSig — the machine-generated `Secp.Gen.BytesProg.parseCompact` and
  `Secp.Gen.BytesProg.schnorrParse` (regenerated from the Go source by tools/gotr) are the
  hand-written models `Secp.Model.parseCompactM` / `Secp.Model.schnorrParse`, in particular
  they never panic.

  Same approach as `Proofs/BytesProg`: both sides are peeled in lock step, one Go statement at
  a time.  The differences to the DER parser are

  * the models are written with `Except` and total list operations; the result is embedded
    with `ofExcept`, which is pushed through one `if` per step (`ite_ofExcept`); the pair-`let`s
    `let (r, overflow) := …` become projections under `dsimp only` on both sides
    (`pair_ofExcept` is the fallback step should they stay `match`es);
  * the index / slice operations of the generated text are resolved with the length fact
    recorded by the guard at the top (`idx_zero_bind`, `slice_bind`, `sliceFrom_bind`), the side
    conditions are closed by `omega` from the hypotheses collected while peeling;
  * the header byte is a `UInt8` in the generated text and a `Nat` in the model (`hdr_flag`,
    `hdr_code`, `hdr_range`).
-/
namespace Secp.Proofs.BytesProgSig
open Secp.Spec Secp.Model Secp.Proofs.BytesProg

/-- embedding of the models' result type into the generated programs' result type -/
def ofExcept {ε α} : Except ε α → Secp.Model.Outcome ε α
  | .ok a => .ok a
  | .error e => .err e

@[simp] theorem ofExcept_ok {ε α} (a : α) : ofExcept (.ok a : Except ε α) = .ok a := rfl
@[simp] theorem ofExcept_error {ε α} (e : ε) : ofExcept (.error e : Except ε α) = .err e := rfl

/-! ### congruence lemmas -/

/-- one `if`-check against a model under `ofExcept` -/
theorem ite_ofExcept {ε α : Type} {c c' : Prop} [Decidable c] [Decidable c']
    {e a : Outcome ε α} {e' b : Except ε α}
    (hc : c ↔ c') (he : c' → e = ofExcept e') (ha : ¬ c' → a = ofExcept b) :
    (if c then e else a) = ofExcept (if c' then e' else b) := by
  by_cases h : c'
  · rw [if_pos h, if_pos (hc.mpr h)]; exact he h
  · rw [if_neg h, if_neg (fun hh => h (hc.mp hh))]; exact ha h

/-- one destructuring `let (a, b) := p` on both sides -/
theorem pair_ofExcept {ε α β γ : Type} (p q : β × γ) (hpq : p = q)
    {f : β → γ → Outcome ε α} {g : β → γ → Except ε α}
    (h : ∀ x y, q = (x, y) → f x y = ofExcept (g x y)) :
    (match p with | (x, y) => f x y) = ofExcept (match q with | (x, y) => g x y) := by
  subst hpq
  obtain ⟨x, y⟩ := p
  exact h x y rfl

/-! ### index and slice operations below the length guard -/

theorem idx_zero_bind {ε β : Type} (b : Bytes) (h : 0 < b.length) (K : UInt8 → Outcome ε β) :
    (idx b 0 >>= K) = K (b.headD 0) := by
  cases b with
  | nil => simp at h
  | cons x xs => rfl

theorem slice_bind {ε β : Type} (b : Bytes) (lo hi : Nat) (h : lo ≤ hi ∧ hi ≤ b.length)
    (K : Bytes → Outcome ε β) :
    (slice b lo hi >>= K) = K ((b.take hi).drop lo) := by
  unfold slice
  rw [if_pos h]; rfl

theorem sliceFrom_bind {ε β : Type} (b : Bytes) (lo : Nat) (h : lo ≤ b.length)
    (K : Bytes → Outcome ε β) :
    (sliceFrom b lo >>= K) = K (b.drop lo) := by
  unfold sliceFrom
  rw [if_pos h]; rfl

/-! ### the header byte: Go `byte` arithmetic against `Nat` arithmetic -/

/-- the range check -/
theorem hdr_range (x : UInt8) : (x < 27 ∨ x > 34) ↔ (x.toNat < 27 ∨ x.toNat > 34) := by
  simp only [UInt8.lt_iff_toNat_lt, gt_iff_lt]
  exact Iff.rfl

theorem hdr_sub (x : UInt8) (h : ¬ (x.toNat < 27 ∨ x.toNat > 34)) :
    (x - 27).toNat = x.toNat - 27 :=
  UInt8.toNat_sub_of_le x 27 (UInt8.le_iff_toNat_le.mpr (by
    show 27 ≤ x.toNat
    omega))

/-- `wasCompressed` -/
theorem hdr_flag (x : UInt8) (h : ¬ (x.toNat < 27 ∨ x.toNat > 34)) :
    (((x - 27) &&& 4) != 0) = decide ((x.toNat - 27) &&& 4 ≠ 0) := by
  rw [← hdr_sub x h, Bool.eq_iff_iff]
  simp only [bne_iff_ne, ne_eq, decide_eq_true_eq, ← UInt8.toNat_inj, UInt8.toNat_and]
  exact Iff.rfl

/-- `pubKeyRecoveryCode` -/
theorem hdr_code (x : UInt8) (h : ¬ (x.toNat < 27 ∨ x.toNat > 34)) :
    ((x - 27) &&& 3).toNat = (x.toNat - 27) &&& 3 := by
  rw [← hdr_sub x h, UInt8.toNat_and]; rfl

/-! ### the peeling tactic -/

/-- side conditions of index / slice operations, from the collected guards -/
macro "len_side" : tactic =>
  `(tactic| ((try simp only [decide_eq_true_eq, bne_iff_ne, beq_iff_eq, ne_eq, gt_iff_lt, ge_iff_le,
      Decidable.not_not, Nat.not_lt, Nat.not_le] at *); omega))

/-- equivalence of the two spellings of one condition -/
macro "cond_iff'" : tactic =>
  `(tactic| first
    | exact Iff.rfl
    | (simp only [Bool.or_eq_true, decide_eq_true_eq]; exact hdr_range _)
    -- any other Boolean combination of `UInt8` comparisons against `Nat` comparisons
    | (simp only [Bool.or_eq_true, Bool.and_eq_true, Bool.not_eq_true', decide_eq_true_eq,
        decide_eq_false_iff_not, bne_iff_ne, beq_iff_eq, ne_eq, gt_iff_lt, ge_iff_le,
        UInt8.lt_iff_toNat_lt, UInt8.le_iff_toNat_le, ← UInt8.toNat_inj, UInt8.toNat_ofNat]; omega)
    | (simp only [fieldSetBytes32, decide_eq_true_eq, bne_iff_ne, beq_iff_eq, ne_eq, gt_iff_lt,
        ge_iff_le]; done)
    | (simp; done))

/-- the error values of one check agree (they may mention `wasCompressed`) -/
macro "err_eq" : tactic =>
  `(tactic| first
    | (intro _; rfl)
    | (intro _; simp only [ofExcept_error, ofExcept_ok, hdr_flag _ ‹_›, hdr_code _ ‹_›]; done))

/-- peel one statement from both sides -/
macro "peel_sig" : tactic =>
  `(tactic| first
    -- `return …`
    | rfl
    | (simp only [ofExcept_error, ofExcept_ok, Outcome.pure_eq, hdr_flag _ ‹_›, hdr_code _ ‹_›]; done)
    -- `if c then err … else …`
    | (refine ite_ofExcept (by cond_iff') (by err_eq) ?_; intro _)
    -- `let t ← b[0]`, `b[lo:hi]`, `b[lo:]`
    | (rw [idx_zero_bind _ (by len_side)])
    | (rw [slice_bind _ _ _ (by len_side)];
       try simp (disch := len_side) only [List.drop_zero, List.take_of_length_le])
    | (rw [sliceFrom_bind _ _ (by len_side)])
    -- `let (r, overflow) := …`
    | (refine pair_ofExcept _ _ rfl ?_; intro _ _ _)
    -- `let (r, overflow) := fieldSetBytes32 …` (the model has the two components inline)
    | (simp only [fieldSetBytes32, List.drop_zero]))

/-- the regenerated compact-signature parser never panics and is the hand-written model -/
theorem parseCompact_gen_eq_model (sig : Secp.Spec.Bytes) :
    Secp.Gen.BytesProg.parseCompact sig = ofExcept (Secp.Model.parseCompactM sig) := by
  unfold Secp.Gen.BytesProg.parseCompact Secp.Model.parseCompactM
  dsimp only
  repeat peel_sig

/-- the regenerated Schnorr signature parser never panics and is the hand-written model -/
theorem schnorrParse_gen_eq_model (sig : Secp.Spec.Bytes) :
    Secp.Gen.BytesProg.schnorrParse sig = ofExcept (Secp.Model.schnorrParse sig) := by
  unfold Secp.Gen.BytesProg.schnorrParse Secp.Model.schnorrParse
  dsimp only
  repeat peel_sig

end Secp.Proofs.BytesProgSig
