import Secp.Gen.Drivers
import Secp.Model.Nonce
import Mathlib.Tactic.SplitIfs
/-
  Proofs/DriversNonce — the regenerated value-level `NonceRFC6979` (Gen/Drivers.lean:
  nonceRFC6979_loop, nonceRFC6979) equals the hand-written model of Model/Nonce.lean.
-/
namespace Secp.Proofs.DriversNonce
open Secp.Spec Secp.Model

local notation "G.nonceRFC6979_loop" => Secp.Gen.Drivers.nonceRFC6979_loop
local notation "G.nonceRFC6979" => Secp.Gen.Drivers.nonceRFC6979

/-! ### the generation loop -/

theorem nonce_loop_regenerated (privKey hash extra version : Bytes) (extraIterations : Nat)
    (keyBuf : Bytes) (offset n1 n2 : Nat) (key v k : Bytes) (hasher : HmacObj)
    (s7 s8 s9 s10 : Bytes) (generated fuel : Nat) (hg : generated + fuel < 2 ^ 32) :
    G.nonceRFC6979_loop privKey hash extra version extraIterations keyBuf offset n1 n2 key v k
        hasher s7 s8 s9 s10 generated fuel
      = (match nonceLoop fuel hasher v generated extraIterations with
          | some x => DR.ok x | none => DR.fuel) := by
  induction fuel generalizing v k hasher generated with
  | zero => rfl
  | succ fuel ih =>
    unfold Secp.Gen.Drivers.nonceRFC6979_loop nonceLoop
    simp only [Secp.Gen.Drivers.pv_singleZero]
    have hm : (generated + 1) % 4294967296 = generated + 1 := Nat.mod_eq_of_lt (by omega)
    rw [hm]
    by_cases hok : ((!(scalarSetByteSlice (((hasher.reset).write v).sum).1).2) &&
        (!((scalarSetByteSlice (((hasher.reset).write v).sum).1).1 == 0))) = true
    · have hok' : ((!(scalarSetByteSlice (((hasher.reset).write v).sum).1).2) &&
        ((scalarSetByteSlice (((hasher.reset).write v).sum).1).1 != 0)) = true := hok
      simp only [hok, hok', if_true, Bool.true_and]
      by_cases hgt : generated + 1 > extraIterations
      · simp only [hgt, decide_true, if_true]
      · simp only [hgt, decide_false, if_false, Bool.false_eq_true]
        exact ih _ _ _ _ (by omega)
    · have hok' : ¬ ((!(scalarSetByteSlice (((hasher.reset).write v).sum).1).2) &&
        ((scalarSetByteSlice (((hasher.reset).write v).sum).1).1 != 0)) = true := hok
      simp only [hok, hok', if_false, Bool.false_and, Bool.false_eq_true]
      exact ih _ _ _ _ (by omega)

/-! ### the key buffer -/

/-- Go `copy(kb[off:], src)` into the zero tail of a partly filled buffer -/
theorem copy_zeros (A : Bytes) (m z off : Nat) (src : Bytes) (h : z + src.length ≤ m)
    (hoff : off = A.length + z) :
    min ((A ++ List.replicate m (0 : UInt8)).drop off).length src.length = src.length ∧
    (A ++ List.replicate m (0 : UInt8)).take off ++ src.take src.length ++
        (A ++ List.replicate m (0 : UInt8)).drop (off + src.length)
      = (A ++ List.replicate z 0 ++ src) ++ List.replicate (m - z - src.length) 0 := by
  subst hoff
  refine ⟨?_, ?_⟩
  · simp only [List.length_drop, List.length_append, List.length_replicate]; omega
  · have e1 : (A ++ List.replicate m (0 : UInt8)).take (A.length + z) = A ++ List.replicate z 0 := by
      rw [List.take_append, List.take_of_length_le (by omega)]
      simp only [Nat.add_sub_cancel_left, List.take_replicate]
      congr 2; omega
    have e3 : (A ++ List.replicate m (0 : UInt8)).drop (A.length + z + src.length)
        = List.replicate (m - z - src.length) 0 := by
      rw [List.drop_append, List.drop_of_length_le (by omega)]
      simp only [List.nil_append, List.drop_replicate]
      congr 1; omega
    rw [e1, e3, List.take_length]

theorem trunc32 (b : Bytes) :
    (if decide (b.length > 32) then (b.take 32).drop 0 else b) = b.take 32 := by
  by_cases h : b.length > 32
  · simp only [h, decide_true, if_true, List.drop_zero]
  · simp only [h, decide_false, if_false, Bool.false_eq_true]
    rw [List.take_of_length_le (by omega)]

/-- the statements of the generated `NonceRFC6979` that follow the assembly of `key` -/
def nonceTail (privKey hash extra version : Bytes) (extraIterations : Nat) (keyBuf : Bytes)
    (offset n1 n2 : Nat) (key : Bytes) : DR Unit Nat :=
  let v := Secp.Gen.Drivers.pv_oneInitializer
  let k := ((Secp.Gen.Drivers.pv_zeroInitializer.take 32).drop 0)
  let t6 := hmacNew k
  let t6 := t6.write Secp.Gen.Drivers.pv_oneInitializer
  let t6 := t6.write Secp.Gen.Drivers.pv_singleZero
  let t6 := t6.write key
  let (sum7, t6) := t6.sum
  let k := sum7
  let t6 := t6.resetKey k
  let t6 := t6.write v
  let (sum8, t6) := t6.sum
  let v := sum8
  let t6 := t6.reset
  let t6 := t6.write v
  let t6 := t6.write Secp.Gen.Drivers.pv_singleOne
  let t6 := t6.write key
  let (sum9, t6) := t6.sum
  let k := sum9
  let t6 := t6.resetKey k
  let t6 := t6.write v
  let (sum10, t6) := t6.sum
  let v := sum10
  let generated := 0
  G.nonceRFC6979_loop privKey hash extra version extraIterations keyBuf offset n1 n2 key v k t6
    sum7 sum8 sum9 sum10 generated (256)

theorem nonce_keybuf (privKey hash extra version : Bytes) (extraIterations : Nat) :
    ∃ (keyBuf : Bytes) (offset n1 n2 : Nat),
      G.nonceRFC6979 privKey hash extra version extraIterations =
        nonceTail (privKey.take 32) (hash.take 32) extra version extraIterations keyBuf offset n1 n2
          (nonceKeyBuf privKey hash extra version) := by
  unfold Secp.Gen.Drivers.nonceRFC6979
  rw [trunc32 privKey, trunc32 hash]
  unfold nonceKeyBuf
  generalize hp : privKey.take 32 = p
  generalize hh : hash.take 32 = h
  have hpl : p.length ≤ 32 := by rw [← hp, List.length_take]; exact Nat.min_le_left _ _
  have hhl : h.length ≤ 32 := by rw [← hh, List.length_take]; exact Nat.min_le_left _ _
  extract_lets keyBuf p' h' off1 n1 kb1 off2 off3 n2 kb2 off4 n3 kb3 off5 n4 kb4 off6 off7 n5 kb5 off8
    v k t6a t6b t6c gen buf
  have hnp : ¬ (32 < p'.length) := by show ¬ 32 < p.length; omega
  have hnh : ¬ (32 < h'.length) := by show ¬ 32 < h.length; omega
  -- first copy: privKey
  have c1 := copy_zeros [] 112 (32 - p.length) (32 - p.length) p (by omega) (by simp)
  simp only [List.nil_append] at c1
  have e_n1 : n1 = p.length := c1.1
  have e_kb1 : kb1 = (zeros (32 - p.length) ++ p) ++ List.replicate 80 0 := by
    show List.take off1 keyBuf ++ List.take n1 p ++ List.drop (off1 + n1) keyBuf = _
    rw [e_n1]
    refine c1.2.trans ?_
    rw [show 112 - (32 - p.length) - p.length = 80 by omega]; rfl
  have e_off2 : off2 = 32 := by
    show off1 + n1 = 32
    rw [e_n1]; show 32 - p.length + p.length = 32; omega
  have l1 : (zeros (32 - p.length) ++ p).length = 32 := by simp [zeros]; omega
  -- second copy: hash
  have c2 := copy_zeros (zeros (32 - p.length) ++ p) 80 (32 - h.length) (32 + (32 - h.length)) h
    (by omega) (by rw [l1])
  have e_off3 : off3 = 32 + (32 - h.length) := by
    show off2 + (32 - h.length) = _; rw [e_off2]
  have e_n2 : n2 = h.length := by
    show min (List.drop off3 kb1).length h.length = _
    rw [e_off3, e_kb1]; exact c2.1
  have e_kb2 : kb2 = buf ++ List.replicate 48 0 := by
    show List.take off3 kb1 ++ List.take n2 h ++ List.drop (off3 + n2) kb1 = _
    rw [e_n2, e_off3, e_kb1]
    refine c2.2.trans ?_
    rw [show 80 - (32 - h.length) - h.length = 48 by omega]; rfl
  have e_off4 : off4 = 64 := by
    show off3 + n2 = 64
    rw [e_off3, e_n2]; omega
  have l2 : buf.length = 64 := by
    show (zeros (32 - p.length) ++ p ++ zeros (32 - h.length) ++ h).length = 64
    simp [zeros]; omega
  have tk : ∀ (B : Bytes) (n k : Nat), k = B.length →
      List.drop 0 (List.take k (B ++ List.replicate n (0 : UInt8))) = B := by
    intro B n k hk; subst hk; simp
  simp only [hnp, hnh, decide_false, Bool.false_eq_true, if_false]
  by_cases he : extra.length = 32 <;> by_cases hv : version.length = 16
  · have c3 := copy_zeros buf 48 0 64 extra (by omega) (by omega)
    have e_n3 : n3 = 32 := by
      show min (List.drop off4 kb2).length extra.length = _
      rw [e_off4, e_kb2, c3.1, he]
    have e_kb3 : kb3 = (buf ++ extra) ++ List.replicate 16 0 := by
      show List.take off4 kb2 ++ List.take n3 extra ++ List.drop (off4 + n3) kb2 = _
      rw [e_n3, e_off4, e_kb2]
      have := c3.2
      rw [he] at this
      simpa using this
    have e_off5 : off5 = 96 := by show off4 + n3 = 96; rw [e_off4, e_n3]
    have c4 := copy_zeros (buf ++ extra) 16 0 96 version (by omega) (by simp; omega)
    have e_n4 : n4 = 16 := by
      show min (List.drop off5 kb3).length version.length = _
      rw [e_off5, e_kb3, c4.1, hv]
    have e_kb4 : kb4 = (buf ++ extra ++ version) ++ List.replicate 0 0 := by
      show List.take off5 kb3 ++ List.take n4 version ++ List.drop (off5 + n4) kb3 = _
      rw [e_n4, e_off5, e_kb3]
      have := c4.2
      rw [hv] at this
      simpa using this
    have e_off6 : off6 = 112 := by show off5 + n4 = 112; rw [e_off5, e_n4]
    have ekey : List.drop 0 (List.take off6 kb4) = buf ++ extra ++ version := by
      rw [e_off6, e_kb4]; exact tk _ _ _ (by simp; omega)
    simp only [he, hv, beq_self_eq_true, if_true]
    rw [ekey]
    exact ⟨_, _, _, _, rfl⟩
  · have c3 := copy_zeros buf 48 0 64 extra (by omega) (by omega)
    have e_n3 : n3 = 32 := by
      show min (List.drop off4 kb2).length extra.length = _
      rw [e_off4, e_kb2, c3.1, he]
    have e_kb3 : kb3 = (buf ++ extra) ++ List.replicate 16 0 := by
      show List.take off4 kb2 ++ List.take n3 extra ++ List.drop (off4 + n3) kb2 = _
      rw [e_n3, e_off4, e_kb2]
      have := c3.2
      rw [he] at this
      simpa using this
    have e_off5 : off5 = 96 := by show off4 + n3 = 96; rw [e_off4, e_n3]
    have ekey : List.drop 0 (List.take off5 kb3) = buf ++ extra := by
      rw [e_off5, e_kb3]; exact tk _ _ _ (by simp; omega)
    simp only [he, hv, beq_self_eq_true, beq_iff_eq, if_true, if_false]
    rw [ekey]
    exact ⟨_, _, _, _, rfl⟩
  · have e_off7 : off7 = 96 := by show off4 + 32 = 96; rw [e_off4]
    have c5 := copy_zeros buf 48 32 96 version (by omega) (by omega)
    have e_n5 : n5 = 16 := by
      show min (List.drop off7 kb2).length version.length = _
      rw [e_off7, e_kb2, c5.1, hv]
    have e_kb5 : kb5 = (buf ++ zeros 32 ++ version) ++ List.replicate 0 0 := by
      show List.take off7 kb2 ++ List.take n5 version ++ List.drop (off7 + n5) kb2 = _
      rw [e_n5, e_off7, e_kb2]
      have := c5.2
      rw [hv] at this
      simpa [zeros] using this
    have e_off8 : off8 = 112 := by show off7 + n5 = 112; rw [e_off7, e_n5]
    have ekey : List.drop 0 (List.take off8 kb5) = buf ++ zeros 32 ++ version := by
      rw [e_off8, e_kb5]; exact tk _ _ _ (by simp [zeros]; omega)
    simp only [he, hv, beq_self_eq_true, beq_iff_eq, if_true, if_false]
    rw [ekey]
    exact ⟨_, _, _, _, rfl⟩
  · have ekey : List.drop 0 (List.take off4 kb2) = buf := by
      rw [e_off4, e_kb2]; exact tk _ _ _ l2.symm
    simp only [he, hv, beq_iff_eq, if_false]
    rw [ekey]
    exact ⟨_, _, _, _, rfl⟩

/-! ### NonceRFC6979 -/

theorem nonceRFC6979_regenerated (privKey hash extra version : Bytes) (extraIterations : Nat) :
    G.nonceRFC6979 privKey hash extra version extraIterations =
      (match nonceM 256 privKey hash extra version extraIterations with
        | some x => DR.ok x | none => DR.fuel) := by
  obtain ⟨kb, off, n1, n2, e⟩ := nonce_keybuf privKey hash extra version extraIterations
  rw [e]
  unfold nonceTail nonceM
  have hk : List.drop 0 (List.take 32 Secp.Gen.Drivers.pv_zeroInitializer) = zeros 32 := rfl
  simp only [hk, Secp.Gen.Drivers.pv_oneInitializer, Secp.Gen.Drivers.pv_singleZero,
    Secp.Gen.Drivers.pv_singleOne]
  exact nonce_loop_regenerated _ _ _ _ _ _ _ _ _ _ _ _ _ _ _ _ _ _ _ (by decide)

/-- neither `int`-subtraction guard of the translation fires -/
theorem nonceRFC6979_ne_undef (privKey hash extra version : Bytes) (extraIterations : Nat) :
    G.nonceRFC6979 privKey hash extra version extraIterations ≠ DR.undef := by
  rw [nonceRFC6979_regenerated]
  cases nonceM 256 privKey hash extra version extraIterations <;> simp

end Secp.Proofs.DriversNonce
#print axioms Secp.Proofs.DriversNonce.nonce_loop_regenerated
#print axioms Secp.Proofs.DriversNonce.nonce_keybuf
#print axioms Secp.Proofs.DriversNonce.nonceRFC6979_regenerated
