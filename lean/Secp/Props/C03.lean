import Secp.Proofs.ScalarMultSpec
import Secp.Proofs.Cyclic
import Secp.Props.C04
import Secp.Proofs.Slices
/-
  Props/C03 — scalar multiplication equals repeated group addition for every scalar and point.

  Model: `Secp.Model.scalarMultNC`, `scalarBaseMultNC`, `naf`, `splitK` (hand-written mirrors of the
  loops in curve.go; every point operation is a REGENERATED formula program, the endomorphism
  constants come from `Gen.Consts`, the 32×256 base-point table from `Gen.Table`, all regenerated from
  /repo on every run).  `smul k P` is double-and-add over the affine law, which
  `Secp.Proofs.SpecGroup.toE_smul` proves to be `k • P` in Mathlib's curve group.
-/
namespace Secp.Props.C03
open Secp.Spec Secp.Model Secp.Proofs.ScalarMultSpec

/-- NAF digits: pos − neg = k, equal lengths, never both set -/
theorem naf_spec (k : Bytes) : let n := naf k
    n.posBytes.length = n.negBytes.length ∧ beNat n.posBytes = beNat k + beNat n.negBytes ∧
    ∀ i, (n.posBytes.getD i 0) &&& (n.negBytes.getD i 0) = 0 :=
  Secp.Proofs.ScalarMultSpec.naf_spec k

/-- the endomorphism split: k1 + k2·λ ≡ k (mod N) -/
theorem splitK_spec (k : Nat) : let (k1, k2) := splitK k
    k1 < N ∧ k2 < N ∧ (k1 + k2 * ((N - endoNegLambda) % N)) % N = k % N :=
  Secp.Proofs.ScalarMultSpec.splitK_spec k

/-- (β·x, y) = λ•(x, y) for every point of the group -/
theorem endo_spec (m x y : Nat) (h : smul m G = some (x, y)) :
    smul ((N - endoNegLambda) % N) (some (x, y)) = some (fmul x endoBeta, y) :=
  Secp.Proofs.ScalarMultSpec.endo_spec m x y h

/-- ALL 8192 entries of the embedded table (checked in the kernel, row by row): entry (i, j) is
    (j·256^(31−i))•G, with (0,0,1) for the identity -/
theorem table_spec (i j : Nat) (hi : i < 32) (hj : j < 256) :
    Jac.WF (tablePoint i j) ∧ Jac.toPt (tablePoint i j) = smul (j * 256 ^ (31 - i)) G :=
  Secp.Proofs.ScalarMultTable.table_spec i j hi hj

/-- base-point multiplication returns k•G for every scalar in [0, N) -/
theorem scalarBaseMult_spec (k : Nat) (hk : k < N) :
    Jac.WF (scalarBaseMultNC k) ∧ Jac.toPt (scalarBaseMultNC k) = smul k G :=
  Secp.Proofs.ScalarMultSpec.scalarBaseMult_spec (pointOps'_of_pointOps Secp.Props.C04.pointOps) k hk

/-- variable-point multiplication returns k•P for every scalar in [0, N) and EVERY point of the curve
    (the group is cyclic of prime order N: `Secp.Proofs.Cyclic.card_E`) -/
theorem scalarMult_spec (k x y : Nat) (hk : k < N) (hxy : OnCurve x y) :
    Jac.WF (scalarMultNC k (x, y, 1)) ∧ Jac.toPt (scalarMultNC k (x, y, 1)) = smul k (some (x, y)) := by
  obtain ⟨m, hm⟩ := Secp.Proofs.Cyclic.cyclic x y hxy
  exact Secp.Proofs.ScalarMultSpec.scalarMult_spec (pointOps'_of_pointOps Secp.Props.C04.pointOps) k x y m hk hxy hm

/-- the group of the curve has exactly N elements -/
theorem card_E : Nat.card Secp.Proofs.SpecGroup.E.Point = N := Secp.Proofs.Cyclic.card_E

/-- `smul` IS scalar multiplication in Mathlib's group -/
theorem smul_is_nsmul (k : Nat) (p : Pt) (hp : Secp.Proofs.SpecGroup.Valid p) :
    Secp.Proofs.SpecGroup.toE (smul k p) = k • Secp.Proofs.SpecGroup.toE p :=
  Secp.Proofs.SpecGroup.toE_smul k hp

/-- the public key of private key d is exactly d•G, in affine form -/
theorem pubKey_spec (d x y : Nat) (hd : d < N) (h : smul d G = some (x, y)) :
    toAffineJ (scalarBaseMultNC d) = (x, y, 1) := by
  obtain ⟨hw, ht⟩ := scalarBaseMult_spec d hd
  exact Secp.Props.C04.toAffine_spec _ x y hw (ht.trans h)

/-- THE LAYER CONTRACT, UNCONDITIONALLY: everything the protocol-level properties assume about point
    arithmetic -/
theorem pointSpec : PointSpec where
  sbmul := scalarBaseMult_spec
  smulA := fun k x y hk hxy => scalarMult_spec k x y hk hxy
  add3 := Secp.Props.C04.pointOps.add3
  toAffine := Secp.Props.C04.pointOps.toAffine
  decompress := Secp.Props.C04.pointOps.decompress


/-- Limb level of this property's own functions: the REGENERATED sliced field programs (tools/gotr pass T2s,
    `Secp.Gen.Slices`) of the prelude (±P, ±φ(P)) and loops of ScalarMultNonConst, the table walk of ScalarBaseMultNonConst, PubKey pass the abstract interpreter on every path — no magnitude overflow, every
    comparison / parity test / serialisation reads a normalised value, every callee's precondition holds,
    every returned key or point is normalised.  Together with C05 (kernels) and C16 (`absPath_sound`,
    `contracts_justified`) this is what makes the value-level model above faithful to the limb code. -/
theorem scalar_mult_field_arithmetic_exact :
    Secp.Proofs.Slices.entriesOK ["github.com/ModChain/secp256k1.ScalarMultNonConst", "github.com/ModChain/secp256k1.ScalarBaseMultNonConst", "github.com/ModChain/secp256k1.PrivateKey.PubKey"] = true := by decide +kernel

end Secp.Props.C03
