import Secp.Gen.Drivers
import Secp.Model.Bip32
import Secp.Proofs.PubKey
import Secp.Proofs.Chains
import Secp.Proofs.Adaptor
import Secp.Proofs.Bip32Bytes
import Secp.Proofs.DriversSchnorr
import Mathlib.Tactic.SplitIfs
/-
  Proofs/DriversChild — the regenerated value-level drivers of ecckd/extended.go
  (Gen/Drivers.lean: isEvenGen, serializeCompressedEcdsa, pubKeyBytes, childWithILGen) equal the
  hand-written models of Model/Bip32.lean.
-/
namespace Secp.Proofs.DriversChild
open Secp.Spec Secp.Model Secp.FOp Secp.Proofs.Chains Secp.Gen.FormulasC

/-- an extended key as the tuple the translator uses for `ExtendedKey` -/
def tup (e : ExtKey) : Bytes × Nat × Bytes × Nat × Bytes × Bytes × Unit :=
  (e.version, e.depth, e.fingerprint, e.childNumber, e.keyData, e.chainCode, ())

/-! ### isEven -/

theorem isEven_regenerated (n : Nat) : Secp.Gen.Drivers.isEvenGen n = decide (n % 2 = 0) := by
  unfold Secp.Gen.Drivers.isEvenGen
  simp only [Nat.and_one_is_mod]
  by_cases h : n % 2 = 0 <;> simp [h]

/-! ### serializeCompressedEcdsa -/

theorem serializeCompressedEcdsa_regenerated (x y : Nat) :
    Secp.Gen.Drivers.serializeCompressedEcdsa ((), x, y) = serCompressedXY (x, y) := by
  unfold Secp.Gen.Drivers.serializeCompressedEcdsa serCompressedXY
  have hl : (beBytes 32 x).length = 32 := Secp.Proofs.Der.beBytes_length 32 x
  simp only [isEven_regenerated]
  by_cases h : y % 2 = 0
  · simp [h, hl, List.replicate_succ, List.take_of_length_le]
  · simp [h, hl, List.replicate_succ, List.take_of_length_le]

/-! ### ExtendedKey.pubKeyBytes -/

theorem pubKeyBytes_regenerated
    (hBase : ∀ k : Bytes, Secp.Gen.Drivers.adaptorScalarBaseMultGen k = adaptorBaseMult k)
    (e : ExtKey) : Secp.Gen.Drivers.pubKeyBytes (tup e) = e.pubKeyBytes := by
  unfold Secp.Gen.Drivers.pubKeyBytes ExtKey.pubKeyBytes ExtKey.isPrivate tup
  simp only [hBase]
  split
  · rfl
  · generalize adaptorBaseMult e.keyData = p
    obtain ⟨x, y⟩ := p
    exact serializeCompressedEcdsa_regenerated x y

/-! ### ToAffine normalises Y as well -/

theorem toAffineJ_snd_lt (q : Jac) : (toAffineJ q).2.1 < P := by
  obtain ⟨X, Y, Z⟩ := q
  obtain ⟨callF, hrun⟩ := runNamed_eq "ToAffine" 8 ToAffine [X, Y, Z] [] (by decide) rfl
  have hops : opsOnly tChain = true := by decide +kernel
  generalize hr1 : runOps tChain ([X, Y, Z] ++ List.replicate 13 0) = r1
  have hlen : r1.length = 16 := by rw [← hr1, length_runOps]; rfl
  have hP : 0 < P := by decide +kernel
  unfold toAffineJ
  simp only []
  rw [hrun, show ToAffine.paths = [ToAffine_p0] from rfl]
  simp only [List.findSome?_cons, List.findSome?_nil]
  rw [show ToAffine.nreg - [X, Y, Z].length = 13 from rfl, toAffine_items]
  simp only [exec_append, exec_opsOnly _ _ hops, hr1, Option.bind_some]
  simp [execPathWith, stepF, rget_rset, length_rset, hlen]
  exact Nat.mod_lt _ hP

/-! ### Go `copy` -/

theorem copyAt_eq_gen (dst src : Bytes) (off : Nat) :
    dst.take off ++ src.take (min (dst.drop off).length src.length) ++
      dst.drop (off + min (dst.drop off).length src.length) = copyAt dst off src := by
  unfold copyAt
  rw [List.length_drop]
  congr 1
  · congr 1
    by_cases h : dst.length - off ≤ src.length
    · rw [Nat.min_eq_left h]
    · rw [Nat.min_eq_right (by omega), List.take_of_length_le (by omega), List.take_of_length_le (by omega)]
  · by_cases h : off ≤ dst.length
    · congr 1; omega
    · rw [List.drop_of_length_le (by omega), List.drop_of_length_le (by omega)]

theorem copyAt_length (dst src : Bytes) (off : Nat) (h : off ≤ dst.length) :
    (copyAt dst off src).length = dst.length := by
  unfold copyAt
  simp only [List.length_append, List.length_take, List.length_drop]
  omega

theorem hardened_test (i : Nat) (hi : i < 2 ^ 32) :
    ((i &&& 2147483648) == 2147483648) = decide (i ≥ 0x80000000) := by
  have h1 : (i &&& 2147483648) / 2 ^ 31 = i / 2 ^ 31 % 2 := by
    rw [Nat.and_div_two_pow, show 2147483648 / 2 ^ 31 = 1 from rfl, Nat.and_one_is_mod]
  have h2 : (i &&& 2147483648) % 2 ^ 31 = 0 := by
    rw [Nat.and_mod_two_pow, show 2147483648 % 2 ^ 31 = 0 from rfl, Nat.and_zero]
  by_cases h3 : i ≥ 0x80000000
  · have : i &&& 2147483648 = 2147483648 := by omega
    simp [this, h3]
  · have : i &&& 2147483648 ≠ 2147483648 := by omega
    simp [this, h3]

/-- Go `copy(fp[:], h)` into a zeroed `[4]byte`: the first four bytes of `h`, zero-padded on the right
    when `h` is shorter than four bytes -/
def copyFp (h : Bytes) : Bytes := copyAt (List.replicate 4 0) 0 h

theorem copyFp_eq (h : Bytes) : copyFp h = h.take 4 ++ List.replicate (4 - h.length) 0 := by
  unfold copyFp copyAt
  simp only [List.take_zero, List.nil_append, List.length_replicate, Nat.sub_zero, Nat.zero_add,
    List.drop_replicate]
  congr 2
  omega

theorem copyFp_eq_take_iff (h : Bytes) : copyFp h = h.take 4 ↔ 4 ≤ h.length := by
  rw [copyFp_eq]
  constructor
  · intro hh
    have := congrArg List.length hh
    simp only [List.length_append, List.length_take, List.length_replicate] at this
    omega
  · intro hl
    rw [show 4 - h.length = 0 by omega]; simp

theorem adaptorAdd_lt (p q : Nat × Nat) (hp1 : p.1 < P) (hp2 : p.2 < P) (hq1 : q.1 < P) (hq2 : q.2 < P) :
    (adaptorAdd p q).1 < P ∧ (adaptorAdd p q).2 < P := by
  unfold adaptorAdd
  split_ifs
  · exact ⟨hq1, hq2⟩
  · exact ⟨hp1, hp2⟩
  · simp only []
    exact ⟨Secp.Proofs.DriversSchnorr.toAffineJ_fst_lt _, toAffineJ_snd_lt _⟩

theorem adaptorBaseMult_lt (k : Bytes) : (adaptorBaseMult k).1 < P ∧ (adaptorBaseMult k).2 < P := by
  unfold adaptorBaseMult
  simp only []
  exact ⟨Secp.Proofs.DriversSchnorr.toAffineJ_fst_lt _, toAffineJ_snd_lt _⟩

theorem copyAt_eq_gen0 (dst src : Bytes) :
    dst.take 0 ++ src.take (min dst.length src.length) ++ dst.drop (0 + min dst.length src.length) =
      copyAt dst 0 src := by
  have := copyAt_eq_gen dst src 0
  simpa using this

theorem seed33 (c : Prop) [Decidable c] (A B s : Bytes) (hs : s.length = 4) :
    (if c then copyAt (List.replicate (33 + 4) (0 : UInt8)) 1 A
        else copyAt (List.replicate (33 + 4) (0 : UInt8)) 0 B).take 33 ++ s.take 4 ++
      (if c then copyAt (List.replicate (33 + 4) (0 : UInt8)) 1 A
        else copyAt (List.replicate (33 + 4) (0 : UInt8)) 0 B).drop (33 + 4) =
    copyAt (if c then copyAt (List.replicate 37 (0 : UInt8)) 1 A
        else copyAt (List.replicate 37 (0 : UInt8)) 0 B) 33 s := by
  show _ = copyAt (if c then copyAt (List.replicate (33 + 4) (0 : UInt8)) 1 A
        else copyAt (List.replicate (33 + 4) (0 : UInt8)) 0 B) 33 s
  generalize hD : (if c then copyAt (List.replicate (33 + 4) (0 : UInt8)) 1 A
        else copyAt (List.replicate (33 + 4) (0 : UInt8)) 0 B) = D
  have hl : D.length = 37 := by
    rw [← hD]; split <;> rw [copyAt_length _ _ _ (by simp)] <;> simp
  unfold copyAt
  rw [hl, hs]
  rfl

/-- what `ChildWithIL` does with the two narrow fields: `Depth` is a `uint8`, `Fingerprint` a `[4]byte` -/
def narrow (O : Oracles) (e c : ExtKey) : ExtKey :=
  { c with depth := (e.depth + 1) % 256, fingerprint := copyFp (O.hash160 e.pubKeyBytes) }

/-- the unconditional form: only `i < 2^32` (the Go parameter is a `uint32`) is assumed; the parent key,
    the chain code and the oracle answers are arbitrary -/
theorem childWithIL_regenerated_raw
    (hBase : ∀ k : Bytes, Secp.Gen.Drivers.adaptorScalarBaseMultGen k = adaptorBaseMult k)
    (hAdd : ∀ x1 y1 x2 y2 : Nat, x1 < P → y1 < P → x2 < P → y2 < P →
      Secp.Gen.Drivers.adaptorAddGen x1 y1 x2 y2 = adaptorAdd (x1, y1) (x2, y2))
    (hX : ∀ p : Nat × Nat, p.1 < 2^256 → Secp.Gen.Drivers.pubKeyX p = p.1)
    (hY : ∀ p : Nat × Nat, p.2 < 2^256 → Secp.Gen.Drivers.pubKeyY p = p.2)
    (O : Oracles) (e : ExtKey) (i : Nat) (hi : i < 2^32) :
    Secp.Gen.Drivers.childWithILGen O (tup e) i =
      (match childWithIL O e i with
       | .ok (il, c) => DR.ok (il, tup (narrow O e c))
       | .error err => DR.err err) := by
  unfold Secp.Gen.Drivers.childWithILGen childWithIL
  rw [pubKeyBytes_regenerated hBase]
  simp only [tup, hardened_test i hi, copyAt_eq_gen, copyAt_eq_gen0, ExtKey.isPrivate, narrow, copyFp,
    decide_eq_true_eq, seed33 _ _ _ _ (Secp.Proofs.Der.beBytes_length 4 i), ser32]
  by_cases hdep : e.depth = 255
  · simp [hdep]
  simp only [hdep, beq_iff_eq, if_false]
  obtain ⟨sk, cc', ok, hr⟩ : ∃ sk cc' ok, hmacCKD O (copyAt (if i ≥ 2147483648 then
      copyAt (List.replicate 37 0) 1 e.keyData else copyAt (List.replicate 37 0) 0 e.pubKeyBytes) 33 (beBytes 4 i))
      e.chainCode = (sk, cc', ok) := ⟨_, _, _, rfl⟩
  simp only [hr]
  by_cases hh : (!versionIsPrivate e.version && decide (i ≥ 2147483648)) = true
  · simp only [hh, if_true]
  simp only [hh, Bool.false_eq_true, if_false]
  rcases Bool.eq_false_or_eq_true ok with hok | hok
  swap
  · simp [hok]
  simp only [hok, Bool.not_true, Bool.false_eq_true, if_false]
  rcases Bool.eq_false_or_eq_true (versionIsPrivate e.version) with hpriv | hpriv
  · simp only [hpriv, if_true]
  simp only [hpriv, Bool.false_eq_true, if_false, hBase]
  obtain ⟨hk1, hk2⟩ := adaptorBaseMult_lt sk
  by_cases hz1 : (adaptorBaseMult sk).1 = 0
  · simp [hz1]
  by_cases hz2 : (adaptorBaseMult sk).2 = 0
  · simp [hz2]
  simp only [hz1, hz2, if_false, or_self, Nat.reduceBEq, Bool.or_self, Bool.false_eq_true]
  cases hpp : parsePubKey e.keyData with
  | panic => exact absurd hpp (Secp.Proofs.PubKey.parsePubKey_no_panic _)
  | err pe => rfl
  | ok pub =>
    obtain ⟨px, py⟩ := pub
    obtain ⟨⟨hpx, hpy, _⟩, _⟩ := Secp.Proofs.PubKey.valid_of_parse _ _ _ hpp
    have hp256 : P < 2 ^ 256 := by decide +kernel
    simp only []
    rw [hX _ (Nat.lt_trans hpx hp256), hY _ (Nat.lt_trans hpy hp256), hAdd _ _ _ _ hk1 hk2 hpx hpy]
    obtain ⟨hc1, hc2⟩ := adaptorAdd_lt (adaptorBaseMult sk) (px, py) hk1 hk2 hpx hpy
    rw [Secp.Proofs.Adaptor.bigToField_of_lt hc1, Secp.Proofs.Adaptor.bigToField_of_lt hc2,
      Secp.Proofs.Bip32.minBytes_take32 (Nat.lt_trans hc1 Secp.Proofs.PubKey.P_lt_pow),
      Secp.Proofs.Bip32.minBytes_take32 (Nat.lt_trans hc2 Secp.Proofs.PubKey.P_lt_pow)]

/-- the fields of a derived child that do not depend on the branch taken -/
theorem childWithIL_ok_fields (O : Oracles) (e : ExtKey) (i il : Nat) (c : ExtKey)
    (h : childWithIL O e i = .ok (il, c)) :
    e.depth ≠ 255 ∧ c.depth = e.depth + 1 ∧ c.fingerprint = (O.hash160 e.pubKeyBytes).take 4 := by
  unfold childWithIL at h
  simp only [] at h
  split_ifs at h
  all_goals try split at h
  all_goals cases h
  all_goals exact ⟨by assumption, rfl, rfl⟩

theorem childWithIL_regenerated
    (hBase : ∀ k : Bytes, Secp.Gen.Drivers.adaptorScalarBaseMultGen k = adaptorBaseMult k)
    (hAdd : ∀ x1 y1 x2 y2 : Nat, x1 < P → y1 < P → x2 < P → y2 < P →
      Secp.Gen.Drivers.adaptorAddGen x1 y1 x2 y2 = adaptorAdd (x1, y1) (x2, y2))
    (hX : ∀ p : Nat × Nat, p.1 < 2^256 → Secp.Gen.Drivers.pubKeyX p = p.1)
    (hY : ∀ p : Nat × Nat, p.2 < 2^256 → Secp.Gen.Drivers.pubKeyY p = p.2)
    (O : Oracles) (e : ExtKey) (i : Nat)
    (hd : e.depth < 256) (hi : i < 2^32)
    (hfp : 4 ≤ (O.hash160 e.pubKeyBytes).length) :
    Secp.Gen.Drivers.childWithILGen O (tup e) i =
      (match childWithIL O e i with
       | .ok (il, c) => DR.ok (il, tup c)
       | .error err => DR.err err) := by
  rw [childWithIL_regenerated_raw hBase hAdd hX hY O e i hi]
  cases hc : childWithIL O e i with
  | error err => rfl
  | ok r =>
    obtain ⟨il, c⟩ := r
    obtain ⟨h1, h2, h3⟩ := childWithIL_ok_fields O e i il c hc
    have hn : narrow O e c = c := by
      unfold narrow
      rw [(copyFp_eq_take_iff _).2 hfp, ← h3, show (e.depth + 1) % 256 = c.depth by omega]
    simp only [hn]

/-- the two side conditions are exactly what is needed: with `i < 2^32`, the regenerated function agrees with the
    model if and only if the model returns an error or (`Depth` fits a `uint8` and the hash160 oracle answers with
    at least four bytes).  No condition on the lengths of `keyData`, `chainCode` or of the HMAC output. -/
theorem childWithIL_regenerated_iff
    (hBase : ∀ k : Bytes, Secp.Gen.Drivers.adaptorScalarBaseMultGen k = adaptorBaseMult k)
    (hAdd : ∀ x1 y1 x2 y2 : Nat, x1 < P → y1 < P → x2 < P → y2 < P →
      Secp.Gen.Drivers.adaptorAddGen x1 y1 x2 y2 = adaptorAdd (x1, y1) (x2, y2))
    (hX : ∀ p : Nat × Nat, p.1 < 2^256 → Secp.Gen.Drivers.pubKeyX p = p.1)
    (hY : ∀ p : Nat × Nat, p.2 < 2^256 → Secp.Gen.Drivers.pubKeyY p = p.2)
    (O : Oracles) (e : ExtKey) (i : Nat) (hi : i < 2^32) :
    (Secp.Gen.Drivers.childWithILGen O (tup e) i =
      (match childWithIL O e i with
       | .ok (il, c) => DR.ok (il, tup c)
       | .error err => DR.err err)) ↔
    ((∃ err, childWithIL O e i = .error err) ∨
      (e.depth < 256 ∧ 4 ≤ (O.hash160 e.pubKeyBytes).length)) := by
  constructor
  · intro h
    rw [childWithIL_regenerated_raw hBase hAdd hX hY O e i hi] at h
    cases hc : childWithIL O e i with
    | error err => exact Or.inl ⟨err, rfl⟩
    | ok r =>
      obtain ⟨il, c⟩ := r
      obtain ⟨h1, h2, h3⟩ := childWithIL_ok_fields O e i il c hc
      rw [hc] at h
      simp only [narrow, tup, DR.ok.injEq, Prod.mk.injEq, true_and] at h
      obtain ⟨hdp, hf, _⟩ := h
      right
      refine ⟨by omega, ?_⟩
      rw [h3] at hf
      exact (copyFp_eq_take_iff _).1 hf
  · rintro (⟨err, herr⟩ | ⟨hd, hfp⟩)
    · rw [childWithIL_regenerated_raw hBase hAdd hX hY O e i hi, herr]
    · exact childWithIL_regenerated hBase hAdd hX hY O e i hd hi hfp

end Secp.Proofs.DriversChild

#print axioms Secp.Proofs.DriversChild.isEven_regenerated
#print axioms Secp.Proofs.DriversChild.serializeCompressedEcdsa_regenerated
#print axioms Secp.Proofs.DriversChild.pubKeyBytes_regenerated
#print axioms Secp.Proofs.DriversChild.toAffineJ_snd_lt
#print axioms Secp.Proofs.DriversChild.childWithIL_regenerated_raw
#print axioms Secp.Proofs.DriversChild.childWithIL_regenerated
#print axioms Secp.Proofs.DriversChild.childWithIL_regenerated_iff
