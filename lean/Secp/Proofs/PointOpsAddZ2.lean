/-
  Proofs/PointOpsAddZ2 — addZ2EqualsOne (madd-2007-bl), plain and result≡p1.
-/
import Secp.Proofs.PointOpsDbl

set_option linter.unusedSimpArgs false
namespace Secp.Proofs.PointOps
open Secp.Spec Secp.Model Secp.FOp Secp.Proofs
open Secp.Gen.FormulasC

theorem addZ2_U_iff {X1 : Nat} (h : X1 < P) (Z1 X2 : Nat) :
    X1 = fmul X2 (fsq Z1) % P ↔ (X1 : F) * ((1 : Nat) : F) ^ 2 = (X2 : F) * (Z1 : F) ^ 2 := by
  rw [← cast_eq_iff_of_lt h (Nat.mod_lt _ P_pos)]; cast_simp
  rw [one_pow, mul_one]

theorem addZ2_S_iff {Y1 : Nat} (h : Y1 < P) (Z1 Y2 : Nat) :
    Y1 = fmul (fmul Y2 (fsq Z1)) Z1 % P ↔ (Y1 : F) * ((1 : Nat) : F) ^ 3 = (Y2 : F) * (Z1 : F) ^ 3 := by
  rw [← cast_eq_iff_of_lt h (Nat.mod_lt _ P_pos)]; cast_simp
  rw [one_pow, mul_one]
  constructor <;> intro h <;> linear_combination h

theorem addZ2EqualsOne_a010_contract (f : Nat) :
    AddContract (fun _ Z2 => Z2 = 1) (RunA (f + 1) 19) (DRunA f) where
  ne := by
    intro X1 Y1 Z1 X2 Y2 Z2 hb1 _ _ _ hpre hne
    subst hpre
    rw [Ne, ← addZ2_U_iff hb1.1] at hne
    refine ⟨?X3, ?Y3, ?Z3, ?run, ⟨?b1, ?b2, ?b3⟩, ?ch⟩
    case run =>
      show callE (f + 1) 19 [X1, Y1, Z1, X2, Y2, 1] = some [_, _, _, X2, Y2, 1]
      rw [callE_succ f 19 _ addZ2EqualsOne_a010 rfl]
      exec_simp [addZ2EqualsOne_a010, addZ2EqualsOne_a010_p0, addZ2EqualsOne_a010_p1, addZ2EqualsOne_a010_p2, hne]
      and_intros <;> rfl
    case b1 => exact Nat.mod_lt _ P_pos
    case b2 => exact Nat.mod_lt _ P_pos
    case b3 => exact Nat.mod_lt _ P_pos
    case ch =>
      convert chordRep_addG (X1 : F) Y1 Z1 X2 Y2 ((1 : Nat) : F) using 1
      all_goals cast_simp
      all_goals simp only [agX, agY, agZ]
      all_goals ring
  eq_ne := by
    intro X1 Y1 Z1 X2 Y2 Z2 hb1 _ _ _ hpre hU hS
    subst hpre
    rw [Ne] at hS
    rw [← addZ2_U_iff hb1.1] at hU
    rw [← addZ2_S_iff hb1.2.1] at hS
    show callE (f + 1) 19 [X1, Y1, Z1, X2, Y2, 1] = some [0, 0, 0, X2, Y2, 1]
    rw [callE_succ f 19 _ addZ2EqualsOne_a010 rfl]
    exec_simp [addZ2EqualsOne_a010, addZ2EqualsOne_a010_p0, addZ2EqualsOne_a010_p1, addZ2EqualsOne_a010_p2, hS, ← hU]
  eq_eq := by
    intro X1 Y1 Z1 X2 Y2 Z2 hb1 _ _ _ hpre hU hS r hr
    subst hpre
    rw [← addZ2_U_iff hb1.1] at hU
    rw [← addZ2_S_iff hb1.2.1] at hS
    obtain ⟨a, b, c⟩ := r
    have hr' : callE f 5 [X1, Y1, Z1] = some [a, b, c] := hr
    show callE (f + 1) 19 [X1, Y1, Z1, X2, Y2, 1] = some [a, b, c, X2, Y2, 1]
    rw [callE_succ f 19 _ addZ2EqualsOne_a010 rfl]
    exec_simp [addZ2EqualsOne_a010, addZ2EqualsOne_a010_p0, addZ2EqualsOne_a010_p1, addZ2EqualsOne_a010_p2, ← hU, ← hS, hr']

theorem addZ2EqualsOne_contract (f : Nat) :
    AddContract (fun _ Z2 => Z2 = 1) (RunP (f + 1) 18) (DRunP f) where
  ne := by
    intro X1 Y1 Z1 X2 Y2 Z2 hb1 _ _ _ hpre hne
    subst hpre
    rw [Ne, ← addZ2_U_iff hb1.1] at hne
    refine ⟨?X3, ?Y3, ?Z3, fun r6 r7 r8 => ?run, ⟨?b1, ?b2, ?b3⟩, ?ch⟩
    case run =>
      show callE (f + 1) 18 [X1, Y1, Z1, X2, Y2, 1, r6, r7, r8] = some [X1, Y1, Z1, X2, Y2, 1, _, _, _]
      rw [callE_succ f 18 _ addZ2EqualsOne rfl]
      exec_simp [addZ2EqualsOne, addZ2EqualsOne_p0, addZ2EqualsOne_p1, addZ2EqualsOne_p2, hne]
      and_intros <;> rfl
    case b1 => exact Nat.mod_lt _ P_pos
    case b2 => exact Nat.mod_lt _ P_pos
    case b3 => exact Nat.mod_lt _ P_pos
    case ch =>
      convert chordRep_addG (X1 : F) Y1 Z1 X2 Y2 ((1 : Nat) : F) using 1
      all_goals cast_simp
      all_goals simp only [agX, agY, agZ]
      all_goals ring
  eq_ne := by
    intro X1 Y1 Z1 X2 Y2 Z2 hb1 _ _ _ hpre hU hS r6 r7 r8
    subst hpre
    rw [Ne] at hS
    rw [← addZ2_U_iff hb1.1] at hU
    rw [← addZ2_S_iff hb1.2.1] at hS
    show callE (f + 1) 18 [X1, Y1, Z1, X2, Y2, 1, r6, r7, r8] = some [X1, Y1, Z1, X2, Y2, 1, 0, 0, 0]
    rw [callE_succ f 18 _ addZ2EqualsOne rfl]
    exec_simp [addZ2EqualsOne, addZ2EqualsOne_p0, addZ2EqualsOne_p1, addZ2EqualsOne_p2, hS, ← hU]
  eq_eq := by
    intro X1 Y1 Z1 X2 Y2 Z2 hb1 _ _ _ hpre hU hS r hr r6 r7 r8
    subst hpre
    rw [← addZ2_U_iff hb1.1] at hU
    rw [← addZ2_S_iff hb1.2.1] at hS
    obtain ⟨a, b, c⟩ := r
    have hr' : callE f 4 [X1, Y1, Z1, r6, r7, r8] = some [X1, Y1, Z1, a, b, c] := hr r6 r7 r8
    show callE (f + 1) 18 [X1, Y1, Z1, X2, Y2, 1, r6, r7, r8] = some [X1, Y1, Z1, X2, Y2, 1, a, b, c]
    rw [callE_succ f 18 _ addZ2EqualsOne rfl]
    exec_simp [addZ2EqualsOne, addZ2EqualsOne_p0, addZ2EqualsOne_p1, addZ2EqualsOne_p2, ← hU, ← hS, hr']

end Secp.Proofs.PointOps
