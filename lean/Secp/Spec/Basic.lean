/-
  Spec/Basic — constants and byte helpers.  Core-only (no Mathlib) so that the
  driver can be compiled.  All numbers are plain `Nat`.
-/
namespace Secp.Spec

/-- field prime  p = 2^256 - 2^32 - 977 -/
def P : Nat := 0xFFFFFFFFFFFFFFFFFFFFFFFFFFFFFFFFFFFFFFFFFFFFFFFFFFFFFFFEFFFFFC2F
/-- group order -/
def N : Nat := 0xFFFFFFFFFFFFFFFFFFFFFFFFFFFFFFFEBAAEDCE6AF48A03BBFD25E8CD0364141
def Gx : Nat := 0x79BE667EF9DCBBAC55A06295CE870B07029BFCDB2DCE28D959F2815B16F81798
def Gy : Nat := 0x483ADA7726A3C4655DA4FBFC0E1108A8FD17B448A68554199C47D08FFB10D4B8
/-- (N-1)/2 : the largest "low" s value -/
def halfN : Nat := (N - 1) / 2

abbrev Bytes := List UInt8

/-- big-endian bytes to natural number -/
def beNat (b : Bytes) : Nat := b.foldl (fun acc x => acc * 256 + x.toNat) 0

/-- `n` as exactly `len` big-endian bytes (value taken mod 256^len) -/
def beBytes : (len : Nat) → Nat → Bytes
  | 0, _ => []
  | len+1, n => beBytes len (n / 256) ++ [UInt8.ofNat (n % 256)]

def be32 (n : Nat) : Bytes := beBytes 32 n

/-- left-pad with zeros to at least `len` bytes -/
def leftPad (len : Nat) (b : Bytes) : Bytes := List.replicate (len - b.length) 0 ++ b

/-- drop leading zero bytes -/
def stripZeros : Bytes → Bytes
  | [] => []
  | x :: xs => if x = 0 then stripZeros xs else x :: xs

/-- minimal big-endian encoding (empty for 0), as `big.Int.Bytes()` -/
def minBytes (n : Nat) : Bytes := stripZeros (beBytes 40 n)

def hexDigit (n : Nat) : Char :=
  if n < 10 then Char.ofNat (48 + n) else Char.ofNat (87 + n)

def toHex (b : Bytes) : String :=
  String.ofList (b.flatMap fun x => [hexDigit (x.toNat / 16), hexDigit (x.toNat % 16)])

def hexVal (c : Char) : Option Nat :=
  if '0' ≤ c ∧ c ≤ '9' then some (c.toNat - 48)
  else if 'a' ≤ c ∧ c ≤ 'f' then some (c.toNat - 87)
  else if 'A' ≤ c ∧ c ≤ 'F' then some (c.toNat - 55)
  else none

def ofHexAux : List Char → Bytes → Option Bytes
  | [], acc => some acc.reverse
  | [_], _ => none
  | a :: b :: rest, acc =>
    match hexVal a, hexVal b with
    | some x, some y => ofHexAux rest (UInt8.ofNat (x * 16 + y) :: acc)
    | _, _ => none

/-- parse a hex string; "-" denotes the empty string -/
def ofHex (s : String) : Option Bytes :=
  if s == "-" then some [] else ofHexAux s.toList []

def hexOrDash (b : Bytes) : String := if b.isEmpty then "-" else toHex b

end Secp.Spec
