#!/usr/bin/env python3
"""run_seeded.py <seeded-dir> <check> [<check>…] : apply seeded/<dir>/patch.diff to /repo, run the given
checks (quick, evidence redirected), revert, and record the outcomes in seeded/<dir>/meta.json."""
import sys, os, subprocess, json, re, time
V = os.path.dirname(os.path.dirname(os.path.abspath(__file__)))
d = os.path.join(V, "seeded", sys.argv[1])
checks = sys.argv[2:]
assert subprocess.run(["git", "-C", "/repo", "status", "--porcelain"], capture_output=True, text=True).stdout.strip() == "", "/repo not clean"
subprocess.run(["git", "-C", "/repo", "apply", os.path.join(d, "patch.diff")], check=True)
res = {}
try:
    for c in checks:
        t = time.time()
        env = dict(os.environ, VERIF_EVIDENCE_DIR=os.path.join(V, ".work", "evidence-seeded"))
        p = subprocess.run([os.path.join(V, "check"), c, "quick"], cwd=V, env=env, capture_output=True, text=True)
        out = p.stdout + p.stderr
        vio = [l for l in out.split("\n") if l.startswith("VIOLATION")]
        failed = [l.strip() for l in out.split("\n") if " FAIL " in l][:4]
        kind = "not detected" if p.returncode == 0 else ("no-failing-input-found" if vio and vio[0].endswith("no-failing-input-found") else "concrete replay")
        res[c] = {"exit": p.returncode, "result": kind, "failed_steps": failed, "wall_s": round(time.time() - t, 1)}
        if vio:
            m = re.search(r"replay=(\S+)", vio[0])
            if m and os.path.exists(m.group(1)):
                r = json.load(open(m.group(1)))
                res[c]["broken"] = r.get("broken", [])[:5]
                if r.get("cases"):
                    res[c]["first_case"] = {k: (v[:300] if isinstance(v, str) else v) for k, v in r["cases"][0].items()}
        print(c, kind, failed[:2])
finally:
    subprocess.run(["git", "-C", "/repo", "checkout", "--", "."], check=True)
mp = os.path.join(d, "meta.json")
meta = json.load(open(mp)) if os.path.exists(mp) else {}
meta.setdefault("checks", {}).update(res)
json.dump(meta, open(mp, "w"), indent=1)
