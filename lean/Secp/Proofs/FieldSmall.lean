import Secp.Gen.FieldIR
import Secp.Core.Limbs
import Secp.Proofs.IRHelpers
import Secp.Proofs.IRRun
/-
  Proofs/FieldSmall — the small field kernels (everything except Mul2 / SquareVal / Normalize):
  direct evaluation of the Go semantics `Kernel.runW` of the generated kernels.
-/
namespace Secp.Proofs.FieldSmall
open Secp.Spec Secp.IR Secp.Gen Secp.Limbs Secp.Proofs.IRHelpers Secp.Proofs.IRRun

/-! ### trivial kernels -/

theorem set_spec (f a : L10) : Field_Set.runW (f.toList ++ a.toList) = a.toList := by
  obtain ⟨f0, f1, f2, f3, f4, f5, f6, f7, f8, f9⟩ := f
  obtain ⟨a0, a1, a2, a3, a4, a5, a6, a7, a8, a9⟩ := a
  simp only [L10.toList]
  unfold_run Field_Set

theorem setInt_spec (f : L10) (ui : Nat) :
    Field_SetInt.runW (f.toList ++ [ui]) = [ui, 0, 0, 0, 0, 0, 0, 0, 0, 0] := by
  obtain ⟨f0, f1, f2, f3, f4, f5, f6, f7, f8, f9⟩ := f
  simp only [L10.toList]
  unfold_run Field_SetInt

theorem zero_spec (f : L10) : Field_Zero.runW f.toList = [0, 0, 0, 0, 0, 0, 0, 0, 0, 0] := by
  obtain ⟨f0, f1, f2, f3, f4, f5, f6, f7, f8, f9⟩ := f
  simp only [L10.toList]
  unfold_run Field_Zero

/-! ### additions -/

theorem add_spec (f a : L10) (m k : Nat) (hmk : m + k ≤ 63) (hf : f.MagLE m) (ha : a.MagLE k) :
    ∃ o : L10, Field_Add.runW (f.toList ++ a.toList) = o.toList ∧ o.MagLE (m + k) ∧
      o.val = f.val + a.val := by
  obtain ⟨f0, f1, f2, f3, f4, f5, f6, f7, f8, f9⟩ := f
  obtain ⟨a0, a1, a2, a3, a4, a5, a6, a7, a8, a9⟩ := a
  simp only [L10.MagLE, LB, LB9] at hf ha
  refine ⟨⟨f0 + a0, f1 + a1, f2 + a2, f3 + a3, f4 + a4, f5 + a5, f6 + a6, f7 + a7, f8 + a8, f9 + a9⟩,
    ?_, ?_, ?_⟩
  · simp only [L10.toList]
    unfold_run Field_Add
    simp only [List.cons.injEq, and_true]
    refine ⟨?_, ?_, ?_, ?_, ?_, ?_, ?_, ?_, ?_, ?_⟩ <;> omega
  · simp only [L10.MagLE, LB, LB9]
    refine ⟨?_, ?_, ?_, ?_, ?_, ?_, ?_, ?_, ?_, ?_⟩ <;> omega
  · simp only [L10.val]; omega

theorem add2_spec (f a b : L10) (m k : Nat) (hmk : m + k ≤ 63) (ha : a.MagLE m) (hb : b.MagLE k) :
    ∃ o : L10, Field_Add2.runW (f.toList ++ a.toList ++ b.toList) = o.toList ∧ o.MagLE (m + k) ∧
      o.val = a.val + b.val := by
  obtain ⟨f0, f1, f2, f3, f4, f5, f6, f7, f8, f9⟩ := f
  obtain ⟨a0, a1, a2, a3, a4, a5, a6, a7, a8, a9⟩ := a
  obtain ⟨b0, b1, b2, b3, b4, b5, b6, b7, b8, b9⟩ := b
  simp only [L10.MagLE, LB, LB9] at ha hb
  refine ⟨⟨a0 + b0, a1 + b1, a2 + b2, a3 + b3, a4 + b4, a5 + b5, a6 + b6, a7 + b7, a8 + b8, a9 + b9⟩,
    ?_, ?_, ?_⟩
  · simp only [L10.toList]
    unfold_run Field_Add2
    simp only [List.cons.injEq, and_true]
    refine ⟨?_, ?_, ?_, ?_, ?_, ?_, ?_, ?_, ?_, ?_⟩ <;> omega
  · simp only [L10.MagLE, LB, LB9]
    refine ⟨?_, ?_, ?_, ?_, ?_, ?_, ?_, ?_, ?_, ?_⟩ <;> omega
  · simp only [L10.val]; omega

theorem addInt_spec (f : L10) (m ui : Nat) (hm : m ≤ 62) (hf : f.MagLE m) (hui : ui < 2^16) :
    Field_AddInt.runW (f.toList ++ [ui]) = [f.n0 + ui] ∧ f.n0 + ui ≤ (m + 1) * LB := by
  obtain ⟨f0, f1, f2, f3, f4, f5, f6, f7, f8, f9⟩ := f
  simp only [L10.MagLE, LB, LB9] at hf
  simp only [L10.toList, LB]
  unfold_run Field_AddInt
  simp only [List.cons.injEq, and_true]
  omega

/-! ### MulInt -/

theorem mul_small (x m v : Nat) (B : Nat) (hx : x ≤ m * B) (hmv : m * v ≤ 63) (hB : B ≤ 2^26 + 2^20) :
    x * v ≤ (m * v) * B ∧ x * v < 2^32 := by
  have h1 : x * v ≤ (m * B) * v := Nat.mul_le_mul_right v hx
  have h2 : (m * B) * v = (m * v) * B := by rw [Nat.mul_assoc, Nat.mul_comm B v, ← Nat.mul_assoc]
  have h3 : (m * v) * B ≤ 63 * (2^26 + 2^20) := Nat.mul_le_mul hmv hB
  omega

theorem mulInt_spec (f : L10) (m v : Nat) (hmv : m * v ≤ 63) (_hv : v < 256) (hf : f.MagLE m) :
    ∃ o : L10, Field_MulInt.runW (f.toList ++ [v]) = o.toList ∧ o.MagLE (m * v) ∧ o.val = v * f.val := by
  obtain ⟨f0, f1, f2, f3, f4, f5, f6, f7, f8, f9⟩ := f
  simp only [L10.MagLE] at hf
  obtain ⟨h0, h1, h2, h3, h4, h5, h6, h7, h8, h9⟩ := hf
  have hB : LB ≤ 2^26 + 2^20 := by simp [LB]
  have hB9 : LB9 ≤ 2^26 + 2^20 := by simp [LB9]
  have g0 := mul_small f0 m v LB h0 hmv hB
  have g1 := mul_small f1 m v LB h1 hmv hB
  have g2 := mul_small f2 m v LB h2 hmv hB
  have g3 := mul_small f3 m v LB h3 hmv hB
  have g4 := mul_small f4 m v LB h4 hmv hB
  have g5 := mul_small f5 m v LB h5 hmv hB
  have g6 := mul_small f6 m v LB h6 hmv hB
  have g7 := mul_small f7 m v LB h7 hmv hB
  have g8 := mul_small f8 m v LB h8 hmv hB
  have g9 := mul_small f9 m v LB9 h9 hmv hB9
  refine ⟨⟨f0 * v, f1 * v, f2 * v, f3 * v, f4 * v, f5 * v, f6 * v, f7 * v, f8 * v, f9 * v⟩, ?_, ?_, ?_⟩
  · simp only [L10.toList]
    unfold_run Field_MulInt
    simp only [Nat.mod_eq_of_lt g0.2, Nat.mod_eq_of_lt g1.2, Nat.mod_eq_of_lt g2.2, Nat.mod_eq_of_lt g3.2,
      Nat.mod_eq_of_lt g4.2, Nat.mod_eq_of_lt g5.2, Nat.mod_eq_of_lt g6.2, Nat.mod_eq_of_lt g7.2,
      Nat.mod_eq_of_lt g8.2, Nat.mod_eq_of_lt g9.2]
  · exact ⟨g0.1, g1.1, g2.1, g3.1, g4.1, g5.1, g6.1, g7.1, g8.1, g9.1⟩
  · simp only [L10.val]
    rw [Nat.mul_comm v]
    simp only [Nat.add_mul, Nat.mul_right_comm _ _ v]

/-! ### NegateVal -/

theorem negate_spec (f a : L10) (m : Nat) (hm : m ≤ 63) (ha : a.MagLE m) :
    ∃ o : L10, Field_NegateVal.runW (f.toList ++ a.toList ++ [m]) = o.toList ∧ o.MagLE (m + 1) ∧
      (o.val + a.val) % P = 0 := by
  obtain ⟨f0, f1, f2, f3, f4, f5, f6, f7, f8, f9⟩ := f
  obtain ⟨a0, a1, a2, a3, a4, a5, a6, a7, a8, a9⟩ := a
  simp only [L10.MagLE, LB, LB9] at ha
  obtain ⟨h0, h1, h2, h3, h4, h5, h6, h7, h8, h9⟩ := ha
  refine ⟨⟨(m + 1) * 67107887 - a0, (m + 1) * 67108799 - a1, (m + 1) * 67108863 - a2,
    (m + 1) * 67108863 - a3, (m + 1) * 67108863 - a4, (m + 1) * 67108863 - a5, (m + 1) * 67108863 - a6,
    (m + 1) * 67108863 - a7, (m + 1) * 67108863 - a8, (m + 1) * 4194303 - a9⟩, ?_, ?_, ?_⟩
  · simp only [L10.toList]
    unfold_run Field_NegateVal
    simp only [List.cons.injEq, and_true]
    refine ⟨?_, ?_, ?_, ?_, ?_, ?_, ?_, ?_, ?_, ?_⟩ <;> omega
  · simp only [L10.MagLE, LB, LB9]
    refine ⟨?_, ?_, ?_, ?_, ?_, ?_, ?_, ?_, ?_, ?_⟩ <;> omega
  · simp only [L10.val]
    have e : (m + 1) * 67107887 - a0 + ((m + 1) * 67108799 - a1) * 2 ^ 26 + ((m + 1) * 67108863 - a2) * 2 ^ 52 +
        ((m + 1) * 67108863 - a3) * 2 ^ 78 + ((m + 1) * 67108863 - a4) * 2 ^ 104 +
        ((m + 1) * 67108863 - a5) * 2 ^ 130 + ((m + 1) * 67108863 - a6) * 2 ^ 156 +
        ((m + 1) * 67108863 - a7) * 2 ^ 182 + ((m + 1) * 67108863 - a8) * 2 ^ 208 +
        ((m + 1) * 4194303 - a9) * 2 ^ 234 +
        (a0 + a1 * 2 ^ 26 + a2 * 2 ^ 52 + a3 * 2 ^ 78 + a4 * 2 ^ 104 + a5 * 2 ^ 130 + a6 * 2 ^ 156 +
          a7 * 2 ^ 182 + a8 * 2 ^ 208 + a9 * 2 ^ 234) = (m + 1) * P := by
      simp only [P]; omega
    rw [e, Nat.mul_mod_left]

/-! ### predicates on canonical limbs -/

theorem b2n_beq (x y : Nat) (p : Prop) [Decidable p] (h : x = y ↔ p) :
    b2n (x == y) = if p then 1 else 0 := by
  by_cases hp : p
  · have := h.2 hp; subst this; simp [b2n, hp]
  · have : ¬ x = y := fun e => hp (h.1 e)
    simp [b2n, hp, this]

theorem val_inj (f a : L10) (hf : f.Tight) (ha : a.Tight) : f.val = a.val ↔ f = a := by
  constructor
  · intro h
    obtain ⟨f0, f1, f2, f3, f4, f5, f6, f7, f8, f9⟩ := f
    obtain ⟨a0, a1, a2, a3, a4, a5, a6, a7, a8, a9⟩ := a
    simp only [L10.Tight] at hf ha
    simp only [L10.val] at h
    simp only [L10.mk.injEq]
    omega
  · intro h; rw [h]

theorem isZero_spec (f : L10) (hf : f.Tight) :
    Field_IsZero.runW f.toList = [if f.val = 0 then 1 else 0] ∧
    Field_IsZeroBit.runW f.toList = [if f.val = 0 then 1 else 0] := by
  obtain ⟨f0, f1, f2, f3, f4, f5, f6, f7, f8, f9⟩ := f
  have h : (f0 ||| f1 ||| f2 ||| f3 ||| f4 ||| f5 ||| f6 ||| f7 ||| f8 ||| f9) = 0 ↔
      (L10.mk f0 f1 f2 f3 f4 f5 f6 f7 f8 f9).val = 0 := by
    simp only [Nat.or_eq_zero_iff, L10.val]; omega
  simp only [L10.toList]
  constructor
  · unfold_run Field_IsZero
    rw [b2n_beq _ _ _ h]
  · unfold_run Field_IsZeroBit
    rw [b2n_beq _ _ _ h]

theorem isOne_spec (f : L10) (hf : f.Tight) :
    Field_IsOne.runW f.toList = [if f.val = 1 then 1 else 0] ∧
    Field_IsOneBit.runW f.toList = [if f.val = 1 then 1 else 0] := by
  obtain ⟨f0, f1, f2, f3, f4, f5, f6, f7, f8, f9⟩ := f
  have h : ((f0 ^^^ 1) ||| f1 ||| f2 ||| f3 ||| f4 ||| f5 ||| f6 ||| f7 ||| f8 ||| f9) = 0 ↔
      (L10.mk f0 f1 f2 f3 f4 f5 f6 f7 f8 f9).val = 1 := by
    simp only [Nat.or_eq_zero_iff, xor_eq_zero_iff, L10.val]; omega
  simp only [L10.toList]
  constructor
  · unfold_run Field_IsOne
    rw [b2n_beq _ _ _ h]
  · unfold_run Field_IsOneBit
    rw [b2n_beq _ _ _ h]

theorem isOdd_spec (f : L10) (hf : f.Tight) :
    Field_IsOdd.runW f.toList = [f.val % 2] ∧ Field_IsOddBit.runW f.toList = [f.val % 2] := by
  obtain ⟨f0, f1, f2, f3, f4, f5, f6, f7, f8, f9⟩ := f
  have h : (L10.mk f0 f1 f2 f3 f4 f5 f6 f7 f8 f9).val % 2 = f0 % 2 := by
    simp only [L10.val]; omega
  simp only [L10.toList]
  constructor
  · unfold_run Field_IsOdd
    rw [h, b2n_beq _ _ (f0 % 2 = 1) (by simp)]
    congr 1
    split <;> omega
  · unfold_run Field_IsOddBit
    rw [h]

theorem equals_spec (f a : L10) (hf : f.Tight) (ha : a.Tight) :
    Field_Equals.runW (f.toList ++ a.toList) = [if f.val = a.val then 1 else 0] := by
  have hv := val_inj f a hf ha
  obtain ⟨f0, f1, f2, f3, f4, f5, f6, f7, f8, f9⟩ := f
  obtain ⟨a0, a1, a2, a3, a4, a5, a6, a7, a8, a9⟩ := a
  have h : ((f0 ^^^ a0) ||| (f1 ^^^ a1) ||| (f2 ^^^ a2) ||| (f3 ^^^ a3) ||| (f4 ^^^ a4) ||| (f5 ^^^ a5) |||
      (f6 ^^^ a6) ||| (f7 ^^^ a7) ||| (f8 ^^^ a8) ||| (f9 ^^^ a9)) = 0 ↔
      (L10.mk f0 f1 f2 f3 f4 f5 f6 f7 f8 f9).val = (L10.mk a0 a1 a2 a3 a4 a5 a6 a7 a8 a9).val := by
    rw [hv]
    simp only [Nat.or_eq_zero_iff, xor_eq_zero_iff, L10.mk.injEq, and_assoc]
  simp only [L10.toList]
  unfold_run Field_Equals
  rw [b2n_beq _ _ _ h]

/-! ### 0/1 indicators and lexicographic comparison -/

theorem b2n_and (p q : Bool) : b2n p &&& b2n q = b2n (p && q) := by
  cases p <;> cases q <;> decide
theorem b2n_or (p q : Bool) : b2n p ||| b2n q = b2n (p || q) := by
  cases p <;> cases q <;> decide
theorem b2n_ne_zero (p : Bool) : b2n (b2n p != 0) = b2n p := by
  cases p <;> decide
theorem b2n_ite (b : Bool) (p : Prop) [Decidable p] (h : b = true ↔ p) : b2n b = if p then 1 else 0 := by
  by_cases hp : p
  · simp [b2n, hp, h.2 hp]
  · have : b = false := by cases b <;> simp_all
    simp [b2n, hp, this]


theorem lex_gt (T C x c : Nat) (hx : x < 67108864) (hc : c < 67108864) :
    (C < T ∨ (T = C ∧ c < x)) ↔ C * 67108864 + c < T * 67108864 + x := by omega
theorem lex_eq (T C x c : Nat) (hx : x < 67108864) (hc : c < 67108864) :
    (T = C ∧ x = c) ↔ T * 67108864 + x = C * 67108864 + c := by omega
theorem lex_ge (T C x c : Nat) (hx : x < 67108864) (hc : c < 67108864) :
    (C < T ∨ (T = C ∧ c ≤ x)) ↔ C * 67108864 + c ≤ T * 67108864 + x := by omega


theorem isGtOrEqPrimeMinusOrder_spec (f : L10) (hf : f.Tight) :
    Field_IsGtOrEqPrimeMinusOrder.runW f.toList = [if f.val ≥ P - N then 1 else 0] := by
  obtain ⟨f0, f1, f2, f3, f4, f5, f6, f7, f8, f9⟩ := f
  simp only [L10.Tight, Nat.reducePow] at hf
  obtain ⟨h0, h1, h2, h3, h4, h5, h6, h7, h8, h9⟩ := hf
  simp only [L10.toList]
  unfold_run Field_IsGtOrEqPrimeMinusOrder
  simp only [b2n_and, b2n_or, b2n_ne_zero]
  congr 1
  apply b2n_ite
  simp only [Bool.or_eq_true, Bool.and_eq_true, decide_eq_true_eq, beq_iff_eq]
  simp only [lex_gt, lex_eq, lex_ge, h0, h1, h2, h3, h4, h5, h6, h7, h8, Nat.reduceLT]
  simp only [L10.val, P, N]
  omega

/-! ### SetBytes -/

theorem list32 (b : List Nat) (hb : b.length = 32) :
    ∃ b0 b1 b2 b3 b4 b5 b6 b7 b8 b9 b10 b11 b12 b13 b14 b15 b16 b17 b18 b19 b20 b21 b22 b23 b24 b25 b26 b27 b28 b29 b30 b31 : Nat,
      b = [b0, b1, b2, b3, b4, b5, b6, b7, b8, b9, b10, b11, b12, b13, b14, b15, b16, b17, b18, b19, b20, b21, b22, b23, b24, b25, b26, b27, b28, b29, b30, b31] := by
  rcases b with _ | ⟨b0, b⟩
  · simp at hb
  rcases b with _ | ⟨b1, b⟩
  · simp at hb
  rcases b with _ | ⟨b2, b⟩
  · simp at hb
  rcases b with _ | ⟨b3, b⟩
  · simp at hb
  rcases b with _ | ⟨b4, b⟩
  · simp at hb
  rcases b with _ | ⟨b5, b⟩
  · simp at hb
  rcases b with _ | ⟨b6, b⟩
  · simp at hb
  rcases b with _ | ⟨b7, b⟩
  · simp at hb
  rcases b with _ | ⟨b8, b⟩
  · simp at hb
  rcases b with _ | ⟨b9, b⟩
  · simp at hb
  rcases b with _ | ⟨b10, b⟩
  · simp at hb
  rcases b with _ | ⟨b11, b⟩
  · simp at hb
  rcases b with _ | ⟨b12, b⟩
  · simp at hb
  rcases b with _ | ⟨b13, b⟩
  · simp at hb
  rcases b with _ | ⟨b14, b⟩
  · simp at hb
  rcases b with _ | ⟨b15, b⟩
  · simp at hb
  rcases b with _ | ⟨b16, b⟩
  · simp at hb
  rcases b with _ | ⟨b17, b⟩
  · simp at hb
  rcases b with _ | ⟨b18, b⟩
  · simp at hb
  rcases b with _ | ⟨b19, b⟩
  · simp at hb
  rcases b with _ | ⟨b20, b⟩
  · simp at hb
  rcases b with _ | ⟨b21, b⟩
  · simp at hb
  rcases b with _ | ⟨b22, b⟩
  · simp at hb
  rcases b with _ | ⟨b23, b⟩
  · simp at hb
  rcases b with _ | ⟨b24, b⟩
  · simp at hb
  rcases b with _ | ⟨b25, b⟩
  · simp at hb
  rcases b with _ | ⟨b26, b⟩
  · simp at hb
  rcases b with _ | ⟨b27, b⟩
  · simp at hb
  rcases b with _ | ⟨b28, b⟩
  · simp at hb
  rcases b with _ | ⟨b29, b⟩
  · simp at hb
  rcases b with _ | ⟨b30, b⟩
  · simp at hb
  rcases b with _ | ⟨b31, b⟩
  · simp at hb
  rcases b with _ | ⟨x, b⟩
  · exact ⟨b0, b1, b2, b3, b4, b5, b6, b7, b8, b9, b10, b11, b12, b13, b14, b15, b16, b17, b18, b19, b20, b21, b22, b23, b24, b25, b26, b27, b28, b29, b30, b31, rfl⟩
  · simp at hb

theorem or_shl (a b k w : Nat) (ha : a < 2^k) (hb : b * 2^k < 2^w) :
    a ||| (b <<< k) % 2^w = a + b * 2^k := by
  rw [Nat.shiftLeft_eq, Nat.mod_eq_of_lt hb, ← Nat.shiftLeft_eq, Nat.or_comm,
    ← Nat.shiftLeft_add_eq_or_of_lt ha, Nat.shiftLeft_eq, Nat.add_comm]

theorem or3 (p q r s k1 k2 k3 : Nat) (hp : p < 2^k1) (hpq : p + q * 2^k1 < 2^k2)
    (hpqr : p + q * 2^k1 + r * 2^k2 < 2^k3) (h1 : q * 2^k1 < 2^32) (h2 : r * 2^k2 < 2^32)
    (h3 : s * 2^k3 < 2^32) :
    ((p ||| (q <<< k1) % 2^32) ||| (r <<< k2) % 2^32) ||| (s <<< k3) % 2^32
      = p + q * 2^k1 + r * 2^k2 + s * 2^k3 := by
  rw [or_shl p q k1 32 hp h1, or_shl _ r k2 32 hpq h2, or_shl _ s k3 32 hpqr h3]

theorem or2 (p q r k1 k2 : Nat) (hp : p < 2^k1) (hpq : p + q * 2^k1 < 2^k2)
    (h1 : q * 2^k1 < 2^32) (h2 : r * 2^k2 < 2^32) :
    (p ||| (q <<< k1) % 2^32) ||| (r <<< k2) % 2^32 = p + q * 2^k1 + r * 2^k2 := by
  rw [or_shl p q k1 32 hp h1, or_shl _ r k2 32 hpq h2]

set_option maxRecDepth 100000 in
theorem setBytes_spec (f : L10) (b : List Nat) (hb : b.length = 32) (hlt : AllLt 256 b) :
    ∃ o : L10, ∃ ov : Nat, Field_SetBytes.runW (f.toList ++ b) = o.toList ++ [ov] ∧ o.Tight ∧
      o.val = bytesVal b ∧ ov = (if bytesVal b ≥ P then 1 else 0) := by
  obtain ⟨f0, f1, f2, f3, f4, f5, f6, f7, f8, f9⟩ := f
  obtain ⟨b0, b1, b2, b3, b4, b5, b6, b7, b8, b9, b10, b11, b12, b13, b14, b15, b16, b17, b18, b19, b20, b21, b22, b23, b24, b25, b26, b27, b28, b29, b30, b31, rfl⟩ := list32 b hb
  have H : ∀ x ∈ [b0, b1, b2, b3, b4, b5, b6, b7, b8, b9, b10, b11, b12, b13, b14, b15, b16, b17, b18, b19, b20, b21, b22, b23, b24, b25, b26, b27, b28, b29, b30, b31], x < 256 := hlt
  simp only [List.forall_mem_cons, List.not_mem_nil, false_imp_iff, implies_true, and_true] at H
  obtain ⟨h0, h1, h2, h3, h4, h5, h6, h7, h8, h9, h10, h11, h12, h13, h14, h15, h16, h17, h18, h19, h20, h21, h22, h23, h24, h25, h26, h27, h28, h29, h30, h31⟩ := H
  clear hlt hb
  have h := kernel_steps_W Field_SetBytes ([f0, f1, f2, f3, f4, f5, f6, f7, f8, f9] ++ [b0, b1, b2, b3, b4, b5, b6, b7, b8, b9, b10, b11, b12, b13, b14, b15, b16, b17, b18, b19, b20, b21, b22, b23, b24, b25, b26, b27, b28, b29, b30, b31])
  simp only [Field_SetBytes, List.reverse_cons, List.reverse_nil, List.nil_append, List.cons_append] at h
  ir_steps h
  have hrun := h.out
  simp only [List.map, evalW, List.getD_cons_succ, List.getD_cons_zero] at hrun
  clear h
  simp only [Nat.shiftRight_eq_div_pow, Nat.and_two_pow_sub_one_eq_mod] at e0 e1 e2 e3 e4 e5 e6 e7 e8 e9
  change Field_SetBytes.runW _ = _ at hrun
  have l0 : v0 = b31 + b30 * 2^8 + b29 * 2^16 + (b28 % 2^2) * 2^24 := by
    rw [e0]; apply or3 <;> omega
  have l1 : v1 = b28 / 2^2 + b27 * 2^6 + b26 * 2^14 + (b25 % 2^4) * 2^22 := by
    rw [e1]; apply or3 <;> omega
  have l2 : v2 = b25 / 2^4 + b24 * 2^4 + b23 * 2^12 + (b22 % 2^6) * 2^20 := by
    rw [e2]; apply or3 <;> omega
  have l3 : v3 = b22 / 2^6 + b21 * 2^2 + b20 * 2^10 + b19 * 2^18 := by
    rw [e3]; apply or3 <;> omega
  have l4 : v4 = b18 + b17 * 2^8 + b16 * 2^16 + (b15 % 2^2) * 2^24 := by
    rw [e4]; apply or3 <;> omega
  have l5 : v5 = b15 / 2^2 + b14 * 2^6 + b13 * 2^14 + (b12 % 2^4) * 2^22 := by
    rw [e5]; apply or3 <;> omega
  have l6 : v6 = b12 / 2^4 + b11 * 2^4 + b10 * 2^12 + (b9 % 2^6) * 2^20 := by
    rw [e6]; apply or3 <;> omega
  have l7 : v7 = b9 / 2^6 + b8 * 2^2 + b7 * 2^10 + b6 * 2^18 := by
    rw [e7]; apply or3 <;> omega
  have l8 : v8 = b5 + b4 * 2^8 + b3 * 2^16 + (b2 % 2^2) * 2^24 := by
    rw [e8]; apply or3 <;> omega
  have l9 : v9 = b2 / 2^2 + b1 * 2^6 + b0 * 2^14 := by
    rw [e9]; apply or2 <;> omega
  clear e0 e1 e2 e3 e4 e5 e6 e7 e8 e9
  have t0 : v0 < 67108864 := by omega
  have t1 : v1 < 67108864 := by omega
  have t2 : v2 < 67108864 := by omega
  have t3 : v3 < 67108864 := by omega
  have t4 : v4 < 67108864 := by omega
  have t5 : v5 < 67108864 := by omega
  have t6 : v6 < 67108864 := by omega
  have t7 : v7 < 67108864 := by omega
  have t8 : v8 < 67108864 := by omega
  have t9 : v9 < 4194304 := by omega
  have hval : (L10.mk v0 v1 v2 v3 v4 v5 v6 v7 v8 v9).val = bytesVal [b0, b1, b2, b3, b4, b5, b6, b7, b8, b9, b10, b11, b12, b13, b14, b15, b16, b17, b18, b19, b20, b21, b22, b23, b24, b25, b26, b27, b28, b29, b30, b31] := by
    simp only [L10.val, bytesVal, List.foldl]
    omega
  refine ⟨⟨v0, v1, v2, v3, v4, v5, v6, v7, v8, v9⟩, v22, hrun, ?_, hval, ?_⟩
  · simp only [L10.Tight]; omega
  · rw [← hval]
    clear hval hrun l0 l1 l2 l3 l4 l5 l6 l7 l8 l9
    subst e22 e21 e20 e19 e18 e17 e16 e15 e14 e13 e12 e11 e10
    simp only [b2n_and, b2n_or]
    apply b2n_ite
    simp only [Bool.or_eq_true, Bool.and_eq_true, decide_eq_true_eq, beq_iff_eq]
    simp only [lex_eq, t1, t2, t3, t4, t5, t6, t7, t8, Nat.reduceLT]
    simp only [L10.val, P]
    omega

/-! ### PutBytesUnchecked -/

theorem limbA (x : Nat) (hx : x < 2^26) : x = x % 2^8 % 2^8 + (x / 2^8 % 2^8 % 2^8) * 2^8 +
    (x / 2^16 % 2^8 % 2^8) * 2^16 + (x / 2^24 % 2^2) * 2^24 := by omega
theorem limbB (x : Nat) (hx : x < 2^26) : x = x % 2^6 + (x / 2^6 % 2^8 % 2^8) * 2^6 +
    (x / 2^14 % 2^8 % 2^8) * 2^14 + (x / 2^22 % 2^4) * 2^22 := by omega
theorem limbC (x : Nat) (hx : x < 2^26) : x = x % 2^4 + (x / 2^4 % 2^8 % 2^8) * 2^4 +
    (x / 2^12 % 2^8 % 2^8) * 2^12 + (x / 2^20 % 2^6) * 2^20 := by omega
theorem limbD (x : Nat) (hx : x < 2^26) : x = x % 2^2 + (x / 2^2 % 2^8 % 2^8) * 2^2 +
    (x / 2^10 % 2^8 % 2^8) * 2^10 + (x / 2^18 % 2^8 % 2^8) * 2^18 := by omega
theorem limbE (x : Nat) (hx : x < 2^22) : x = x % 2^6 + (x / 2^6 % 2^8 % 2^8) * 2^6 +
    (x / 2^14 % 2^8 % 2^8) * 2^14 := by omega
theorem ob2 (x y : Nat) : (x % 2^2 + (y % 2^6) * 2^2) % 2^8 = x % 2^2 + (y % 2^6) * 2^2 := by omega
theorem ob4 (x y : Nat) : (x % 2^4 + (y % 2^4) * 2^4) % 2^8 = x % 2^4 + (y % 2^4) * 2^4 := by omega
theorem ob6 (x y : Nat) : (x % 2^6 + (y % 2^2) * 2^6) % 2^8 = x % 2^6 + (y % 2^2) * 2^6 := by omega

set_option maxRecDepth 100000 in
theorem putBytes_spec (f : L10) (b : List Nat) (hb : b.length = 32) (hf : f.Tight) :
    ∃ o : List Nat, Field_PutBytesUnchecked.runW (f.toList ++ b) = o ∧ o.length = 32 ∧ AllLt 256 o ∧
      bytesVal o = f.val := by
  obtain ⟨f0, f1, f2, f3, f4, f5, f6, f7, f8, f9⟩ := f
  obtain ⟨b0, b1, b2, b3, b4, b5, b6, b7, b8, b9, b10, b11, b12, b13, b14, b15, b16, b17, b18, b19, b20, b21, b22, b23, b24, b25, b26, b27, b28, b29, b30, b31, rfl⟩ := list32 b hb
  simp only [L10.Tight] at hf
  obtain ⟨t0, t1, t2, t3, t4, t5, t6, t7, t8, t9⟩ := hf
  have h := kernel_steps_W Field_PutBytesUnchecked ([f0, f1, f2, f3, f4, f5, f6, f7, f8, f9] ++ [b0, b1, b2, b3, b4, b5, b6, b7, b8, b9, b10, b11, b12, b13, b14, b15, b16, b17, b18, b19, b20, b21, b22, b23, b24, b25, b26, b27, b28, b29, b30, b31])
  simp only [Field_PutBytesUnchecked, List.reverse_cons, List.reverse_nil, List.nil_append, List.cons_append] at h
  ir_steps h
  have hrun := h.out
  simp only [List.map, evalW, List.getD_cons_succ, List.getD_cons_zero] at hrun
  clear h hb
  change Field_PutBytesUnchecked.runW _ = _ at hrun
  simp only [Nat.shiftRight_eq_div_pow, Nat.and_two_pow_sub_one_eq_mod] at e0 e1 e2 e3 e4 e5 e6 e7 e8 e9 e10 e11 e12 e13 e14 e15 e16 e17 e18 e19 e20 e21 e22 e23 e24 e25 e26 e27 e28 e29 e30 e31
  have u0 : v0 < 256 := by rw [e0]; exact Nat.mod_lt _ (by decide)
  have u1 : v1 < 256 := by rw [e1]; exact Nat.mod_lt _ (by decide)
  have u2 : v2 < 256 := by rw [e2]; exact Nat.mod_lt _ (by decide)
  have u3 : v3 < 256 := by rw [e3]; exact Nat.mod_lt _ (by decide)
  have u4 : v4 < 256 := by rw [e4]; exact Nat.mod_lt _ (by decide)
  have u5 : v5 < 256 := by rw [e5]; exact Nat.mod_lt _ (by decide)
  have u6 : v6 < 256 := by rw [e6]; exact Nat.mod_lt _ (by decide)
  have u7 : v7 < 256 := by rw [e7]; exact Nat.mod_lt _ (by decide)
  have u8 : v8 < 256 := by rw [e8]; exact Nat.mod_lt _ (by decide)
  have u9 : v9 < 256 := by rw [e9]; exact Nat.mod_lt _ (by decide)
  have u10 : v10 < 256 := by rw [e10]; exact Nat.mod_lt _ (by decide)
  have u11 : v11 < 256 := by rw [e11]; exact Nat.mod_lt _ (by decide)
  have u12 : v12 < 256 := by rw [e12]; exact Nat.mod_lt _ (by decide)
  have u13 : v13 < 256 := by rw [e13]; exact Nat.mod_lt _ (by decide)
  have u14 : v14 < 256 := by rw [e14]; exact Nat.mod_lt _ (by decide)
  have u15 : v15 < 256 := by rw [e15]; exact Nat.mod_lt _ (by decide)
  have u16 : v16 < 256 := by rw [e16]; exact Nat.mod_lt _ (by decide)
  have u17 : v17 < 256 := by rw [e17]; exact Nat.mod_lt _ (by decide)
  have u18 : v18 < 256 := by rw [e18]; exact Nat.mod_lt _ (by decide)
  have u19 : v19 < 256 := by rw [e19]; exact Nat.mod_lt _ (by decide)
  have u20 : v20 < 256 := by rw [e20]; exact Nat.mod_lt _ (by decide)
  have u21 : v21 < 256 := by rw [e21]; exact Nat.mod_lt _ (by decide)
  have u22 : v22 < 256 := by rw [e22]; exact Nat.mod_lt _ (by decide)
  have u23 : v23 < 256 := by rw [e23]; exact Nat.mod_lt _ (by decide)
  have u24 : v24 < 256 := by rw [e24]; exact Nat.mod_lt _ (by decide)
  have u25 : v25 < 256 := by rw [e25]; exact Nat.mod_lt _ (by decide)
  have u26 : v26 < 256 := by rw [e26]; exact Nat.mod_lt _ (by decide)
  have u27 : v27 < 256 := by rw [e27]; exact Nat.mod_lt _ (by decide)
  have u28 : v28 < 256 := by rw [e28]; exact Nat.mod_lt _ (by decide)
  have u29 : v29 < 256 := by rw [e29]; exact Nat.mod_lt _ (by decide)
  have u30 : v30 < 256 := by rw [e30]; exact Nat.mod_lt _ (by decide)
  have u31 : v31 < 256 := by rw [e31]; exact Nat.mod_lt _ (by decide)
  rw [or_shl _ _ 2 32 (by omega) (by omega)] at e3
  rw [or_shl _ _ 4 32 (by omega) (by omega)] at e6
  rw [or_shl _ _ 6 32 (by omega) (by omega)] at e9
  rw [or_shl _ _ 2 32 (by omega) (by omega)] at e16
  rw [or_shl _ _ 4 32 (by omega) (by omega)] at e19
  rw [or_shl _ _ 6 32 (by omega) (by omega)] at e22
  rw [or_shl _ _ 2 32 (by omega) (by omega)] at e29
  have d0 : f0 = v0 + v1 * 2^8 + v2 * 2^16 + (f0 / 2^24 % 2^2) * 2^24 := by rw [e0, e1, e2]; exact limbA f0 t0
  have c3 : v3 = f0 / 2^24 % 2^2 + (f1 % 2^6) * 2^2 := e3.trans (ob2 _ _)
  have d1 : f1 = f1 % 2^6 + v4 * 2^6 + v5 * 2^14 + (f1 / 2^22 % 2^4) * 2^22 := by rw [e4, e5]; exact limbB f1 t1
  have c6 : v6 = f1 / 2^22 % 2^4 + (f2 % 2^4) * 2^4 := e6.trans (ob4 _ _)
  have d2 : f2 = f2 % 2^4 + v7 * 2^4 + v8 * 2^12 + (f2 / 2^20 % 2^6) * 2^20 := by rw [e7, e8]; exact limbC f2 t2
  have c9 : v9 = f2 / 2^20 % 2^6 + (f3 % 2^2) * 2^6 := e9.trans (ob6 _ _)
  have d3 : f3 = f3 % 2^2 + v10 * 2^2 + v11 * 2^10 + v12 * 2^18 := by rw [e10, e11, e12]; exact limbD f3 t3
  have d4 : f4 = v13 + v14 * 2^8 + v15 * 2^16 + (f4 / 2^24 % 2^2) * 2^24 := by rw [e13, e14, e15]; exact limbA f4 t4
  have c16 : v16 = f4 / 2^24 % 2^2 + (f5 % 2^6) * 2^2 := e16.trans (ob2 _ _)
  have d5 : f5 = f5 % 2^6 + v17 * 2^6 + v18 * 2^14 + (f5 / 2^22 % 2^4) * 2^22 := by rw [e17, e18]; exact limbB f5 t5
  have c19 : v19 = f5 / 2^22 % 2^4 + (f6 % 2^4) * 2^4 := e19.trans (ob4 _ _)
  have d6 : f6 = f6 % 2^4 + v20 * 2^4 + v21 * 2^12 + (f6 / 2^20 % 2^6) * 2^20 := by rw [e20, e21]; exact limbC f6 t6
  have c22 : v22 = f6 / 2^20 % 2^6 + (f7 % 2^2) * 2^6 := e22.trans (ob6 _ _)
  have d7 : f7 = f7 % 2^2 + v23 * 2^2 + v24 * 2^10 + v25 * 2^18 := by rw [e23, e24, e25]; exact limbD f7 t7
  have d8 : f8 = v26 + v27 * 2^8 + v28 * 2^16 + (f8 / 2^24 % 2^2) * 2^24 := by rw [e26, e27, e28]; exact limbA f8 t8
  have c29 : v29 = f8 / 2^24 % 2^2 + (f9 % 2^6) * 2^2 := e29.trans (ob2 _ _)
  have d9 : f9 = f9 % 2^6 + v30 * 2^6 + v31 * 2^14 := by rw [e30, e31]; exact limbE f9 t9
  clear e0 e1 e2 e3 e4 e5 e6 e7 e8 e9 e10 e11 e12 e13 e14 e15 e16 e17 e18 e19 e20 e21 e22 e23 e24 e25 e26 e27 e28 e29 e30 e31
  generalize f0 / 2^24 % 2^2 = p0 at d0 c3
  generalize f1 % 2^6 = q1 at d1 c3
  generalize f1 / 2^22 % 2^4 = p1 at d1 c6
  generalize f2 % 2^4 = q2 at d2 c6
  generalize f2 / 2^20 % 2^6 = p2 at d2 c9
  generalize f3 % 2^2 = q3 at d3 c9
  generalize f4 / 2^24 % 2^2 = p4 at d4 c16
  generalize f5 % 2^6 = q5 at d5 c16
  generalize f5 / 2^22 % 2^4 = p5 at d5 c19
  generalize f6 % 2^4 = q6 at d6 c19
  generalize f6 / 2^20 % 2^6 = p6 at d6 c22
  generalize f7 % 2^2 = q7 at d7 c22
  generalize f8 / 2^24 % 2^2 = p8 at d8 c29
  generalize f9 % 2^6 = q9 at d9 c29
  refine ⟨[v31, v30, v29, v28, v27, v26, v25, v24, v23, v22, v21, v20, v19, v18, v17, v16, v15, v14, v13, v12, v11, v10, v9, v8, v7, v6, v5, v4, v3, v2, v1, v0], hrun, rfl, ?_, ?_⟩
  · simp only [AllLt, List.forall_mem_cons, List.not_mem_nil, false_imp_iff, implies_true, and_true]
    exact ⟨u31, u30, u29, u28, u27, u26, u25, u24, u23, u22, u21, u20, u19, u18, u17, u16, u15, u14, u13, u12, u11, u10, u9, u8, u7, u6, u5, u4, u3, u2, u1, u0⟩
  · simp only [L10.val, bytesVal, List.foldl]
    clear hrun u0 u1 u2 u3 u4 u5 u6 u7 u8 u9 u10 u11 u12 u13 u14 u15 u16 u17 u18 u19 u20 u21 u22 u23 u24 u25 u26 u27 u28 u29 u30 u31
    omega

end Secp.Proofs.FieldSmall

