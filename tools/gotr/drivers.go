package main

// T8: value-level drivers → executable Lean definitions (Gen/Drivers.lean).
//
// The functions that glue scalar arithmetic, field arithmetic and the point routines together (sign, signRFC6979,
// Verify, RecoverPublicKey, schnorrSign, schnorrVerify, schnorr.Sign, GenerateSharedSecret, ScalarBaseMultNonConst,
// fieldToModNScalar, modNScalarToField) are translated statement by statement into Lean terms over the VALUE-level
// primitives of the model (`nmul`, `nadd`, `ninv`, `fmul`, `fsq`, `scalarBaseMultNC`, `addNC3`, `toAffineJ`, …), and
// Lean proves each generated definition equal to the hand-written model the property theorems are about
// (`*_regenerated` theorems).  That the value level is what the limbs compute is C05/C06 (kernels) and C16 (T2s).
//
// Translation (a symbolic executor over locations, CPS, fail-closed):
//   * every Go variable is a location named after it; a pointer variable aliases the location it points to;
//     a mutating method call `x.M(a)` becomes `let x := ⟦M⟧ x a` (Lean shadowing = Go assignment);
//   * structs are tuples (JacobianPoint = (X, Y, Z), Signature = (r, s, v), PublicKey = (x, y)); a field write
//     rebuilds the tuple;
//   * `if c { …return… }` → `if c then … else rest`; an `if` whose branches fall through re-binds the tuple of the
//     locations written in them; a branch that may both return and fall through duplicates the continuation;
//   * `for init; ; post { … continue … return … }` → a top-level function recursive on a fuel argument
//     (`.fuel` when it runs out); `for i := 0; i < len(b); i++ { … }` → `List.foldl` over `List.range`;
//   * calls: primitives by table; small helpers of the three packages (AsJacobian, NewPublicKey, NewSignature,
//     IsOnCurve …) are INLINED from their source; other translated entries are called by name;
//   * fallible entries return `DR ε α` = ok | err | panic | fuel; `(T, bool)` results use ε = Unit;
//   * sized integers are naturals with explicit wrap-around (`% 2^w`) on +, <<, byte()/uint32() conversions.
// Anything else is an error: the pass fails and ./check reports a broken tie.

import (
	"fmt"
	"go/ast"
	"go/constant"
	"go/token"
	"go/types"
	"regexp"
	"sort"
	"strings"
)

// ---------------------------------------------------------------- output tree

type dnode struct {
	kind  string // let | lett | if | match | ret | tuple
	name  string
	names *[]string
	term  string
	a, b  *dnode
	arms  []darm
}
type darm struct {
	pat  string
	body *dnode
}

func tupleOf(ns []string) string {
	if len(ns) == 1 {
		return ns[0]
	}
	return "(" + strings.Join(ns, ", ") + ")"
}

func (n *dnode) print(sb *strings.Builder, ind string) {
	switch n.kind {
	case "let":
		fmt.Fprintf(sb, "%slet %s := %s\n", ind, n.name, n.term)
		n.a.print(sb, ind)
	case "lett": // let (w…) := <a> ; b
		fmt.Fprintf(sb, "%slet %s :=\n", ind, tupleOf(*n.names))
		n.a.print(sb, ind+"    ")
		n.b.print(sb, ind)
	case "if":
		fmt.Fprintf(sb, "%sif %s then (\n", ind, n.term)
		n.a.print(sb, ind+"    ")
		fmt.Fprintf(sb, "%s  ) else (\n", ind)
		n.b.print(sb, ind+"    ")
		fmt.Fprintf(sb, "%s  )\n", ind)
	case "match":
		fmt.Fprintf(sb, "%smatch %s with\n", ind, n.term)
		for _, a := range n.arms {
			fmt.Fprintf(sb, "%s| %s => (\n", ind, a.pat)
			a.body.print(sb, ind+"    ")
			fmt.Fprintf(sb, "%s  )\n", ind)
		}
	case "fold": // let W := seq.foldl (fun W x => a) W ; b
		w := tupleOf(*n.names)
		fmt.Fprintf(sb, "%slet %s := %s.foldl (fun %s %s =>\n", ind, w, n.term, w, n.name)
		n.a.print(sb, ind+"      ")
		fmt.Fprintf(sb, "%s    ) %s\n", ind, w)
		n.b.print(sb, ind)
	case "guard": // arithmetic assumption of the translation (a Go int that must not be negative)
		fmt.Fprintf(sb, "%sif %s then %s else\n", ind, n.term, n.name)
		n.a.print(sb, ind)
	case "ret":
		fmt.Fprintf(sb, "%s%s\n", ind, n.term)
	case "tuple":
		fmt.Fprintf(sb, "%s%s\n", ind, tupleOf(*n.names))
	}
}

// ---------------------------------------------------------------- values and locations

type dloc struct {
	root   string
	path   []int // projection path (index, arity pairs flattened: i0, n0, i1, n1 …)
	kind   string
	lo, hi string   // sub-slice of a byte array (hi == "" : to the end); lo == "" : whole
	ro     bool     // a package-level constant: never written
	names  []string // for each path step: "" (tuple projection) or the field name of a Lean structure
}

type dv struct {
	kind  string // scalar field point sig ssig pub priv bytes bool int err table nil unit
	term  string
	loc   *dloc
	known *bool // statically known truth value (bool) / non-nil-ness (err)
	width int
}

var structFields = map[string][]struct{ name, kind string }{
	"point": {{"X", "field"}, {"Y", "field"}, {"Z", "field"}},
	"sig":   {{"r", "scalar"}, {"s", "scalar"}, {"v", "int"}},
	"ssig":  {{"r", "field"}, {"s", "scalar"}},
	"pub":   {{"x", "field"}, {"y", "field"}},
	"priv":  {{"Key", "scalar"}},
	"naf":   {{"pos", "bytes"}, {"neg", "bytes"}, {"start", "int"}, {"end", "int"}},
	"epub":  {{"Curve", "curve"}, {"X", "big"}, {"Y", "big"}},
	"sopt":  {{"Format", "int"}, {"Hash", "int"}},
	"hmac":  {{"inner", "hash"}, {"outer", "hash"}, {"ipad", "bytes"}, {"opad", "bytes"}},
	"ext": {{"Version", "bytes"}, {"Depth", "int"}, {"Fingerprint", "bytes"}, {"ChildNumber", "int"}, {"KeyData", "bytes"}, {"ChainCode", "bytes"},
		{"curve", "curve"}},
}

var leanType = map[string]string{"scalar": "Nat", "field": "Nat", "int": "Nat", "point": "Jac", "sig": "Nat × Nat × Nat", "ssig": "Nat × Nat",
	"pub": "Nat × Nat", "priv": "Nat", "bytes": "Bytes", "bool": "Bool", "hmac": "HmacObj", "reader": "Reader",
	"naf": "Bytes × Bytes × Nat × Nat", "big": "Nat", "curve": "Unit",
	"ext": "Bytes × Nat × Bytes × Nat × Bytes × Bytes × Unit", "epub": "Unit × Nat × Nat",
	"sopt": "Nat × Nat", "sopts": "Option (Nat × Nat)", "hash": "Bytes",
	"ints": "List Nat", "obig": "Option Nat"}

// plainErrors: errors built with fmt.Errorf and no kind, by the beginning of their message (schnorr.ParsePubKey); the
// names are the ones the model and the harness use for them
var plainErrors = map[string]string{
	"nil pubkey byte string":         "SchnorrNil",
	"bad pubkey byte string size":    "SchnorrBadSize",
	"wrong pubkey type (not compres": "SchnorrWrongType",
}

// recordKinds are Lean structures (field access by name, update by `{ x with f := v }`) rather than tuples
var recordKinds = map[string]bool{"hmac": true}

// valueArgs: a bytes-valued argument is parenthesised when it is not atomic

var zeroOf = map[string]string{"scalar": "0", "field": "0", "int": "0", "point": "((0, 0, 0) : Jac)", "sig": "((0, 0, 0) : Nat × Nat × Nat)",
	"ssig": "((0, 0) : Nat × Nat)", "pub": "((0, 0) : Nat × Nat)", "priv": "0", "bool": "false",
	"naf": "((List.replicate 33 (0 : UInt8), List.replicate 33 (0 : UInt8), 0, 0) : Bytes × Bytes × Nat × Nat)", "big": "0",
	"sopt": "((0, 0) : Nat × Nat)", "hash": "([] : Bytes)",
	"hmac": "({ inner := [], outer := [], ipad := List.replicate 64 0, opad := List.replicate 64 0 } : HmacObj)"}

// zeroTerm: the zero value of a Go type of the given kind; for struct kinds the byte-array fields get the length the Go
// type declares (nothing about array sizes is hard-wired in the translator)
func (d *d8) zeroTerm(t types.Type, kind string) (string, bool) {
	if p, ok := t.(*types.Pointer); ok {
		t = p.Elem()
	}
	fs, isStruct := structFields[kind]
	st, _ := t.Underlying().(*types.Struct)
	if !isStruct || st == nil {
		if kind == "bytes" {
			if arr, isArr := t.Underlying().(*types.Array); isArr {
				return fmt.Sprintf("(List.replicate %d (0 : UInt8))", arr.Len()), true
			}
			return "([] : Bytes)", true
		}
		z, ok := zeroOf[kind]
		return z, ok
	}
	var parts []string
	for _, f := range fs {
		var ft types.Type
		for q := 0; q < st.NumFields(); q++ {
			if st.Field(q).Name() == f.name {
				ft = st.Field(q).Type()
			}
		}
		if ft == nil {
			return "", false // the Go struct no longer has the field the translator knows
		}
		var z string
		switch f.kind {
		case "curve":
			z = "()"
		case "hash":
			z = "([] : Bytes)"
		default:
			var ok bool
			z, ok = d.zeroTerm(ft, f.kind)
			if !ok {
				return "", false
			}
		}
		if recordKinds[kind] {
			parts = append(parts, f.name+" := "+z)
		} else {
			parts = append(parts, z)
		}
	}
	if st.NumFields() != len(fs) {
		return "", false // a field was added to or removed from the Go struct
	}
	if recordKinds[kind] {
		return "({ " + strings.Join(parts, ", ") + " } : " + leanType[kind] + ")", true
	}
	if len(parts) == 1 {
		return parts[0], true
	}
	return "((" + strings.Join(parts, ", ") + ") : " + leanType[kind] + ")", true
}

func proj(term string, i, n int) string {
	if n == 1 {
		return term
	}
	if i == n-1 {
		s := term
		for k := 0; k < n-1; k++ {
			s += ".2"
		}
		return s
	}
	s := term
	for k := 0; k < i; k++ {
		s += ".2"
	}
	return s + ".1"
}

func (l *dloc) stepName(k int) string {
	if k/2 < len(l.names) {
		return l.names[k/2]
	}
	return ""
}

func (l *dloc) read() string {
	t := l.root
	for k := 0; k+1 < len(l.path); k += 2 {
		if n := l.stepName(k); n != "" {
			t = t + "." + n
		} else {
			t = proj(t, l.path[k], l.path[k+1])
		}
	}
	if l.lo != "" {
		if l.hi == "" {
			return "(" + t + ".drop " + l.lo + ")"
		}
		return "((" + t + ".take " + l.hi + ").drop " + l.lo + ")"
	}
	return t
}

// rebuilt value of the root when the location receives v
func (l *dloc) rebuild(v string) string {
	var rec func(cur string, path []int) string
	step := 0
	rec = func(cur string, path []int) string {
		if len(path) == 0 {
			return v
		}
		i, n := path[0], path[1]
		if name := l.stepName(step * 2); name != "" {
			step++
			inner := rec(cur+"."+name, path[2:])
			return "{ " + cur + " with " + name + " := " + inner + " }"
		}
		step++
		if n == 1 {
			return rec(cur, path[2:])
		}
		parts := make([]string, n)
		for j := 0; j < n; j++ {
			if j == i {
				parts[j] = rec(proj(cur, j, n), path[2:])
			} else {
				parts[j] = proj(cur, j, n)
			}
		}
		return "(" + strings.Join(parts, ", ") + ")"
	}
	return rec(l.root, l.path)
}

// ---------------------------------------------------------------- translator state

type d8entry struct {
	pkg    string // "", "schnorr"
	key    string
	lean   string
	total  bool   // returns a plain value (cannot fail, panic or diverge)
	errT   string // Lean error type of a fallible entry
	extra  string // extra leading Lean parameters, e.g. "(B : Bytes → Bytes)"
	extraA string // … and how to pass them on in calls
	skip   string // a parameter the function must not use (it gets no Lean counterpart: any use fails closed)
	out    string // name of a *JacobianPoint out-parameter: the entry returns its final value
	fuel   string // fuel given to the entry's retry loop (a Lean term over its parameters); "" = no loop
}

var d8entries = []d8entry{
	{"", "fieldToModNScalar", "fieldToModNScalar", true, "", "", "", "", "", ""},
	{"", "modNScalarToField", "modNScalarToField", true, "", "", "", "", "", ""},
	{"", "ScalarBaseMultNonConst", "scalarBaseMultNonConst", true, "", "", "", "", "result", ""},
	{"", "sign", "sign", false, "Unit", "", "", "", "", ""},
	{"", "signRFC6979", "signRFC6979", false, "Unit", "", "", "", "", "16"},
	{"", "Signature.Verify", "verify", true, "", "", "", "", "", ""},
	{"", "Signature.RecoverPublicKey", "recoverPublicKey", false, "SigErr", "", "", "", "", ""},
	{"", "GenerateSharedSecret", "generateSharedSecret", true, "", "", "", "", "", ""},
	{"schnorr", "schnorrSign", "schnorrSign", false, "SchnorrErr", "(B : Bytes → Bytes)", "B", "", "", ""},
	{"schnorr", "schnorrVerify", "schnorrVerify", false, "SchnorrErr", "(B : Bytes → Bytes)", "B", "", "", ""},
	{"schnorr", "Sign", "schnorrSignRFC6979", false, "SchnorrErr", "(B : Bytes → Bytes)", "B", "", "", "16"},
	// second tranche
	{"", "NonceRFC6979", "nonceRFC6979", false, "Unit", "", "", "", "", "256"},
	{"", "generatePrivateKey", "generatePrivateKey", false, "IoErr", "", "", "", "", "rand.data.length / 32 + 1"},
	{"", "PrivKeyFromBytes", "privKeyFromBytes", true, "", "", "", "", "", ""},
	{"", "PrivateKey.PubKey", "pubKey", true, "", "", "", "", "", ""},
	{"", "Signature.ExportCompact", "exportCompact", true, "", "", "", "", "", ""},
	{"", "SignCompact", "signCompact", false, "Unit", "", "", "", "", ""},
	// third tranche: the endomorphism split, NAF recoding and the interleaved double-and-add loop
	{"", "splitK", "splitKGen", true, "", "", "", "", "", ""},
	{"", "naf", "nafGen", true, "", "", "", "", "", ""},
	{"", "ScalarMultNonConst", "scalarMultNonConst", true, "", "", "", "", "result", ""},
	// fourth tranche: the crypto/elliptic adaptor over big.Int
	{"", "bigAffineToJacobian", "bigAffineToJacobian", true, "", "", "", "", "result", ""},
	{"", "jacobianToBigAffine", "jacobianToBigAffine", true, "", "", "", "", "", ""},
	{"", "moduloReduce", "moduloReduce", true, "", "", "", "", "", ""},
	{"", "KoblitzCurve.IsOnCurve", "adaptorIsOnCurveGen", true, "", "", "", "", "", ""},
	{"", "KoblitzCurve.Add", "adaptorAddGen", true, "", "", "", "", "", ""},
	{"", "KoblitzCurve.Double", "adaptorDoubleGen", true, "", "", "", "", "", ""},
	{"", "KoblitzCurve.ScalarMult", "adaptorScalarMultGen", true, "", "", "", "", "", ""},
	{"", "KoblitzCurve.ScalarBaseMult", "adaptorScalarBaseMultGen", true, "", "", "", "", "", ""},
	{"", "PublicKey.X", "pubKeyX", true, "", "", "", "", "", ""},
	{"", "PublicKey.Y", "pubKeyY", true, "", "", "", "", "", ""},
	{"", "Signature.BruteforceRecoveryCode", "bruteforceRecoveryCode", false, "SigErr", "", "", "", "sig", "8"},
	// seventh tranche: the non-kernel wrappers of modnscalar.go / field.go (their kernels are T1)
	{"", "ModNScalar.Mul", "scalarMul", true, "", "", "", "", "s", ""},
	{"", "ModNScalar.Add", "scalarAdd", true, "", "", "", "", "s", ""},
	{"", "ModNScalar.Negate", "scalarNegate", true, "", "", "", "", "s", ""},
	{"", "ModNScalar.Square", "scalarSquare", true, "", "", "", "", "s", ""},
	{"", "ModNScalar.SquareVal", "scalarSquareVal", true, "", "", "", "", "s", ""},
	{"", "ModNScalar.Bytes", "scalarBytes", true, "", "", "", "", "", ""},
	{"", "ModNScalar.SetByteSlice", "scalarSetByteSliceGen", true, "", "", "", "", "s", ""},
	{"", "ModNScalar.InverseValNonConst", "scalarInverseValNonConst", true, "", "", "", "", "s", ""},
	{"", "ModNScalar.InverseNonConst", "scalarInverseNonConst", true, "", "", "", "", "s", ""},
	{"", "FieldVal.SetByteSlice", "fieldSetByteSliceGen", true, "", "", "", "", "f", ""},
	// ninth tranche: the resettable HMAC-SHA256 object (model: HmacObj, a Lean structure)
	{"", "hmacsha256.Write", "hmacWrite", true, "", "", "", "", "h", ""},
	{"", "hmacsha256.initKey", "hmacInitKey", true, "", "", "", "", "h", ""},
	{"", "hmacsha256.ResetKey", "hmacResetKey", true, "", "", "", "", "h", ""},
	{"", "hmacsha256.Reset", "hmacReset", true, "", "", "", "", "h", ""},
	{"", "hmacsha256.Sum", "hmacSum", true, "", "", "", "", "h", ""},
	{"", "newHMACSHA256", "hmacNewGen", true, "", "", "", "", "", ""},
	// fifth tranche: extended keys
	{"ecckd", "KeyVersion.IsPrivate", "versionIsPrivateGen", true, "", "", "", "", "", ""},
	{"ecckd", "KeyVersion.ToPublic", "versionToPublicGen", true, "", "", "", "", "", ""},
	{"ecckd", "ExtendedKey.UnmarshalBinary", "unmarshalBinary", false, "BipErr", "", "", "", "k", ""},
	// sixth tranche: child key derivation
	{"ecckd", "isEven", "isEvenGen", true, "", "", "", "", "", ""},
	{"ecckd", "serializeCompressedEcdsa", "serializeCompressedEcdsa", true, "", "", "", "", "", ""},
	{"ecckd", "ExtendedKey.pubKeyBytes", "pubKeyBytes", true, "", "", "", "", "", ""},
	{"ecckd", "ExtendedKey.ChildWithIL", "childWithILGen", false, "BipErr", "(O : Oracles)", "O", "", "", ""},
	// eighth tranche: thin exported front ends
	{"ecckd", "ExtendedKey.Child", "childGen", false, "BipErr", "(O : Oracles)", "O", "", "", ""},
	{"ecckd", "ExtendedKey.DeriveWithIL", "deriveWithILGen", false, "BipErr", "(O : Oracles)", "O", "", "", ""},
	{"ecckd", "ExtendedKey.Derive", "deriveGen", false, "BipErr", "(O : Oracles)", "O", "", "", ""},
	{"schnorr", "ParsePubKey", "schnorrParsePubKeyGen", false, "PubErr", "", "", "", "", ""},
	{"schnorr", "Signature.Verify", "schnorrVerifyBool", true, "", "(B : Bytes → Bytes)", "B", "", "", ""},
	{"ecckd", "FromSeed", "fromSeedGen", false, "BipErr", "(O : Oracles)", "O", "", "", ""},
	{"ecckd", "FromBitcoinSeed", "fromBitcoinSeedGen", false, "BipErr", "(O : Oracles)", "O", "", "", ""},
	{"ecckd", "ExtendedKey.Public", "publicGen", false, "BipErr", "", "", "", "", ""},
	{"ecckd", "FromPublicKey", "fromPublicKeyGen", false, "Unit", "", "", "", "", ""},
	{"ecckd", "ExtendedKey.ToPublicSecp256k1", "toPublicSecpGen", false, "PubErr", "", "", "", "", ""},
	{"", "PrivateKey.ECDH", "ecdhMethod", false, "Unit", "", "", "", "", ""},
	{"", "Signature.Export", "exportGen", true, "", "", "", "", "", ""},
	{"", "Sign", "signGen", false, "Unit", "", "", "", "", ""},
	{"", "GeneratePrivateKeyFromRand", "generatePrivateKeyFromRand", false, "IoErr", "", "", "", "", ""},
	{"", "RecoverCompact", "recoverCompact", false, "SigErr", "", "", "", "", ""},
	{"", "PrivateKey.Sign", "signerSign", false, "Unit", "", "", "rand", "", ""},
}

type d8 struct {
	pkgs         []*Pkg
	p            *Pkg
	err          error
	fn           string
	ent          *d8entry
	env          map[types.Object]*dloc
	known        map[types.Object]bool // statically known bools / err != nil
	scope        []string              // Lean variables in scope (root names), in order of introduction
	stype        map[string]string     // their Lean types
	wstack       []map[string]bool
	ntmp         int
	aux          []string // auxiliary top-level definitions (loops) emitted before the entry
	loopK        func(post func() *dnode) *dnode
	cont         func() *dnode // translation of `continue`
	results      *types.Tuple
	retK         func(vals []*dv) *dnode // inlined callee: what `return` does
	loopVar      map[types.Object]string // for-i loops: index variable → bound expression it stays below
	pv           map[string]string       // generated package-level byte constants (shared by all entries)
	errTerm      map[types.Object]string // error variables holding a run-time error value
	reader       string                  // root of the io.Reader parameter (its final state is part of every result)
	byteVars     map[string]bool         // integer variables that hold a byte (width 8)
	ghostNil     map[string]bool         // []byte parameters compared with nil: they get a Boolean companion parameter <name>IsNil
	isParam      map[string]bool
	ptrParam     map[string]bool   // parameters of pointer type
	outWritten   bool              // the out-parameter has been written
	namedRes     []types.Object    // named results of the function being translated
	pendingFacts [][2]string       // operands of a max(...) just evaluated: the variable it is assigned to exceeds both
	optResult    map[int]bool      // *big.Int results returned from a variable declared `var x *big.Int` (may be nil)
	extCopies    map[string]bool   // *ExtendedKey variables translated as values (no field writes allowed through them)
	stubOK       bool              // all parameters were understood (a typed stub can be emitted if the body fails)
	inFold       int               // depth of fold bodies being translated (no early exit possible there)
	facts        map[string]bool   // "a≥b": known order facts between integer terms (dominating guards, max idiom)
	lenDef       map[string]string // Lean variable defined as `<bytes term>.length`
}

func (d *d8) fail(n ast.Node, format string, a ...any) {
	if d.err == nil {
		d.err = fmt.Errorf("drivers %s: %s: %s", d.fn, d.p.pos(n), fmt.Sprintf(format, a...))
	}
}

func (d *d8) tmp(prefix string) string { d.ntmp++; return fmt.Sprintf("%s%d", prefix, d.ntmp) }

func (d *d8) declare(name, kind string) {
	if _, ok := d.stype[name]; !ok {
		d.scope = append(d.scope, name)
	}
	d.stype[name] = leanType[kind]
}

func (d *d8) wrote(root string) {
	if d.ent != nil && d.ent.out != "" && root == d.ent.out {
		d.outWritten = true
	}
	for _, w := range d.wstack {
		w[root] = true
	}
	// facts and length definitions that mention the rewritten variable are no longer known
	mentions := func(t string) bool {
		for _, f := range strings.FieldsFunc(t, func(r rune) bool {
			return !(r == '_' || r == '?' || (r >= '0' && r <= '9') || (r >= 'a' && r <= 'z') || (r >= 'A' && r <= 'Z'))
		}) {
			if f == root {
				return true
			}
		}
		return false
	}
	for f := range d.facts {
		if mentions(f) {
			delete(d.facts, f)
		}
	}
	for k, v := range d.lenDef {
		if k == root || mentions(v) {
			delete(d.lenDef, k)
		}
	}
}

func namedOf(t types.Type) (string, string) {
	if p, ok := t.(*types.Pointer); ok {
		t = p.Elem()
	}
	if n, ok := t.(*types.Named); ok {
		pk := ""
		if n.Obj().Pkg() != nil {
			pk = n.Obj().Pkg().Name()
		}
		return pk, n.Obj().Name()
	}
	return "", ""
}

func (d *d8) kindOf(t types.Type) (string, int) {
	if t == nil {
		return "", 0
	}
	if p, ok := t.(*types.Pointer); ok {
		return d.kindOf(p.Elem())
	}
	pk, nm := namedOf(t)
	switch nm {
	case "ModNScalar":
		return "scalar", 0
	case "FieldVal":
		return "field", 0
	case "JacobianPoint":
		return "point", 0
	case "PrivateKey":
		return "priv", 0
	case "nafScalar":
		return "naf", 0
	case "ExtendedKey":
		return "ext", 0
	case "SignOptions":
		return "sopt", 0
	case "SignerOpts":
		return "sopts", 0 // crypto.SignerOpts: `some (Format, Hash)` when the dynamic type is *SignOptions, `none` otherwise
	case "PublicKey":
		if pk == "ecdsa" {
			return "epub", 0
		}
		return "pub", 0
	case "Curve", "KoblitzCurve":
		return "curve", 0
	case "Int":
		if pk == "big" {
			return "big", 0 // math/big.Int: a natural (negative values are outside the model: C15's domain)
		}
	case "Signature":
		if pk == "schnorr" {
			return "ssig", 0
		}
		return "sig", 0
	case "error":
		return "err", 0
	case "hmacsha256":
		return "hmac", 0
	case "Hash":
		if pk == "hash" {
			return "hash", 0 // hash.Hash (always SHA-256 here): the bytes written since the last Reset
		}
	case "Reader":
		if pk == "io" {
			return "reader", 0
		}
	}
	switch u := t.Underlying().(type) {
	case *types.Basic:
		switch u.Kind() {
		case types.Bool, types.UntypedBool:
			return "bool", 0
		case types.Uint8:
			return "int", 8
		case types.Uint16:
			return "int", 16
		case types.Uint32:
			return "int", 32
		case types.Uint64:
			return "int", 64
		case types.Int, types.UntypedInt, types.Uint:
			return "int", 0
		}
	case *types.Slice:
		if isByteT(u.Elem()) {
			return "bytes", 0
		}
		if b, ok := u.Elem().Underlying().(*types.Basic); ok && b.Kind() == types.Uint32 {
			return "ints", 0
		}
	case *types.Array:
		if isByteT(u.Elem()) {
			return "bytes", 0
		}
	case *types.Interface:
		if t.String() == "error" {
			return "err", 0
		}
	}
	return "", 0
}

func (d *d8) constVal(e ast.Expr) (string, bool) {
	tv, ok := d.p.info.Types[e]
	if !ok || tv.Value == nil {
		return "", false
	}
	switch tv.Value.Kind() {
	case constant.Int:
		return tv.Value.ExactString(), true
	case constant.Bool:
		return tv.Value.String(), true
	}
	return "", false
}

func (d *d8) obj(id *ast.Ident) types.Object {
	if o := d.p.info.Uses[id]; o != nil {
		return o
	}
	return d.p.info.Defs[id]
}

// ---------------------------------------------------------------- expressions

// lvalue: the location an expression denotes (x, *p, p (pointer), x.f, &x, x[:], x[lo:hi], new(T))
func (d *d8) lvalue(e ast.Expr, pre *[]*dnode) *dloc {
	switch x := e.(type) {
	case *ast.ParenExpr:
		return d.lvalue(x.X, pre)
	case *ast.Ident:
		if l, ok := d.env[d.obj(x)]; ok {
			d.aliasHazard(x, l)
			return l
		}
		// package-level variables used as read-only constants
		if x.Name == "orderAsFieldVal" {
			return &dloc{root: "N", kind: "field"}
		}
		if nm := d.pkgBytes(x); nm != "" {
			return &dloc{root: nm, kind: "bytes"}
		}
		if o, ok := d.obj(x).(*types.Var); ok && o.Pkg() != nil && o.Parent() == o.Pkg().Scope() {
			if k, _ := d.kindOf(o.Type()); k == "big" {
				if c := d.pkgBigConst(x.Name, o); c != "" {
					return &dloc{root: c, kind: "big", ro: true}
				}
			}
		}
		// the endomorphism constants (regenerated by pass T3 into Gen/Consts, wrapped by Model/ScalarMult)
		switch x.Name {
		case "endoZ1", "endoZ2", "endoNegB1", "endoNegB2", "endoNegLambda":
			if o, ok := d.obj(x).(*types.Var); ok && o.Parent() == o.Pkg().Scope() {
				return &dloc{root: x.Name, kind: "scalar", ro: true}
			}
		case "endoBeta":
			if o, ok := d.obj(x).(*types.Var); ok && o.Parent() == o.Pkg().Scope() {
				return &dloc{root: x.Name, kind: "field", ro: true}
			}
		}
	case *ast.StarExpr:
		return d.lvalue(x.X, pre)
	case *ast.UnaryExpr:
		if x.Op == token.AND {
			return d.lvalue(x.X, pre)
		}
	case *ast.SelectorExpr:
		if call, ok := x.X.(*ast.CallExpr); ok && (x.Sel.Name == "N" || x.Sel.Name == "P") {
			// secp256k1.S256().N, curve.Params().N : the group order / field prime (pass T3 checks the literals)
			name := ""
			switch f := call.Fun.(type) {
			case *ast.SelectorExpr:
				name = f.Sel.Name
			case *ast.Ident:
				name = f.Name
			}
			if name == "S256" || name == "Params" {
				return &dloc{root: x.Sel.Name, kind: "big", ro: true}
			}
		}
		if id, ok := x.X.(*ast.Ident); ok && id.Name == "curveParams" {
			// the curve parameters (checked against the Lean constants by pass T3)
			switch x.Sel.Name {
			case "N":
				return &dloc{root: "N", kind: "big", ro: true}
			case "P":
				return &dloc{root: "P", kind: "big", ro: true}
			case "ByteSize":
				// the constant the source initialises the field with (ByteSize: 256 / 8)
				if v := d.pkgStructFieldConst("curveParams", "ByteSize"); v != "" {
					return &dloc{root: v, kind: "int", ro: true}
				}
			}
		}
		base := d.lvalue(x.X, pre)
		if base == nil {
			return nil
		}
		fs, ok := structFields[base.kind]
		if !ok {
			break
		}
		for i, f := range fs {
			if f.name == x.Sel.Name {
				names := append([]string{}, base.names...)
				for len(names) < len(base.path)/2 {
					names = append(names, "")
				}
				if recordKinds[base.kind] {
					names = append(names, f.name)
				} else {
					names = append(names, "")
				}
				return &dloc{root: base.root, path: append(append([]int{}, base.path...), i, len(fs)), kind: f.kind, names: names}
			}
		}
	case *ast.CompositeLit:
		v := d.composite(x, pre)
		if leanType[v.kind] != "" {
			nm := d.tmp("lit")
			*pre = append(*pre, &dnode{kind: "let", name: nm, term: v.term})
			d.declare(nm, v.kind)
			return &dloc{root: nm, kind: v.kind}
		}
	case *ast.IndexExpr:
		if v := d.expr(x, pre); v.loc != nil {
			return v.loc
		}
	case *ast.SliceExpr:
		base := d.lvalue(x.X, pre)
		if base == nil || base.kind != "bytes" || base.lo != "" || x.Max != nil {
			break
		}
		if x.Low == nil && x.High == nil {
			return base
		}
		lo, hi := "0", ""
		if x.Low != nil {
			lo = d.intTerm(x.Low, pre)
		}
		if x.High != nil {
			hi = d.intTerm(x.High, pre)
		}
		return &dloc{root: base.root, path: base.path, names: base.names, kind: "bytes", lo: lo, hi: hi}
	case *ast.CallExpr:
		if id, ok := x.Fun.(*ast.Ident); ok && id.Name == "new" && len(x.Args) == 1 {
			k, _ := d.kindOf(d.p.info.Types[x.Args[0]].Type)
			if z, ok := d.zeroTerm(d.p.info.Types[x.Args[0]].Type, k); ok {
				nm := d.tmp("t")
				*pre = append(*pre, &dnode{kind: "let", name: nm, term: z})
				d.declare(nm, k)
				return &dloc{root: nm, kind: k}
			}
		}
		// a call returning a pointer (method chaining, constructors): evaluate, then the location it returns
		v := d.call(x, pre)
		if v != nil && v.loc != nil {
			return v.loc
		}
		if v != nil && v.term != "" && leanType[v.kind] != "" {
			nm := d.tmp("t")
			*pre = append(*pre, &dnode{kind: "let", name: nm, term: v.term})
			d.declare(nm, v.kind)
			return &dloc{root: nm, kind: v.kind}
		}
	}
	if se, ok := e.(*ast.SelectorExpr); ok {
		d.fail(e, "selector .%s is not a location of the T8 subset", se.Sel.Name)
	}
	d.fail(e, "expression %T is not a location of the T8 subset", e)
	return &dloc{root: "0", kind: "int"}
}

// pkgBytes: a package-level []byte / [N]byte variable with a constant initialiser ([]byte{…}, [N]byte{…},
// bytes.Repeat([]byte{c}, n)) → a generated definition `pv_<name>`; that nothing writes these variables is C17 (T6)
func (d *d8) pkgBytes(id *ast.Ident) string {
	o, ok := d.obj(id).(*types.Var)
	if !ok || o.Parent() != o.Pkg().Scope() {
		return ""
	}
	if k, _ := d.kindOf(o.Type()); k != "bytes" {
		return ""
	}
	name := "pv_" + id.Name
	if _, done := d.pv[name]; done {
		return name
	}
	for _, p := range d.pkgs {
		if p.pkg.Path() != o.Pkg().Path() {
			continue
		}
		for _, f := range p.files {
			for _, dcl := range f.Decls {
				gd, ok := dcl.(*ast.GenDecl)
				if !ok || gd.Tok != token.VAR {
					continue
				}
				for _, sp := range gd.Specs {
					vs := sp.(*ast.ValueSpec)
					for i, nm := range vs.Names {
						if nm.Name != id.Name || i >= len(vs.Values) {
							continue
						}
						elems := func(cl *ast.CompositeLit) ([]string, bool) {
							var out []string
							for _, el := range cl.Elts {
								tv, ok := p.info.Types[el]
								if !ok || tv.Value == nil {
									return nil, false
								}
								out = append(out, tv.Value.ExactString())
							}
							return out, true
						}
						switch v := vs.Values[i].(type) {
						case *ast.CompositeLit:
							if es, ok := elems(v); ok {
								d.pv[name] = "[" + strings.Join(es, ", ") + "]"
								return name
							}
						case *ast.CallExpr:
							if sel, ok := v.Fun.(*ast.SelectorExpr); ok && sel.Sel.Name == "Repeat" && len(v.Args) == 2 {
								if cl, ok := v.Args[0].(*ast.CompositeLit); ok {
									es, ok1 := elems(cl)
									tv, ok2 := p.info.Types[v.Args[1]]
									if ok1 && len(es) == 1 && ok2 && tv.Value != nil {
										d.pv[name] = "List.replicate " + tv.Value.ExactString() + " " + es[0]
										return name
									}
								}
							}
						}
					}
				}
			}
		}
	}
	return ""
}

// aliasHazard: the translation gives every pointer parameter its own value.  That is the Go semantics only if the caller
// passes distinct objects — or if the function has finished reading a parameter before it first writes the out-parameter
// of the same type (then `f(k, p, p)` behaves like `f(k, p, r)`).  A read of such a parameter AFTER the out-parameter was
// written would make the result depend on aliasing: rejected.
func (d *d8) aliasHazard(n ast.Node, l *dloc) {
	if d.ent == nil || d.ent.out == "" || !d.outWritten || l.root == d.ent.out || !d.isParam[l.root] {
		return
	}
	if out, ok := d.stype[d.ent.out]; ok && d.stype[l.root] == out && isPointerParam(d, l.root) {
		d.fail(n, "parameter %s is read after the out-parameter %s was written (the result would depend on whether the caller aliases them)", l.root, d.ent.out)
	}
}

func isPointerParam(d *d8, name string) bool { return d.ptrParam[name] }

// pkgStructFieldConst: the constant a package-level struct variable's field is initialised with (var v = T{…, f: c, …})
func (d *d8) pkgStructFieldConst(varName, field string) string {
	for _, p := range d.pkgs {
		if p.pkg.Path() != d.p.pkg.Path() {
			continue
		}
		for _, f := range p.files {
			for _, dcl := range f.Decls {
				gd, ok := dcl.(*ast.GenDecl)
				if !ok || gd.Tok != token.VAR {
					continue
				}
				for _, sp := range gd.Specs {
					vs := sp.(*ast.ValueSpec)
					for i, nm := range vs.Names {
						if nm.Name != varName || i >= len(vs.Values) {
							continue
						}
						cl, ok := vs.Values[i].(*ast.CompositeLit)
						if !ok {
							return ""
						}
						for _, el := range cl.Elts {
							if kv, ok := el.(*ast.KeyValueExpr); ok {
								if k, ok := kv.Key.(*ast.Ident); ok && k.Name == field {
									if tv, ok := p.info.Types[kv.Value]; ok && tv.Value != nil && tv.Value.Kind() == constant.Int {
										return tv.Value.ExactString()
									}
								}
							}
						}
					}
				}
			}
		}
	}
	return ""
}

// pkgBigConst: a package-level `var x = big.NewInt(c)` → c
func (d *d8) pkgBigConst(name string, o *types.Var) string {
	for _, p := range d.pkgs {
		if p.pkg.Path() != o.Pkg().Path() {
			continue
		}
		for _, f := range p.files {
			for _, dcl := range f.Decls {
				gd, ok := dcl.(*ast.GenDecl)
				if !ok || gd.Tok != token.VAR {
					continue
				}
				for _, sp := range gd.Specs {
					vs := sp.(*ast.ValueSpec)
					for i, nm := range vs.Names {
						if nm.Name != name || i >= len(vs.Values) {
							continue
						}
						if call, ok := vs.Values[i].(*ast.CallExpr); ok && len(call.Args) == 1 {
							if sel, ok := call.Fun.(*ast.SelectorExpr); ok && sel.Sel.Name == "NewInt" {
								if tv, ok := p.info.Types[call.Args[0]]; ok && tv.Value != nil {
									return tv.Value.ExactString()
								}
							}
						}
					}
				}
			}
		}
	}
	return ""
}

func (d *d8) write(l *dloc, v string, pre *[]*dnode) {
	if d.extCopies[l.root] && len(l.path) > 0 {
		d.fail(d8nil(), "field write through an *ExtendedKey variable that was translated as a value")
		return
	}
	if l.ro {
		d.fail(d8nil(), "write to the package-level constant %s", l.root)
		return
	}
	if l.lo != "" {
		d.fail(d8nil(), "write to a sub-slice outside copy/PutBytes")
		return
	}
	*pre = append(*pre, &dnode{kind: "let", name: l.root, term: l.rebuild(v)})
	d.wrote(l.root)
}

type nilNode struct{}

func (nilNode) Pos() token.Pos { return token.NoPos }
func (nilNode) End() token.Pos { return token.NoPos }
func d8nil() ast.Node          { return nilNode{} }

// writeBytesAt: store v (a byte string) at the start of the (sub-slice) location, n = number of bytes written
func (d *d8) writeBytesAt(l *dloc, v, n string, pre *[]*dnode) {
	base := &dloc{root: l.root, path: l.path, names: l.names, kind: "bytes"}
	cur := base.read()
	lo := l.lo
	if lo == "" {
		lo = "0"
	}
	nv := fmt.Sprintf("(%s.take %s ++ (%s).take %s ++ %s.drop (%s + %s))", cur, lo, v, n, cur, lo, n)
	*pre = append(*pre, &dnode{kind: "let", name: l.root, term: base.rebuild(nv)})
	d.wrote(l.root)
}

func pow2(width int) string {
	switch width {
	case 8:
		return "256"
	case 16:
		return "65536"
	case 32:
		return "4294967296"
	case 64:
		return "18446744073709551616"
	}
	return "0"
}

func wrapW(term string, width int) string {
	if width == 0 {
		return term
	}
	return "(" + term + " % " + pow2(width) + ")"
}

func (d *d8) intTerm(e ast.Expr, pre *[]*dnode) string {
	v := d.expr(e, pre)
	if v.kind != "int" {
		d.fail(e, "integer expression expected, got %s", v.kind)
	}
	return v.term
}

func boolPtr(b bool) *bool { return &b }

// expr: the value of an expression; effects (calls that mutate) are appended to pre
func (d *d8) expr(e ast.Expr, pre *[]*dnode) *dv {
	if d.err != nil {
		return &dv{kind: "int", term: "0"}
	}
	if c, ok := d.constVal(e); ok {
		k, w := d.kindOf(d.p.info.Types[e].Type)
		if k == "bool" {
			return &dv{kind: "bool", term: c, known: boolPtr(c == "true")}
		}
		return &dv{kind: "int", term: c, width: w}
	}
	switch x := e.(type) {
	case *ast.ParenExpr:
		return d.expr(x.X, pre)
	case *ast.Ident:
		if x.Name == "nil" {
			return &dv{kind: "nil"}
		}
		o := d.obj(x)
		if l, ok := d.env[o]; ok {
			v := &dv{kind: l.kind, term: l.read(), loc: l}
			if l.kind == "int" {
				_, v.width = d.kindOf(o.Type())
			}
			if kn, ok := d.known[o]; ok {
				v.known = boolPtr(kn)
			}
			return v
		}
		if l := d.lvalue(x, pre); l != nil {
			return &dv{kind: l.kind, term: l.read(), loc: l}
		}
	case *ast.StarExpr:
		l := d.lvalue(x.X, pre)
		return &dv{kind: l.kind, term: l.read(), loc: l}
	case *ast.SelectorExpr:
		l := d.lvalue(x, pre)
		v := &dv{kind: l.kind, term: l.read(), loc: l}
		if l.kind == "int" {
			_, v.width = d.kindOf(d.p.info.Types[e].Type)
		}
		return v
	case *ast.SliceExpr:
		l := d.lvalue(x, pre)
		return &dv{kind: "bytes", term: l.read(), loc: l}
	case *ast.IndexExpr:
		// b[i] with i the index variable of an enclosing `for i := 0; i < len(b); i++`
		if id, ok := x.Index.(*ast.Ident); ok {
			if bound, ok := d.loopVar[d.obj(id)]; ok {
				base := d.expr(x.X, pre)
				inRange := bound == base.term+".length"
				if arr, ok := d.p.info.Types[x.X].Type.Underlying().(*types.Array); ok && bound == fmt.Sprint(arr.Len()) {
					inRange = true // the array's length is a constant and the loop runs below it
				}
				if base.kind == "bytes" && inRange {
					return &dv{kind: "int", term: "(" + base.term + ".getD " + id.Name + " 0).toNat", width: 8}
				}
				if base.kind == "table" {
					return &dv{kind: "tablerow", term: id.Name}
				}
			}
		}
		base := d.expr(x.X, pre)
		if base.kind == "bytes" {
			// b[i] with a computed index (an index outside the slice would panic in Go; not modelled: see DESIGN)
			i := d.intTerm(x.Index, pre)
			return &dv{kind: "int", term: "(" + base.term + ".getD " + i + " 0).toNat", width: 8}
		}
		if base.kind == "tablerow" {
			j := d.intTerm(x.Index, pre)
			nm := d.tmp("pt")
			*pre = append(*pre, &dnode{kind: "let", name: nm, term: "tablePoint " + base.term + " " + j})
			d.declare(nm, "point")
			return &dv{kind: "point", term: nm, loc: &dloc{root: nm, kind: "point"}}
		}
	case *ast.UnaryExpr:
		switch x.Op {
		case token.AND:
			if cl, ok := x.X.(*ast.CompositeLit); ok {
				return d.composite(cl, pre)
			}
			l := d.lvalue(x.X, pre)
			return &dv{kind: l.kind, term: l.read(), loc: l}
		case token.NOT:
			v := d.expr(x.X, pre)
			r := &dv{kind: "bool", term: "(!" + v.term + ")"}
			if v.known != nil {
				r.known = boolPtr(!*v.known)
			}
			return r
		}
	case *ast.CompositeLit:
		return d.composite(x, pre)
	case *ast.BinaryExpr:
		return d.binary(x, pre)
	case *ast.CallExpr:
		return d.call(x, pre)
	}
	d.fail(e, "expression %T outside the T8 subset", e)
	return &dv{kind: "int", term: "0"}
}

func (d *d8) composite(cl *ast.CompositeLit, pre *[]*dnode) *dv {
	k, _ := d.kindOf(d.p.info.Types[cl].Type)
	if k == "bytes" { // [N]byte{…} / []byte{…} with constant elements
		var es []string
		for _, el := range cl.Elts {
			c, ok := d.constVal(el)
			if !ok {
				d.fail(cl, "byte literal with a computed element")
				break
			}
			es = append(es, c)
		}
		if arr, isArr := d.p.info.Types[cl].Type.Underlying().(*types.Array); isArr && int(arr.Len()) != len(es) {
			d.fail(cl, "array literal shorter than its type")
		}
		return &dv{kind: "bytes", term: "([" + strings.Join(es, ", ") + "] : Bytes)"}
	}
	fs, ok := structFields[k]
	keyed := true // T{} and T{k: v, …}: fields not mentioned are zero
	for _, el := range cl.Elts {
		if _, isKV := el.(*ast.KeyValueExpr); !isKV {
			keyed = false
		}
	}
	if !ok || (!keyed && len(cl.Elts) != len(fs)) {
		d.fail(cl, "composite literal of kind %q", k)
		return &dv{kind: "int", term: "0"}
	}
	parts := make([]string, len(fs))
	if keyed { // fields not mentioned get their zero value
		st, _ := d.p.info.Types[cl].Type.Underlying().(*types.Struct)
		for j, f := range fs {
			switch f.kind {
			case "bytes":
				parts[j] = "([] : Bytes)"
				if st != nil {
					for q := 0; q < st.NumFields(); q++ {
						if st.Field(q).Name() == f.name {
							if arr, isArr := st.Field(q).Type().Underlying().(*types.Array); isArr {
								parts[j] = fmt.Sprintf("(List.replicate %d (0 : UInt8))", arr.Len())
							}
						}
					}
				}
			case "curve":
				parts[j] = "()"
			default:
				parts[j] = zeroOf[f.kind]
			}
		}
	}
	for i, el := range cl.Elts {
		if kv, ok := el.(*ast.KeyValueExpr); ok {
			el = kv.Value
			found := false
			for j, f := range fs {
				if id, ok := kv.Key.(*ast.Ident); ok && id.Name == f.name {
					parts[j] = d.expr(el, pre).term
					found = true
				}
			}
			if !found {
				d.fail(cl, "unknown field in composite literal")
			}
			continue
		}
		parts[i] = d.expr(el, pre).term
	}
	return &dv{kind: k, term: "(" + strings.Join(parts, ", ") + ")"}
}

func (d *d8) binary(x *ast.BinaryExpr, pre *[]*dnode) *dv {
	_, w := d.kindOf(d.p.info.Types[x].Type)
	switch x.Op {
	case token.LAND, token.LOR:
		l := d.expr(x.X, pre)
		var pre2 []*dnode
		r := d.expr(x.Y, &pre2)
		if len(pre2) > 0 {
			d.fail(x, "effects on the right of && / ||")
		}
		op := map[token.Token]string{token.LAND: "&&", token.LOR: "||"}[x.Op]
		return &dv{kind: "bool", term: "(" + l.term + " " + op + " " + r.term + ")"}
	case token.EQL, token.NEQ:
		if t := d.cmpPattern(x, pre); t != "" {
			return &dv{kind: "bool", term: t}
		}
		if call, ok := x.X.(*ast.CallExpr); ok {
			if nl, ok := x.Y.(*ast.Ident); ok && nl.Name == "nil" {
				if fn, _ := d.callee(call); fn != nil && d.isFallibleEntry(fn) && fn.Type().(*types.Signature).Results().Len() == 1 {
					// entry(...) == nil : the entry returns only an error
					v := d.expr(call, pre)
					t, f := "true", "false"
					if x.Op == token.NEQ {
						t, f = f, t
					}
					return &dv{kind: "bool", term: "(match " + v.term + " with | .ok _ => " + t + " | _ => " + f + ")"}
				}
			}
		}
		l, r := d.expr(x.X, pre), d.expr(x.Y, pre)
		if (l.kind == "bytes" && r.kind == "nil") || (r.kind == "bytes" && l.kind == "nil") {
			e := l
			if l.kind == "nil" {
				e = r
			}
			if e.loc == nil || len(e.loc.path) != 0 || e.loc.lo != "" || !d.isParam[e.loc.root] {
				d.fail(x, "nil test on a byte slice that is not a parameter")
				return &dv{kind: "bool", term: "false"}
			}
			d.ghostNil[e.loc.root] = true
			if x.Op == token.EQL {
				return &dv{kind: "bool", term: e.loc.root + "IsNil"}
			}
			return &dv{kind: "bool", term: "(!" + e.loc.root + "IsNil)"}
		}
		if (l.kind == "obig" && r.kind == "nil") || (r.kind == "obig" && l.kind == "nil") {
			e := l
			if l.kind == "nil" {
				e = r
			}
			if x.Op == token.EQL {
				return &dv{kind: "bool", term: e.term + ".isNone"}
			}
			return &dv{kind: "bool", term: e.term + ".isSome"}
		}
		if l.kind == "err" || r.kind == "err" || l.kind == "nil" || r.kind == "nil" {
			e := l
			if l.kind == "nil" {
				e = r
			}
			if e.known == nil {
				d.fail(x, "comparison of an error value whose state is not statically known")
				return &dv{kind: "bool", term: "false"}
			}
			nn := *e.known // non-nil
			if x.Op == token.EQL {
				nn = !nn
			}
			return &dv{kind: "bool", term: fmt.Sprint(nn), known: boolPtr(nn)}
		}
		op := "=="
		if x.Op == token.NEQ {
			op = "!="
		}
		return &dv{kind: "bool", term: "(" + l.term + " " + op + " " + r.term + ")"}
	case token.LSS, token.LEQ, token.GTR, token.GEQ:
		if t := d.cmpPattern(x, pre); t != "" {
			return &dv{kind: "bool", term: t}
		}
		l, r := d.intTerm(x.X, pre), d.intTerm(x.Y, pre)
		op := map[token.Token]string{token.LSS: "<", token.LEQ: "≤", token.GTR: ">", token.GEQ: "≥"}[x.Op]
		return &dv{kind: "bool", term: "decide (" + l + " " + op + " " + r + ")"}
	case token.ADD:
		return &dv{kind: "int", term: wrapW("("+d.intTerm(x.X, pre)+" + "+d.intTerm(x.Y, pre)+")", w), width: w}
	case token.SUB:
		// Go's int may go negative, ℕ cannot: the result is guarded, `.undef` marks the assumption failing
		l, r := d.intTerm(x.X, pre), d.intTerm(x.Y, pre)
		if w != 0 { // unsigned sized type: exact modular subtraction
			return &dv{kind: "int", term: "((" + l + " + " + pow2(w) + " - " + r + ") % " + pow2(w) + ")", width: w}
		}
		if d.facts[l+"≥"+r] {
			return &dv{kind: "int", term: "(" + l + " - " + r + ")"}
		}
		if d.ent.total || d.inFold > 0 {
			d.fail(x, "int subtraction %s - %s that no dominating guard keeps non-negative (total entry / loop body)", l, r)
		}
		*pre = append(*pre, &dnode{kind: "guard", term: "decide (" + l + " < " + r + ")", name: d.rtTerm(".undef")})
		return &dv{kind: "int", term: "(" + l + " - " + r + ")"}
	case token.MUL:
		return &dv{kind: "int", term: wrapW("("+d.intTerm(x.X, pre)+" * "+d.intTerm(x.Y, pre)+")", w), width: w}
	case token.SHL:
		return &dv{kind: "int", term: wrapW("("+d.intTerm(x.X, pre)+" <<< "+d.intTerm(x.Y, pre)+")", w), width: w}
	case token.SHR:
		return &dv{kind: "int", term: "(" + d.intTerm(x.X, pre) + " >>> " + d.intTerm(x.Y, pre) + ")", width: w}
	case token.AND:
		return &dv{kind: "int", term: "(" + d.intTerm(x.X, pre) + " &&& " + d.intTerm(x.Y, pre) + ")", width: w}
	case token.OR:
		return &dv{kind: "int", term: "(" + d.intTerm(x.X, pre) + " ||| " + d.intTerm(x.Y, pre) + ")", width: w}
	case token.XOR:
		return &dv{kind: "int", term: "(" + d.intTerm(x.X, pre) + " ^^^ " + d.intTerm(x.Y, pre) + ")", width: w}
	}
	d.fail(x, "binary operator %s outside the T8 subset", x.Op)
	return &dv{kind: "int", term: "0"}
}

// cmpPattern: `a.Cmp(b) <op> 0` on math/big integers → the comparison itself
func (d *d8) cmpPattern(x *ast.BinaryExpr, pre *[]*dnode) string {
	call, ok := x.X.(*ast.CallExpr)
	if !ok || len(call.Args) != 1 {
		return ""
	}
	sel, ok := call.Fun.(*ast.SelectorExpr)
	if !ok || sel.Sel.Name != "Cmp" {
		return ""
	}
	if k, _ := d.kindOf(d.p.info.Types[sel.X].Type); k != "big" {
		return ""
	}
	if c, ok := d.constVal(x.Y); !ok || c != "0" {
		return ""
	}
	a, b := d.expr(sel.X, pre).term, d.expr(call.Args[0], pre).term
	switch x.Op {
	case token.EQL:
		return "(" + a + " == " + b + ")"
	case token.NEQ:
		return "(" + a + " != " + b + ")"
	}
	op := map[token.Token]string{token.LSS: "<", token.LEQ: "≤", token.GTR: ">", token.GEQ: "≥"}[x.Op]
	return "decide (" + a + " " + op + " " + b + ")"
}

// ---------------------------------------------------------------- calls

func (d *d8) errKind(call *ast.CallExpr) string {
	id, ok := call.Fun.(*ast.Ident)
	if !ok || (id.Name != "signatureError" && id.Name != "makeError") || len(call.Args) < 1 {
		return ""
	}
	switch k := call.Args[0].(type) {
	case *ast.Ident:
		return k.Name
	case *ast.SelectorExpr:
		return k.Sel.Name
	}
	return ""
}

func (d *d8) findFunc(fn *types.Func) (*Pkg, *ast.FuncDecl) {
	sig := fn.Type().(*types.Signature)
	key := fn.Name()
	if sig.Recv() != nil {
		_, tn := namedOf(sig.Recv().Type())
		key = tn + "." + fn.Name()
	}
	for _, p := range d.pkgs {
		if fn.Pkg() != nil && p.pkg.Path() == fn.Pkg().Path() {
			if fd, ok := p.funcs[key]; ok {
				return p, fd
			}
		}
	}
	return nil, nil
}

func (d *d8) callee(x *ast.CallExpr) (*types.Func, ast.Expr) {
	switch f := x.Fun.(type) {
	case *ast.Ident:
		if fn, ok := d.p.info.Uses[f].(*types.Func); ok {
			return fn, nil
		}
	case *ast.SelectorExpr:
		if sel, ok := d.p.info.Selections[f]; ok {
			if fn, ok := sel.Obj().(*types.Func); ok {
				return fn, f.X
			}
		}
		if fn, ok := d.p.info.Uses[f.Sel].(*types.Func); ok {
			return fn, nil // package-qualified function
		}
	}
	return nil, nil
}

func (d *d8) call(x *ast.CallExpr, pre *[]*dnode) *dv {
	if d.err != nil {
		return &dv{kind: "int", term: "0"}
	}
	// conversions and builtins
	if id, ok := x.Fun.(*ast.Ident); ok {
		switch id.Name {
		case "byte", "uint8", "uint16", "uint32", "uint64", "int":
			if _, isType := d.p.info.Uses[id].(*types.TypeName); isType && len(x.Args) == 1 {
				v := d.expr(x.Args[0], pre)
				_, w := d.kindOf(d.p.info.Types[x].Type)
				if v.kind != "int" {
					d.fail(x, "conversion of a %s", v.kind)
				}
				if v.width != 0 && (w == 0 || w >= v.width) {
					return &dv{kind: "int", term: v.term, width: w}
				}
				return &dv{kind: "int", term: wrapW(v.term, w), width: w}
			}
		case "len":
			v := d.expr(x.Args[0], pre)
			return &dv{kind: "int", term: v.term + ".length"}
		case "copy":
			dst := d.lvalue(x.Args[0], pre)
			src := d.expr(x.Args[1], pre)
			n := d.tmp("n")
			*pre = append(*pre, &dnode{kind: "let", name: n, term: "min " + dst.read() + ".length " + src.term + ".length"})
			d.declare(n, "int")
			d.writeBytesAt(dst, src.term, n, pre)
			return &dv{kind: "int", term: n}
		case "panic":
			return &dv{kind: "panic"}
		case "max", "min":
			if _, isBuiltin := d.p.info.Uses[id].(*types.Builtin); isBuiltin && len(x.Args) == 2 {
				a, b := d.intTerm(x.Args[0], pre), d.intTerm(x.Args[1], pre)
				_, w := d.kindOf(d.p.info.Types[x].Type)
				if id.Name == "max" {
					d.pendingFacts = append(d.pendingFacts, [2]string{a, b})
				}
				return &dv{kind: "int", term: "(" + id.Name + " " + a + " " + b + ")", width: w}
			}
		case "new":
			l := d.lvalue(x, pre)
			return &dv{kind: l.kind, term: l.read(), loc: l}
		case "make":
			if k, _ := d.kindOf(d.p.info.Types[x].Type); k == "bytes" && len(x.Args) >= 2 {
				return &dv{kind: "bytes", term: "(List.replicate (" + d.intTerm(x.Args[1], pre) + ") (0 : UInt8))"}
			}
		case "append":
			// value semantics: the result is the concatenation (sharing of a backing array is not modelled: see DESIGN)
			if len(x.Args) == 2 {
				var a *dv
				if conv, ok := x.Args[0].(*ast.CallExpr); ok && len(conv.Args) == 1 {
					if nl, ok := conv.Args[0].(*ast.Ident); ok && nl.Name == "nil" {
						a = &dv{kind: "bytes", term: "([] : Bytes)"}
					}
				}
				if a == nil {
					a = d.expr(x.Args[0], pre)
				}
				b := d.expr(x.Args[1], pre)
				if a.kind == "bytes" && x.Ellipsis.IsValid() && b.kind == "bytes" {
					if a.term == "([] : Bytes)" {
						return &dv{kind: "bytes", term: b.term}
					}
					return &dv{kind: "bytes", term: "(" + a.term + " ++ " + b.term + ")"}
				}
				if a.kind == "bytes" && !x.Ellipsis.IsValid() && b.kind == "int" && b.width == 8 {
					return &dv{kind: "bytes", term: "(" + a.term + " ++ [UInt8.ofNat " + b.term + "])"}
				}
			}
		}
	}
	if sel, ok := x.Fun.(*ast.SelectorExpr); ok {
		if pk, ok := sel.X.(*ast.Ident); ok {
			if _, isPkg := d.p.info.Uses[pk].(*types.PkgName); isPkg {
				switch pk.Name + "." + sel.Sel.Name {
				case "bytes.Equal":
					return &dv{kind: "bool", term: "(" + d.expr(x.Args[0], pre).term + " == " + d.expr(x.Args[1], pre).term + ")"}
				case "secp256k1.S256":
					return &dv{kind: "curve", term: "()"}
				case "sha256.New":
					return &dv{kind: "hash", term: "([] : Bytes)"}
				}
			}
		}
		if inner, ok := sel.X.(*ast.SelectorExpr); ok && sel.Sel.Name == "PutUint32" && inner.Sel.Name == "BigEndian" {
			dst := d.lvalue(x.Args[0], pre)
			d.writeBytesAt(dst, "beBytes 4 "+d.intTerm(x.Args[1], pre), "4", pre)
			return &dv{kind: "unit"}
		}
		// binary.BigEndian.Uint32(b)
		if inner, ok := sel.X.(*ast.SelectorExpr); ok && sel.Sel.Name == "Uint32" && inner.Sel.Name == "BigEndian" {
			return &dv{kind: "int", term: "beNat (" + d.expr(x.Args[0], pre).term + ".take 4)", width: 32}
		}
	}
	if at, ok := x.Fun.(*ast.ArrayType); ok && at.Len == nil && len(x.Args) == 1 {
		// []byte("constant string")
		if tv, ok := d.p.info.Types[x.Args[0]]; ok && tv.Value != nil && tv.Value.Kind() == constant.String {
			var es []string
			for _, b := range []byte(constant.StringVal(tv.Value)) {
				es = append(es, fmt.Sprint(b))
			}
			return &dv{kind: "bytes", term: "([" + strings.Join(es, ", ") + "] : Bytes)"}
		}
	}
	if id, ok := x.Fun.(*ast.Ident); ok && id.Name == "s256BytePoints" && len(x.Args) == 0 {
		return &dv{kind: "table"} // the decoded base-point table (Gen/Table, C03's table theorem)
	}
	fn, recvX := d.callee(x)
	if fn == nil {
		d.fail(x, "call target outside the T8 subset")
		return &dv{kind: "int", term: "0"}
	}
	sig := fn.Type().(*types.Signature)
	name := fn.Name()
	rk := ""
	if sig.Recv() != nil {
		_, tn := namedOf(sig.Recv().Type())
		name = tn + "." + fn.Name()
		rk, _ = d.kindOf(sig.Recv().Type())
	}
	if rk == "" && recvX != nil {
		rk, _ = d.kindOf(d.p.info.Types[recvX].Type) // an interface method: the kind of the object it is called on
	}
	arg := func(i int) *dv { return d.expr(x.Args[i], pre) }
	argLoc := func(i int) *dloc { return d.lvalue(x.Args[i], pre) }
	var recv *dloc
	if recvX != nil && (rk == "scalar" || rk == "field" || rk == "point" || rk == "hmac" || rk == "naf" || rk == "big" || rk == "hash" || rk == "obig") {
		recv = d.lvalue(recvX, pre)
	}
	set := func(l *dloc, v string) *dv {
		d.write(l, v, pre)
		return &dv{kind: l.kind, term: l.read(), loc: l}
	}
	bytesArg := func(i int) string { return arg(i).term }
	switch name {
	// ---- ModNScalar
	case "ModNScalar.IsZero", "FieldVal.IsZero":
		return &dv{kind: "bool", term: "(" + recv.read() + " == 0)"}
	case "ModNScalar.Mul2":
		return set(recv, "nmul "+arg(0).term+" "+arg(1).term)
	case "ModNScalar.Mul":
		return set(recv, "nmul "+recv.read()+" "+arg(0).term)
	case "ModNScalar.Add":
		return set(recv, "nadd "+recv.read()+" "+arg(0).term)
	case "ModNScalar.Add2":
		return set(recv, "nadd "+arg(0).term+" "+arg(1).term)
	case "ModNScalar.Negate":
		return set(recv, "nneg "+recv.read())
	case "ModNScalar.NegateVal":
		return set(recv, "nneg "+arg(0).term)
	case "ModNScalar.SquareVal":
		return set(recv, "nmul "+arg(0).term+" "+arg(0).term)
	case "ModNScalar.Square":
		return set(recv, "nmul "+recv.read()+" "+recv.read())
	case "ModNScalar.InverseValNonConst":
		return set(recv, "ninv "+arg(0).term)
	case "ModNScalar.InverseNonConst":
		return set(recv, "ninv "+recv.read())
	case "ModNScalar.Set", "FieldVal.Set":
		return set(recv, arg(0).term)
	case "ModNScalar.Zero", "FieldVal.Zero":
		return set(recv, "0")
	case "ModNScalar.SetByteSlice":
		b := bytesArg(0)
		set(recv, "(scalarSetByteSlice "+b+").1")
		return &dv{kind: "bool", term: "(scalarSetByteSlice " + b + ").2"}
	case "ModNScalar.SetBytes":
		b := bytesArg(0)
		set(recv, "(scalarSetByteSlice "+b+").1")
		return &dv{kind: "int", term: "(if (scalarSetByteSlice " + b + ").2 then 1 else 0)", width: 32}
	case "ModNScalar.IsOverHalfOrder":
		return &dv{kind: "bool", term: "decide (" + recv.read() + " > halfN)"}
	case "ModNScalar.Equals", "FieldVal.Equals":
		return &dv{kind: "bool", term: "(" + recv.read() + " == " + arg(0).term + ")"}
	case "ModNScalar.IsOdd", "FieldVal.IsOdd":
		return &dv{kind: "bool", term: "(" + recv.read() + " % 2 == 1)"}
	case "ModNScalar.PutBytes", "FieldVal.PutBytes", "ModNScalar.PutBytesUnchecked", "FieldVal.PutBytesUnchecked":
		d.writeBytesAt(argLoc(0), "be32 "+recv.read(), "32", pre)
		return &dv{kind: "unit"}
	case "ModNScalar.Bytes", "FieldVal.Bytes":
		return &dv{kind: "bytes", term: "(be32 " + recv.read() + ")"}
	// ---- FieldVal (value level: a natural denoting the element; Normalize = mod P)
	case "FieldVal.IsOddBit":
		return &dv{kind: "int", term: "(" + recv.read() + " % 2)", width: 32}
	case "FieldVal.Normalize":
		return set(recv, recv.read()+" % P")
	case "FieldVal.SquareVal":
		return set(recv, "fsq "+arg(0).term)
	case "FieldVal.Square":
		return set(recv, "fsq "+recv.read())
	case "FieldVal.Mul2":
		return set(recv, "fmul "+arg(0).term+" "+arg(1).term)
	case "FieldVal.Mul":
		return set(recv, "fmul "+recv.read()+" "+arg(0).term)
	case "FieldVal.Add":
		return set(recv, recv.read()+" + "+arg(0).term)
	case "FieldVal.SetInt":
		return set(recv, arg(0).term)
	case "FieldVal.SetBytes":
		set(recv, "beNat "+bytesArg(0))
		return &dv{kind: "int", term: "(if beNat " + bytesArg(0) + " ≥ P then 1 else 0)", width: 32}
	case "FieldVal.IsGtOrEqPrimeMinusOrder":
		return &dv{kind: "bool", term: "decide (" + recv.read() + " ≥ P - N)"}
	// ---- points
	case "JacobianPoint.ToAffine":
		return set(recv, "toAffineJ "+recv.read())
	case "ScalarBaseMultNonConst":
		if d.fn != "ScalarBaseMultNonConst" {
			k := arg(0).term
			set(argLoc(1), "scalarBaseMultNC "+k)
			return &dv{kind: "unit"}
		}
	case "ScalarMultNonConst":
		k, p := arg(0).term, arg(1).term
		set(argLoc(2), "scalarMultNC "+k+" "+p)
		return &dv{kind: "unit"}
	case "AddNonConst":
		a, b, r := argLoc(0), argLoc(1), argLoc(2)
		same := func(u, v *dloc) bool { return u.root == v.root && fmt.Sprint(u.path) == fmt.Sprint(v.path) }
		switch {
		case same(r, a):
			set(r, "addNC "+a.read()+" "+b.read())
		case same(r, b):
			set(r, "addNCr2 "+a.read()+" "+b.read())
		default:
			set(r, "addNC3 "+a.read()+" "+b.read())
		}
		return &dv{kind: "unit"}
	case "DoubleNonConst":
		a, r := argLoc(0), argLoc(1)
		if a.root != r.root {
			set(r, "dblNC3 "+a.read())
		} else {
			set(r, "dblNC "+a.read())
		}
		return &dv{kind: "unit"}
	case "isOnCurve":
		return &dv{kind: "bool", term: "(isOnCurveM " + arg(0).term + " " + arg(1).term + ")"}
	case "s256BytePoints":
		return &dv{kind: "table"}
	// ---- hash.Hash (SHA-256): the log of bytes written since the last Reset
	case "Hash.Write", "Writer.Write":
		if rk == "hash" {
			set(recv, recv.read()+" ++ "+bytesArg(0))
			return &dv{kind: "unit"}
		}
	case "Hash.Reset":
		set(recv, "([] : Bytes)")
		return &dv{kind: "unit"}
	case "Hash.Sum":
		if a := arg(0); a.kind != "nil" {
			d.fail(x, "Sum with a prefix")
		}
		return &dv{kind: "bytes", term: "(sha256 " + recv.read() + ")"}
	// ---- the resettable HMAC-SHA256 object of nonce.go (model: Secp.Model.HmacObj)
	case "newHMACSHA256":
		if !d.inHmacTranche() {
			return &dv{kind: "hmac", term: "hmacNew " + bytesArg(0)}
		}
	case "hmacsha256.Write":
		if d.inHmacTranche() {
			break
		}
		set(recv, recv.read()+".write "+bytesArg(0))
		return &dv{kind: "unit"}
	case "hmacsha256.Reset":
		if d.inHmacTranche() {
			break
		}
		set(recv, recv.read()+".reset")
		return &dv{kind: "unit"}
	case "hmacsha256.ResetKey":
		if d.inHmacTranche() {
			break
		}
		set(recv, recv.read()+".resetKey "+bytesArg(0))
		return &dv{kind: "unit"}
	case "hmacsha256.Sum":
		if d.inHmacTranche() {
			break
		}
		if len(recv.path) != 0 {
			d.fail(x, "Sum on a nested hasher")
		}
		t := d.tmp("sum")
		*pre = append(*pre, &dnode{kind: "let", name: "(" + t + ", " + recv.root + ")", term: recv.read() + ".sum"})
		d.declare(t, "bytes")
		d.wrote(recv.root)
		return &dv{kind: "bytes", term: t}
	// ---- math/big (naturals)
	case "Int.Sign":
		return &dv{kind: "int", term: "(if " + recv.read() + " == 0 then 0 else 1)"}
	case "Int.Bytes":
		return &dv{kind: "bytes", term: "(minBytes " + recv.read() + ")"}
	case "Int.SetBytes":
		return set(recv, "beNat "+bytesArg(0))
	case "Int.Mod":
		if recv.kind == "obig" {
			a0 := arg(0)
			t0 := a0.term
			if a0.kind == "obig" {
				t0 = "(" + t0 + ".getD 0)"
			}
			d.write(recv, "some ("+t0+" % "+arg(1).term+")", pre)
			return &dv{kind: "obig", term: recv.read(), loc: recv}
		}
		return set(recv, arg(0).term+" % "+arg(1).term)
	case "FieldVal.SetByteSlice":
		b := bytesArg(0)
		set(recv, "beNat ("+b+".take 32)")
		return &dv{kind: "bool", term: "decide (beNat (" + b + ".take 32) ≥ P)"}
	case "rmd160sha256":
		return &dv{kind: "bytes", term: "(O.hash160 " + bytesArg(0) + ")"}
	case "Int.Add":
		if recv.kind == "obig" { // x.Add(x, y) on a nil-able variable: only reached where it is non-nil (a nil receiver would panic)
			a0 := arg(0)
			t0 := a0.term
			if a0.kind == "obig" {
				t0 = "(" + t0 + ".getD 0)"
			}
			a1 := arg(1)
			t1 := a1.term
			if a1.kind == "obig" {
				t1 = "(" + t1 + ".getD 0)"
			}
			d.write(recv, "some ("+t0+" + "+t1+")", pre)
			return &dv{kind: "obig", term: recv.read(), loc: recv}
		}
		return set(recv, arg(0).term+" + "+arg(1).term)
	case "Int.And":
		return set(recv, arg(0).term+" &&& "+arg(1).term)
	case "Int.FillBytes":
		dst := argLoc(0)
		n := "(" + dst.read() + ".length)"
		d.writeBytesAt(dst, "beBytes "+n+" "+recv.read(), n, pre)
		return &dv{kind: "unit"}
	case "Signature.Serialize":
		if fn.Pkg().Name() == "secp256k1" { // the DER serialiser: regenerated by T7 (C09 serializeDER_regenerated)
			sg := d.expr(recvX, pre)
			return &dv{kind: "bytes", term: "(serializeDER " + sg.term + ".1 " + sg.term + ".2.1)"}
		}
	case "PublicKey.SerializeCompressed":
		pk := d.expr(recvX, pre)
		return &dv{kind: "bytes", term: "(serializeCompressed " + pk.term + ".1 " + pk.term + ".2)"}
	case "constantTimeMin":
		_, w := d.kindOf(d.p.info.Types[x].Type)
		return &dv{kind: "int", term: "(min " + arg(0).term + " " + arg(1).term + ")", width: w}
	case "Int.ModInverse":
		// big.Int.ModInverse(g, n) for the PRIME modulus N: the inverse when g is not a multiple of N, otherwise the
		// receiver is left as it is (math/big returns nil and does not touch z)
		if arg(1).term != "N" {
			d.fail(x, "ModInverse with a modulus other than the group order")
		}
		g := arg(0).term
		return set(recv, "(if "+g+" % N == 0 then "+recv.read()+" else ninv "+g+")")
	case "doubleSha256":
		return &dv{kind: "bytes", term: "(doubleSha256 " + bytesArg(0) + ")"}
	case "KeyVersion.IsPrivate":
		return &dv{kind: "bool", term: "(versionIsPrivate " + d.expr(recvX, pre).term + ")"}
	case "KeyVersion.ToPublic":
		return &dv{kind: "bytes", term: "(versionToPublic " + d.expr(recvX, pre).term + ")"}
	case "mul512Rsh320Round":
		return &dv{kind: "scalar", term: "(mul512Rsh320Round " + arg(0).term + " " + arg(1).term + ")"}
	case "FieldVal.Negate":
		return set(recv, "fneg "+recv.read())
	case "ModNScalar.IsZeroBit":
		return &dv{kind: "int", term: "(if " + recv.read() + " == 0 then 1 else 0)", width: 32}
	// ---- hashing / nonces / housekeeping
	case "Sum256":
		return &dv{kind: "bytes", term: "(B " + bytesArg(0) + ")"}
	case "zeroArray32", "zeroArray":
		l := argLoc(0)
		set(l, "List.replicate "+l.read()+".length (0 : UInt8)")
		return &dv{kind: "unit"}
	case "Sprintf":
		return &dv{kind: "unit"}
	}
	if rk == "curve" {
		switch fn.Name() {
		case "ScalarBaseMult", "ScalarMult", "Add", "Double", "IsOnCurve":
			name = "KoblitzCurve." + fn.Name() // elliptic.Curve is only ever secp256k1.S256() here (the curve field is set from it)
		}
	}
	// another translated entry
	for i := range d8entries {
		ent := &d8entries[i]
		if ent.key == name && (fn.Pkg().Name() == ent.pkg || (ent.pkg == "" && (fn.Pkg().Name() == "secp256k1" || rk == "curve"))) && !(ent.key == d.ent.key && ent.pkg == d.ent.pkg) {
			var args []string
			if ent.extraA != "" {
				args = append(args, ent.extraA)
			}
			var outLocs []*dloc
			if recvX != nil && rk != "curve" {
				args = append(args, "("+d.expr(recvX, pre).term+")")
				if ent.out != "" {
					if _, fd := d.findFunc(fn); fd != nil && fd.Recv != nil && len(fd.Recv.List[0].Names) > 0 && fd.Recv.List[0].Names[0].Name == ent.out {
						outLocs = append(outLocs, d.lvalue(recvX, pre)) // the receiver is mutated: its final value comes back
					}
				}
			}
			for i := range x.Args {
				pt := sig.Params().At(i).Type()
				k, _ := d.kindOf(pt)
				_, isPtr := pt.(*types.Pointer)
				if isPtr && k == "point" && ent.out != "" && sig.Params().At(i).Name() == ent.out {
					l := argLoc(i)
					outLocs = append(outLocs, l)
					args = append(args, "("+l.read()+")") // the out-parameter's current value goes in, its final value comes back
					continue
				}
				args = append(args, "("+arg(i).term+")")
			}
			term := ent.lean + " " + strings.Join(args, " ")
			if len(outLocs) == 1 {
				if ent.total && sig.Results().Len() == 1 {
					if _, isPtr := sig.Results().At(0).Type().(*types.Pointer); !isPtr {
						// value result + mutated receiver: the entry returns the pair
						k, w := d.kindOf(sig.Results().At(0).Type())
						t := d.tmp("res")
						if len(outLocs[0].path) != 0 {
							d.fail(x, "value-returning mutator on a nested object")
						}
						*pre = append(*pre, &dnode{kind: "let", name: "(" + t + ", " + outLocs[0].root + ")", term: term})
						d.declare(t, k)
						d.wrote(outLocs[0].root)
						return &dv{kind: k, term: t, width: w}
					}
				}
				set(outLocs[0], term)
				return &dv{kind: "unit"}
			}
			if ent.total && sig.Results().Len() == 1 {
				k, w := d.kindOf(sig.Results().At(0).Type())
				return &dv{kind: k, term: "(" + term + ")", width: w}
			}
			return &dv{kind: "entry", term: term, loc: nil, width: i}
		}
	}
	// a small helper of the three packages: inline its body
	if cp, fd := d.findFunc(fn); fd != nil && fd.Body != nil {
		return d.inline(x, cp, fd, recvX, pre)
	}
	d.fail(x, "call to %s outside the T8 subset", name)
	return &dv{kind: "int", term: "0"}
}

// inline: straight-line helper (assignments and calls, one final return or none)
func (d *d8) inline(x *ast.CallExpr, cp *Pkg, fd *ast.FuncDecl, recvX ast.Expr, pre *[]*dnode) *dv {
	// bind parameters in the caller's context
	type binding struct {
		o types.Object
		l *dloc
	}
	var binds []binding
	bind := func(id *ast.Ident, e ast.Expr) {
		o := cp.info.Defs[id]
		if o == nil {
			return
		}
		k, _ := d.kindOf(o.Type())
		if _, isPtr := o.Type().(*types.Pointer); isPtr {
			binds = append(binds, binding{o, d.lvalue(e, pre)})
			return
		}
		v := d.expr(e, pre)
		nm := d.tmp(id.Name + "_")
		*pre = append(*pre, &dnode{kind: "let", name: nm, term: v.term})
		d.declare(nm, k)
		binds = append(binds, binding{o, &dloc{root: nm, kind: k}})
	}
	if fd.Recv != nil && len(fd.Recv.List[0].Names) > 0 {
		bind(fd.Recv.List[0].Names[0], recvX)
	}
	i := 0
	for _, fld := range fd.Type.Params.List {
		for _, nm := range fld.Names {
			bind(nm, x.Args[i])
			i++
		}
	}
	savedP, savedEnv := d.p, d.env
	d.p = cp
	d.env = map[types.Object]*dloc{}
	for _, b := range binds {
		d.env[b.o] = b.l
	}
	defer func() { d.p, d.env = savedP, savedEnv }()
	var result *dv = &dv{kind: "unit"}
	for si, s := range fd.Body.List {
		switch st := s.(type) {
		case *ast.ReturnStmt:
			if si != len(fd.Body.List)-1 || len(st.Results) > 1 {
				d.fail(st, "inlined helper %s: return form", fd.Name.Name)
				return result
			}
			if len(st.Results) == 1 {
				result = d.expr(st.Results[0], pre)
			}
		case *ast.DeclStmt, *ast.AssignStmt, *ast.ExprStmt:
			n := d.simple(s, pre)
			if n {
				d.fail(s, "inlined helper %s: statement form", fd.Name.Name)
			}
		default:
			d.fail(s, "inlined helper %s: statement %T", fd.Name.Name, s)
			return result
		}
	}
	// values living in the callee's locals stay valid: their Lean names are unique temporaries or caller locations
	return result
}

// simple: declaration / assignment / expression statement without control flow; returns true if not handled
func (d *d8) simple(s ast.Stmt, pre *[]*dnode) bool {
	switch st := s.(type) {
	case *ast.DeclStmt:
		gd, ok := st.Decl.(*ast.GenDecl)
		if !ok {
			return true
		}
		if gd.Tok == token.CONST {
			return false
		}
		if gd.Tok != token.VAR {
			return true
		}
		for _, sp := range gd.Specs {
			vs := sp.(*ast.ValueSpec)
			if len(vs.Values) != 0 {
				return true
			}
			for _, nm := range vs.Names {
				o := d.p.info.Defs[nm]
				k, _ := d.kindOf(o.Type())
				if k == "err" { // var err error: nil until assigned
					d.env[o] = &dloc{root: "?err", kind: "err"}
					d.known[o] = false
					continue
				}
				z, ok := d.zeroTerm(o.Type(), k)
				if _, isPtr := o.Type().(*types.Pointer); isPtr && k == "big" {
					k, z, ok = "obig", "(none : Option Nat)", true // a *big.Int variable that starts nil
				} else if isPtr && k != "sopt" {
					ok = false // a nil pointer variable
				}
				if k == "bytes" {
					if arr, isArr := o.Type().Underlying().(*types.Array); isArr {
						z, ok = fmt.Sprintf("(List.replicate %d (0 : UInt8))", arr.Len()), true
					}
				}
				if !ok {
					d.fail(nm, "variable of kind %q", k)
					return false
				}
				name := d.fresh(nm.Name)
				*pre = append(*pre, &dnode{kind: "let", name: name, term: z})
				d.declare(name, k)
				d.wrote(name)
				d.env[o] = &dloc{root: name, kind: k}
			}
		}
		return false
	case *ast.ExprStmt:
		v := d.expr(st.X, pre)
		if v.kind == "panic" || v.kind == "entry" {
			return true
		}
		return false
	case *ast.IncDecStmt:
		l := d.lvalue(st.X, pre)
		_, w := d.kindOf(d.p.info.Types[st.X].Type)
		op := " + 1"
		if st.Tok == token.DEC {
			return true
		}
		d.write(l, wrapW("("+l.read()+op+")", w), pre)
		return false
	case *ast.AssignStmt:
		if len(st.Lhs) == 1 && len(st.Rhs) == 1 {
			switch st.Tok {
			case token.DEFINE, token.ASSIGN:
				id, isId := st.Lhs[0].(*ast.Ident)
				if isId && id.Name == "str" {
					return false // error message text
				}
				if isId && id.Name == "_" {
					d.expr(st.Rhs[0], pre)
					return false
				}
				rt := d.p.info.Types[st.Rhs[0]].Type
				_, isPtr := rt.(*types.Pointer)
				if isId && st.Tok == token.DEFINE {
					o := d.p.info.Defs[id]
					if c, ok := st.Rhs[0].(*ast.CallExpr); ok {
						if f, ok := c.Fun.(*ast.Ident); ok && f.Name == "s256BytePoints" {
							d.env[o] = &dloc{root: "?table", kind: "table"}
							return false
						}
					}
					if isPtr {
						if k, _ := d.kindOf(rt); k == "ext" {
							if _, fromIdent := st.Rhs[0].(*ast.Ident); fromIdent {
								// cur := k on an *ExtendedKey that is later re-pointed (cur = child): extended keys are never written
								// through such a variable (a field write through it fails closed below), so it is a value
								src := d.lvalue(st.Rhs[0], pre)
								name := d.fresh(id.Name)
								*pre = append(*pre, &dnode{kind: "let", name: name, term: src.read()})
								d.declare(name, "ext")
								d.wrote(name)
								d.env[o] = &dloc{root: name, kind: "ext", ro: false}
								d.extCopies[name] = true
								return false
							}
						}
						d.env[o] = d.lvalue(st.Rhs[0], pre) // pointer variable: an alias
						return false
					}
					v := d.expr(st.Rhs[0], pre)
					if v.kind == "table" || v.kind == "tablerow" {
						d.env[o] = &dloc{root: "?table", kind: "table"}
						return false
					}
					if v.kind == "entry" || v.kind == "panic" || v.kind == "unit" || leanType[v.kind] == "" {
						return true
					}
					name := d.fresh(id.Name)
					*pre = append(*pre, &dnode{kind: "let", name: name, term: v.term})
					d.declare(name, v.kind)
					d.wrote(name)
					d.env[o] = &dloc{root: name, kind: v.kind}
					if v.known != nil {
						d.known[o] = *v.known
					}
					if v.kind == "int" {
						for _, pf := range d.pendingFacts {
							d.facts[name+"≥"+pf[0]] = true
							d.facts[name+"≥"+pf[1]] = true
						}
						d.pendingFacts = nil
						if _, isIdent := st.Rhs[0].(*ast.Ident); isIdent {
							d.facts[name+"≥"+v.term] = true
						}
						if strings.HasSuffix(v.term, ".length") {
							d.lenDef[name] = strings.TrimSuffix(v.term, ".length")
						}
					}
					return false
				}
				if k, _ := d.kindOf(d.p.info.Types[st.Lhs[0]].Type); k == "curve" && !isId {
					d.write(d.lvalue(st.Lhs[0], pre), "()", pre) // the curve object carries no data
					return false
				}
				if isId && st.Tok == token.ASSIGN {
					if l, ok := d.env[d.obj(id)]; ok && l.kind == "err" {
						if call, ok := st.Rhs[0].(*ast.CallExpr); ok {
							if sel, ok := call.Fun.(*ast.SelectorExpr); ok && sel.Sel.Name == "Errorf" && len(call.Args) >= 1 {
								if lit, ok := call.Args[0].(*ast.BasicLit); ok {
									for prefix, kind := range plainErrors {
										if strings.HasPrefix(strings.Trim(lit.Value, "\""), prefix) {
											d.known[d.obj(id)] = true
											d.errTerm[d.obj(id)] = "." + kind
											return false
										}
									}
								}
							}
						}
						return true
					}
				}
				if isId {
					if l, ok := d.env[d.obj(id)]; ok && l.kind == "obig" && st.Tok == token.ASSIGN {
						v := d.expr(st.Rhs[0], pre)
						switch v.kind {
						case "big":
							d.write(l, "some ("+v.term+")", pre)
							return false
						case "obig":
							d.write(l, v.term, pre)
							return false
						}
						return true
					}
				}
				if k, _ := d.kindOf(d.p.info.Types[st.Lhs[0]].Type); k == "sopt" && isPtr {
					// *SignOptions is read-only data here: re-pointing is copying the value
					v := d.expr(st.Rhs[0], pre)
					d.write(d.lvalue(st.Lhs[0], pre), v.term, pre)
					return false
				}
				if isPtr {
					return true // re-pointing a pointer variable
				}
				if ix, ok := st.Lhs[0].(*ast.IndexExpr); ok {
					// b[c] = v on a byte array with a constant index inside the array
					base := d.lvalue(ix.X, pre)
					c, isConst := d.constVal(ix.Index)
					arr, isArr := d.p.info.Types[ix.X].Type.Underlying().(*types.Array)
					var ci int64
					fmt.Sscan(c, &ci)
					if base.kind == "bytes" && base.lo == "" && !isConst && isArr {
						// b[i] = v with a computed index: List.set (an index outside the array would panic in Go; not modelled)
						i := d.intTerm(ix.Index, pre)
						v := d.expr(st.Rhs[0], pre)
						if v.kind != "int" || v.width != 8 {
							return true
						}
						d.write(base, "("+base.read()+".set "+i+" (UInt8.ofNat "+v.term+"))", pre)
						return false
					}
					if base.kind == "bytes" && base.lo == "" && !isArr {
						// b[i] = v on a slice: List.set (an index outside the slice would panic in Go; not modelled)
						i := d.intTerm(ix.Index, pre)
						v := d.expr(st.Rhs[0], pre)
						if v.kind != "int" || v.width != 8 {
							return true
						}
						d.write(base, "("+base.read()+".set "+i+" (UInt8.ofNat "+v.term+"))", pre)
						return false
					}
					if base.kind != "bytes" || base.lo != "" || !isConst || !isArr || ci < 0 || ci >= arr.Len() {
						return true
					}
					v := d.expr(st.Rhs[0], pre)
					if v.kind != "int" || v.width != 8 {
						return true
					}
					d.writeBytesAt(&dloc{root: base.root, path: base.path, names: base.names, kind: "bytes", lo: c, hi: fmt.Sprint(ci + 1)}, "[UInt8.ofNat "+v.term+"]", "1", pre)
					return false
				}
				v := d.expr(st.Rhs[0], pre)
				if leanType[v.kind] == "" {
					return true
				}
				l := d.lvalue(st.Lhs[0], pre)
				d.write(l, v.term, pre)
				// x = y[:min(a, C)] : afterwards len(x) ≤ C
				if sl, ok := st.Rhs[0].(*ast.SliceExpr); ok && sl.Low == nil && sl.High != nil && v.loc != nil && len(l.path) == 0 {
					if m := regexp.MustCompile(`^\(min (.+) (\d+)\)$`).FindStringSubmatch(v.loc.hi); m != nil {
						d.facts[m[2]+"≥"+l.root+".length"] = true
					}
				}
				return false
			case token.ADD_ASSIGN, token.XOR_ASSIGN, token.OR_ASSIGN, token.AND_ASSIGN:
				if ix, ok := st.Lhs[0].(*ast.IndexExpr); ok {
					base := d.lvalue(ix.X, pre)
					if base.kind != "bytes" || base.lo != "" {
						return true
					}
					i := d.intTerm(ix.Index, pre)
					r := d.intTerm(st.Rhs[0], pre)
					op := map[token.Token]string{token.ADD_ASSIGN: "+", token.XOR_ASSIGN: "^^^", token.OR_ASSIGN: "|||", token.AND_ASSIGN: "&&&"}[st.Tok]
					t := "((" + base.read() + ".getD " + i + " 0).toNat " + op + " " + r + ")"
					if st.Tok == token.ADD_ASSIGN {
						t = wrapW(t, 8)
					}
					d.write(base, "("+base.read()+".set "+i+" (UInt8.ofNat "+t+"))", pre)
					return false
				}
				l := d.lvalue(st.Lhs[0], pre)
				_, w := d.kindOf(d.p.info.Types[st.Lhs[0]].Type)
				r := d.intTerm(st.Rhs[0], pre)
				op := map[token.Token]string{token.ADD_ASSIGN: "+", token.XOR_ASSIGN: "^^^", token.OR_ASSIGN: "|||", token.AND_ASSIGN: "&&&"}[st.Tok]
				t := "(" + l.read() + " " + op + " " + r + ")"
				if st.Tok == token.ADD_ASSIGN {
					t = wrapW(t, w)
				}
				d.write(l, t, pre)
				return false
			}
		}
		if len(st.Lhs) == len(st.Rhs) && len(st.Lhs) >= 2 && (st.Tok == token.DEFINE || st.Tok == token.ASSIGN) {
			return d.multiAssign(st, pre)
		}
		// x, y := f(...) for TOTAL entries and primitives returning pairs
		if len(st.Lhs) == 2 && len(st.Rhs) == 1 && st.Tok == token.DEFINE {
			v := d.expr(st.Rhs[0], pre)
			if v.kind == "entry" && d8entries[v.width].total {
				res := d.p.info.Types[st.Rhs[0]].Type.(*types.Tuple)
				var names []string
				for i, l := range st.Lhs {
					id := l.(*ast.Ident)
					k, _ := d.kindOf(res.At(i).Type())
					name := d.fresh(id.Name)
					names = append(names, name)
					d.declare(name, k)
					d.wrote(name)
					if o := d.p.info.Defs[id]; o != nil {
						d.env[o] = &dloc{root: name, kind: k}
					}
				}
				*pre = append(*pre, &dnode{kind: "let", name: tupleOf(names), term: v.term})
				return false
			}
		}
		return true
	}
	return true
}

// multiAssign: a, b := x, y / a, b = x, y.  Go evaluates the right-hand sides first: they are bound to temporaries
// whenever one of them mentions a name the statement assigns.  A swap of two POINTER variables is translated as a
// swap of the two objects, which is the same thing when nothing else points at them (checked).
func (d *d8) multiAssign(st *ast.AssignStmt, pre *[]*dnode) bool {
	allPtr := true
	for _, r := range st.Rhs {
		if _, isPtr := d.p.info.Types[r].Type.(*types.Pointer); !isPtr {
			allPtr = false
		}
	}
	if allPtr && st.Tok == token.ASSIGN && len(st.Lhs) == 2 {
		l0, ok0 := st.Lhs[0].(*ast.Ident)
		l1, ok1 := st.Lhs[1].(*ast.Ident)
		r0, ok2 := st.Rhs[0].(*ast.Ident)
		r1, ok3 := st.Rhs[1].(*ast.Ident)
		if ok0 && ok1 && ok2 && ok3 && l0.Name == r1.Name && l1.Name == r0.Name {
			a, b := d.env[d.obj(l0)], d.env[d.obj(l1)]
			if a == nil || b == nil || len(a.path) != 0 || len(b.path) != 0 || a.root == b.root || a.ro || b.ro {
				return true
			}
			for o, l := range d.env { // no third name for either object
				if (l.root == a.root || l.root == b.root) && o != d.obj(l0) && o != d.obj(l1) {
					return true
				}
			}
			*pre = append(*pre, &dnode{kind: "let", name: "(" + a.root + ", " + b.root + ")", term: "(" + b.root + ", " + a.root + ")"})
			d.wrote(a.root)
			d.wrote(b.root)
			return false
		}
		return true
	}
	if allPtr && st.Tok == token.DEFINE {
		for i, l := range st.Lhs {
			id, ok := l.(*ast.Ident)
			if !ok {
				return true
			}
			d.env[d.p.info.Defs[id]] = d.lvalue(st.Rhs[i], pre)
		}
		return false
	}
	if allPtr {
		return true
	}
	// values: evaluate all right-hand sides, then assign
	vals := make([]*dv, len(st.Rhs))
	for i, r := range st.Rhs {
		vals[i] = d.expr(r, pre)
		if leanType[vals[i].kind] == "" {
			return true
		}
		t := d.tmp("rhs")
		*pre = append(*pre, &dnode{kind: "let", name: t, term: vals[i].term})
		d.declare(t, vals[i].kind)
		vals[i] = &dv{kind: vals[i].kind, term: t, width: vals[i].width}
	}
	for i, l := range st.Lhs {
		id, isId := l.(*ast.Ident)
		if isId && st.Tok == token.DEFINE && d.p.info.Defs[id] != nil {
			name := d.fresh(id.Name)
			*pre = append(*pre, &dnode{kind: "let", name: name, term: vals[i].term})
			d.declare(name, vals[i].kind)
			d.wrote(name)
			d.env[d.p.info.Defs[id]] = &dloc{root: name, kind: vals[i].kind}
			continue
		}
		d.write(d.lvalue(l, pre), vals[i].term, pre)
	}
	return false
}

// fresh: Lean name for a newly declared Go variable (suffix when the name is already a live Lean variable of another object)
func (d *d8) fresh(name string) string {
	if _, used := d.stype[name]; !used {
		return name
	}
	return d.tmp(name + "_")
}

// ---------------------------------------------------------------- statements (CPS)

func hasTerminator(list []ast.Stmt) bool {
	found := false
	for _, s := range list {
		ast.Inspect(s, func(n ast.Node) bool {
			switch x := n.(type) {
			case *ast.ReturnStmt:
				found = true
			case *ast.BranchStmt:
				found = true
			case *ast.CallExpr:
				if id, ok := x.Fun.(*ast.Ident); ok && id.Name == "panic" {
					found = true
				}
			case *ast.FuncLit:
				return false
			}
			return !found
		})
	}
	return found
}

func chain(pre []*dnode, tail *dnode) *dnode {
	for i := len(pre) - 1; i >= 0; i-- {
		pre[i].a = tail // let and guard nodes both continue in .a
		tail = pre[i]
	}
	return tail
}

type d8aux struct {
	facts  map[string]bool
	lenDef map[string]string
}

func (d *d8) saveAux() d8aux {
	a := d8aux{map[string]bool{}, map[string]string{}}
	for k, v := range d.facts {
		a.facts[k] = v
	}
	for k, v := range d.lenDef {
		a.lenDef[k] = v
	}
	return a
}

func (d *d8) snapshot() (map[types.Object]*dloc, map[types.Object]bool, []string, map[string]string) {
	e := map[types.Object]*dloc{}
	for k, v := range d.env {
		e[k] = v
	}
	kn := map[types.Object]bool{}
	for k, v := range d.known {
		kn[k] = v
	}
	st := map[string]string{}
	for k, v := range d.stype {
		st[k] = v
	}
	return e, kn, append([]string{}, d.scope...), st
}

func (d *d8) restore(e map[types.Object]*dloc, kn map[types.Object]bool, sc []string, st map[string]string) {
	d.env, d.known, d.scope, d.stype = e, kn, sc, st
}

// branch: translate a statement list in a copy of the state
func (d *d8) branch(list []ast.Stmt, k func() *dnode) *dnode {
	e, kn, sc, st := d.snapshot()
	a := d.saveAux()
	n := d.stmts(list, k)
	d.restore(e, kn, sc, st)
	d.facts, d.lenDef = a.facts, a.lenDef
	return n
}

// branchWith: a branch translated under extra order facts (those implied by the condition that guards it)
func (d *d8) branchWith(facts []string, list []ast.Stmt, k func() *dnode) *dnode {
	a := d.saveAux()
	for _, f := range facts {
		d.facts[f] = true
	}
	n := d.branch(list, func() *dnode {
		// the continuation does not inherit the branch's facts
		saved := d.saveAux()
		d.facts, d.lenDef = map[string]bool{}, map[string]string{}
		for k2, v := range a.facts {
			if saved.facts[k2] { // known before the branch and not invalidated inside it
				d.facts[k2] = v
			}
		}
		for k2, v := range a.lenDef {
			if saved.lenDef[k2] == v {
				d.lenDef[k2] = v
			}
		}
		r := k()
		d.facts, d.lenDef = saved.facts, saved.lenDef
		return r
	})
	d.facts, d.lenDef = a.facts, a.lenDef
	return n
}

// condFacts: order facts implied by a condition being true
func (d *d8) condFacts(c ast.Expr) []string {
	b, ok := c.(*ast.BinaryExpr)
	if !ok {
		return nil
	}
	var pre []*dnode
	switch b.Op {
	case token.GEQ, token.GTR:
		kx, _ := d.kindOf(d.p.info.Types[b.X].Type)
		if kx != "int" {
			return nil
		}
		l, r := d.intTerm(b.X, &pre), d.intTerm(b.Y, &pre)
		if len(pre) > 0 {
			return nil
		}
		out := []string{l + "≥" + r}
		if b.Op == token.GTR && r == "0" {
			out = append(out, l+"≥1")
		}
		return out
	case token.LSS, token.LEQ:
		kx, _ := d.kindOf(d.p.info.Types[b.X].Type)
		if kx != "int" {
			return nil
		}
		l, r := d.intTerm(b.X, &pre), d.intTerm(b.Y, &pre)
		if len(pre) > 0 {
			return nil
		}
		return []string{r + "≥" + l}
	case token.LAND:
		return append(d.condFacts(b.X), d.condFacts(b.Y)...)
	}
	return nil
}

// isFallibleEntry: fn is another translated entry that returns a DR outcome
func (d *d8) isFallibleEntry(fn *types.Func) bool {
	sig := fn.Type().(*types.Signature)
	name := fn.Name()
	if sig.Recv() != nil {
		_, tn := namedOf(sig.Recv().Type())
		name = tn + "." + fn.Name()
	}
	for i := range d8entries {
		ent := &d8entries[i]
		if ent.key == name && !ent.total && fn.Pkg() != nil && (fn.Pkg().Name() == ent.pkg || (ent.pkg == "" && fn.Pkg().Name() == "secp256k1")) &&
			!(ent.key == d.ent.key && ent.pkg == d.ent.pkg) {
			return true
		}
	}
	return false
}

func (d *d8) retNode(st *ast.ReturnStmt, pre *[]*dnode) *dnode {
	if d.retK != nil {
		d.fail(st, "return inside an inlined helper")
	}
	if len(st.Results) == 0 && len(d.namedRes) > 0 {
		// bare return: the named results as they stand; only the case "the error result has been set" is in the subset
		eo := d.namedRes[len(d.namedRes)-1]
		if t, ok := d.errTerm[eo]; ok && d.known[eo] {
			return d.rt(".err " + t)
		}
		d.fail(st, "bare return without a known error")
		return d.rt(".panic")
	}
	if len(st.Results) == 1 && d.ent.errT == "PubErr" {
		if call, ok := st.Results[0].(*ast.CallExpr); ok {
			if fn, _ := d.callee(call); fn != nil && fn.Name() == "ParsePubKey" && fn.Pkg().Name() == "secp256k1" {
				// return secp256k1.ParsePubKey(b): the outcome of the model's parser (= the regenerated one, T7)
				b := d.expr(call.Args[0], pre)
				return d.rt("(match parsePubKey " + b.term + " with | .ok pk => .ok pk | .err pe => .err pe | .panic => .panic)")
			}
		}
	}
	res := st.Results
	n := d.results.Len()
	lastK := ""
	if n > 0 {
		lastK, _ = d.kindOf(d.results.At(n - 1).Type())
	}
	val := func(es []ast.Expr) string {
		var parts []string
		for _, e := range es {
			parts = append(parts, d.expr(e, pre).term)
		}
		if len(parts) == 0 {
			return "()"
		}
		return tupleOf(parts)
	}
	if d.ent.total {
		if d.ent.out != "" && n > 0 {
			// a method that mutates its receiver and returns something: a pointer to the receiver itself (chaining) is
			// just the receiver's final value; anything else is returned together with it
			if _, isPtr := d.results.At(0).Type().(*types.Pointer); isPtr && n == 1 {
				v := d.expr(res[0], pre)
				if v.loc == nil || v.loc.root != d.ent.out {
					d.fail(st, "a total entry with an out-parameter returns another object")
				}
				return d.rt(d.ent.out)
			}
			return d.rt("(" + val(res) + ", " + d.ent.out + ")")
		}
		return d.rt(val(res))
	}
	if len(res) == 1 && n >= 1 {
		// return f(…) with f another fallible entry of the same shape: its outcome is the outcome
		if call, ok := res[0].(*ast.CallExpr); ok {
			if fn, _ := d.callee(call); fn != nil && d.isFallibleEntry(fn) {
				v := d.expr(call, pre)
				if v.kind == "entry" && !d8entries[v.width].total {
					if d8entries[v.width].errT != d.ent.errT {
						d.fail(st, "pass-through of a callee with another error type")
					}
					return d.rt0(v.term)
				}
				d.fail(st, "multi-value return of a call outside the T8 subset")
				return d.rt(".panic")
			}
		}
	}
	switch {
	case lastK == "err":
		last := res[n-1]
		if id, ok := last.(*ast.Ident); ok && id.Name != "nil" {
			if kn, ok := d.known[d.obj(id)]; ok && !kn {
				return d.rt(".ok " + val(res[:n-1])) // an error variable that is nil on this path
			}
		}
		if id, ok := last.(*ast.Ident); ok && id.Name == "nil" {
			if n == 1 && d.ent.out != "" {
				return d.rt(".ok " + d.ent.out) // the receiver / out-parameter as left by the function
			}
			return d.rt(".ok " + val(res[:n-1]))
		}
		if call, ok := last.(*ast.CallExpr); ok {
			if k := d.errKind(call); k != "" {
				return d.rt(".err ." + k)
			}
		}
		if call, ok := last.(*ast.CallExpr); ok && len(call.Args) == 1 && d.ent.errT == "Unit" {
			// an entry with a single, kind-less failure: errors.New("…")
			if sel, ok := call.Fun.(*ast.SelectorExpr); ok && sel.Sel.Name == "New" {
				if x, ok := sel.X.(*ast.Ident); ok && x.Name == "errors" {
					if _, ok := call.Args[0].(*ast.BasicLit); ok {
						return d.rt(".err ()")
					}
				}
			}
		}
		if call, ok := last.(*ast.CallExpr); ok && len(call.Args) >= 2 {
			if sel, ok := call.Fun.(*ast.SelectorExpr); ok && sel.Sel.Name == "Errorf" {
				if lit, ok := call.Args[0].(*ast.BasicLit); ok && strings.Contains(lit.Value, "%w") {
					if id, ok := call.Args[len(call.Args)-1].(*ast.Ident); ok {
						if t, ok := d.errTerm[d.obj(id)]; ok {
							return d.rt(".err " + t) // a wrapped error: the same kind with a longer message
						}
					}
				}
			}
		}
		if id, ok := last.(*ast.Ident); ok {
			if t, ok := d.errTerm[d.obj(id)]; ok {
				return d.rt(".err " + t)
			}
			// a package-level sentinel error value (`var ErrX = errors.New(…)`)
			if o, ok := d.obj(id).(*types.Var); ok && o.Pkg() != nil && o.Parent() == o.Pkg().Scope() && strings.HasPrefix(id.Name, "Err") {
				return d.rt(".err ." + id.Name)
			}
		}
		d.fail(st, "error result outside the T8 subset")
	case lastK == "bool" && n == 2:
		b := d.expr(res[1], pre)
		if b.known == nil {
			d.fail(st, "(T, bool) result with a computed flag")
		} else if *b.known {
			return d.rt(".ok " + val(res[:1]))
		} else {
			return d.rt(".err ()")
		}
	default:
		if d.ent.out != "" {
			return d.rt(".ok (" + val(res) + ", " + d.ent.out + ")") // the value(s) and the receiver as left by the function
		}
		return d.rt(".ok " + val(res))
	}
	return d.rt(".panic")
}

func (d *d8) stmts(list []ast.Stmt, k func() *dnode) *dnode {
	if d.err != nil {
		return d.rt(".panic")
	}
	if len(list) == 0 {
		return k()
	}
	s, rest := list[0], list[1:]
	next := func() *dnode { return d.stmts(rest, k) }
	var pre []*dnode
	switch st := s.(type) {
	case *ast.ReturnStmt:
		n := d.retNode(st, &pre)
		return chain(pre, n)
	case *ast.BranchStmt:
		if st.Tok == token.CONTINUE && d.cont != nil && st.Label == nil {
			return d.cont()
		}
		d.fail(st, "branch statement %s", st.Tok)
	case *ast.DeferStmt:
		if fn, _ := d.callee(st.Call); fn != nil && (fn.Name() == "zeroArray32" || fn.Name() == "zeroArray") {
			return next() // wipes a local buffer after the result is computed
		}
		d.fail(st, "defer outside the T8 subset")
	case *ast.BlockStmt:
		return d.stmts(append(append([]ast.Stmt{}, st.List...), rest...), k)
	case *ast.IfStmt:
		return d.ifStmt(st, next)
	case *ast.ForStmt:
		return d.forStmt(st, next)
	case *ast.RangeStmt:
		// for i := range a, a an ARRAY (constant length), index only, no early exit → fold over List.range n
		if xk, _ := d.kindOf(d.p.info.Types[st.X].Type); xk == "ints" {
			// for _, v := range xs (a []uint32) with early exits: a top-level function recursive on the list; what
			// follows the loop is translated inside it (the `[]` arm)
			kid, kIsId := st.Key.(*ast.Ident)
			vid, vIsId := st.Value.(*ast.Ident)
			if !kIsId || kid.Name != "_" || !vIsId || st.Tok != token.DEFINE {
				d.fail(st, "range over a slice: form")
				break
			}
			xs := d.expr(st.X, &pre)
			params := append([]string{}, d.scope...)
			var psig []string
			for _, p := range params {
				psig = append(psig, fmt.Sprintf("(%s : %s)", p, d.stype[p]))
			}
			aux := d.ent.lean + "_loop"
			e, kn, sc, stp := d.snapshot()
			au := d.saveAux()
			d.declare(vid.Name, "int")
			d.env[d.p.info.Defs[vid]] = &dloc{root: vid.Name, kind: "int"}
			callNext := func() *dnode {
				return d.rt0(aux + " " + strings.Join(append(extraArgs(d.ent), params...), " ") + " rest_")
			}
			savedCont := d.cont
			d.cont = callNext
			body := d.stmts(st.Body.List, callNext)
			d.cont = savedCont
			d.restore(e, kn, sc, stp)
			d.facts, d.lenDef = au.facts, au.lenDef
			after := d.branch(nil, next)
			var sb strings.Builder
			fmt.Fprintf(&sb, "def %s %s %s : List Nat → %s\n  | [] => (\n", aux, d.ent.extra, strings.Join(psig, " "), d.retType())
			after.print(&sb, "    ")
			fmt.Fprintf(&sb, "  )\n  | %s :: rest_ => (\n", vid.Name)
			body.print(&sb, "    ")
			sb.WriteString("  )\n")
			d.aux = append(d.aux, sb.String())
			return chain(pre, d.rt0(fmt.Sprintf("%s %s %s", aux, strings.Join(append(extraArgs(d.ent), params...), " "), xs.term)))
		}
		if xk, _ := d.kindOf(d.p.info.Types[st.X].Type); xk == "bytes" && st.Value != nil && st.Tok == token.DEFINE && !hasTerminator(st.Body.List) {
			// for i, b := range bs : fold over the indices, b = bs[i] (the range expression is evaluated once, before)
			kid, kIsId := st.Key.(*ast.Ident)
			vid, vIsId := st.Value.(*ast.Ident)
			if kIsId && vIsId {
				xs := d.expr(st.X, &pre)
				seqName := d.tmp("rng")
				pre = append(pre, &dnode{kind: "let", name: seqName, term: xs.term})
				d.declare(seqName, "bytes")
				e, kn, sc, stp := d.snapshot()
				au := d.saveAux()
				idx := kid.Name
				if idx == "_" {
					idx = d.tmp("i")
				} else {
					d.env[d.p.info.Defs[kid]] = &dloc{root: idx, kind: "int"}
				}
				d.stype[idx] = "Nat"
				var bpre []*dnode
				bpre = append(bpre, &dnode{kind: "let", name: vid.Name, term: "(" + seqName + ".getD " + idx + " 0).toNat"})
				d.declare(vid.Name, "int")
				d.env[d.p.info.Defs[vid]] = &dloc{root: vid.Name, kind: "int"}
				d.byteVars[vid.Name] = true
				W := &[]string{}
				d.wstack = append(d.wstack, map[string]bool{})
				d.inFold++
				body := chain(bpre, d.stmts(st.Body.List, func() *dnode { return &dnode{kind: "tuple", names: W} }))
				d.inFold--
				d.restore(e, kn, sc, stp)
				d.facts, d.lenDef = au.facts, au.lenDef
				w := d.wstack[len(d.wstack)-1]
				d.wstack = d.wstack[:len(d.wstack)-1]
				for n := range w {
					if _, live := d.stype[n]; live {
						*W = append(*W, n)
					}
				}
				sort.Strings(*W)
				for _, n := range *W {
					d.wrote(n)
				}
				if len(*W) == 0 {
					return chain(pre, next())
				}
				return chain(pre, &dnode{kind: "fold", names: W, term: "(List.range " + seqName + ".length)", name: idx, a: body, b: next()})
			}
		}
		arr, isArr := d.p.info.Types[st.X].Type.Underlying().(*types.Array)
		id, isId := st.Key.(*ast.Ident)
		if !isArr || !isId || st.Value != nil || st.Tok != token.DEFINE || hasTerminator(st.Body.List) {
			d.fail(st, "range form outside the T8 subset")
			break
		}
		o := d.p.info.Defs[id]
		e, kn, sc, stp := d.snapshot()
		aux := d.saveAux()
		d.env[o] = &dloc{root: id.Name, kind: "int"}
		d.stype[id.Name] = "Nat"
		d.loopVar[o] = fmt.Sprint(arr.Len())
		W := &[]string{}
		d.wstack = append(d.wstack, map[string]bool{})
		d.inFold++
		body := d.stmts(st.Body.List, func() *dnode { return &dnode{kind: "tuple", names: W} })
		d.inFold--
		d.restore(e, kn, sc, stp)
		d.facts, d.lenDef = aux.facts, aux.lenDef
		delete(d.loopVar, o)
		w := d.wstack[len(d.wstack)-1]
		d.wstack = d.wstack[:len(d.wstack)-1]
		for n := range w {
			if _, live := d.stype[n]; live {
				*W = append(*W, n)
			}
		}
		sort.Strings(*W)
		for _, n := range *W {
			d.wrote(n)
		}
		if len(*W) == 0 {
			return next()
		}
		return &dnode{kind: "fold", names: W, term: fmt.Sprintf("(List.range (%d))", arr.Len()), name: id.Name, a: body, b: next()}
	case *ast.SwitchStmt:
		// switch tag { case a, b: … } without fallthrough → an if / else-if chain on equality with the tag
		if st.Init != nil || st.Tag == nil {
			d.fail(st, "switch form")
			break
		}
		tag := d.expr(st.Tag, &pre)
		var build func(i int) *dnode
		build = func(i int) *dnode {
			if i == len(st.Body.List) {
				return next()
			}
			cc := st.Body.List[i].(*ast.CaseClause)
			if len(cc.Body) == 1 && i+1 < len(st.Body.List) {
				if br, ok := cc.Body[0].(*ast.BranchStmt); ok && br.Tok == token.FALLTHROUGH {
					if nx := st.Body.List[i+1].(*ast.CaseClause); nx.List == nil && i+2 == len(st.Body.List) {
						return build(i + 1) // falls through into the default clause: the case adds nothing
					}
				}
			}
			if cc.List == nil { // default: must be last
				if i != len(st.Body.List)-1 {
					d.fail(cc, "default clause that is not last")
				}
				return d.branch(cc.Body, next)
			}
			var conds []string
			var p2 []*dnode
			for _, e := range cc.List {
				conds = append(conds, "("+tag.term+" == "+d.expr(e, &p2).term+")")
			}
			if len(p2) > 0 {
				d.fail(cc, "effects in a case expression")
			}
			return &dnode{kind: "if", term: strings.Join(conds, " || "), a: d.branch(cc.Body, next), b: build(i + 1)}
		}
		return chain(pre, build(0))
	case *ast.ExprStmt:
		if call, ok := st.X.(*ast.CallExpr); ok {
			if id, ok := call.Fun.(*ast.Ident); ok && id.Name == "panic" {
				if d.ent.total {
					d.fail(st, "panic in a total entry")
				}
				return d.rt(".panic")
			}
		}
		if !d.simple(s, &pre) {
			return chain(pre, next())
		}
		d.fail(s, "expression statement outside the T8 subset")
	case *ast.AssignStmt:
		if n := d.fallibleAssign(st, next); n != nil {
			return n
		}
		if !d.simple(s, &pre) {
			return chain(pre, next())
		}
		d.fail(s, "assignment outside the T8 subset")
	default:
		if !d.simple(s, &pre) {
			return chain(pre, next())
		}
		d.fail(s, "statement %T outside the T8 subset", s)
	}
	return d.rt(".panic")
}

// fallibleAssign: `x, err := entry(...)`, `x, ok := entry(...)`, `x := entry(...)`, `k := NonceRFC6979(...)`
func (d *d8) fallibleAssign(st *ast.AssignStmt, next func() *dnode) *dnode {
	if len(st.Rhs) != 1 || (st.Tok != token.DEFINE && st.Tok != token.ASSIGN) {
		return nil
	}
	if st.Tok == token.ASSIGN {
		for _, l := range st.Lhs {
			if _, ok := l.(*ast.Ident); !ok {
				return nil
			}
		}
		c, ok := st.Rhs[0].(*ast.CallExpr)
		if !ok {
			return nil
		}
		if fn, _ := d.callee(c); fn == nil || !d.isFallibleEntry(fn) {
			return nil // plain assignments keep their old path (and their old numbering of temporaries)
		}
	}
	call, ok := st.Rhs[0].(*ast.CallExpr)
	if !ok {
		return nil
	}
	fn, _ := d.callee(call)
	if fn == nil {
		return nil
	}
	var pre []*dnode
	if fn.Name() == "NonceRFC6979" && len(st.Lhs) == 1 {
		var a []string
		for i := 0; i < 5; i++ {
			v := d.expr(call.Args[i], &pre)
			if v.kind == "nil" {
				a = append(a, "[]")
			} else {
				a = append(a, v.term)
			}
		}
		id := st.Lhs[0].(*ast.Ident)
		name := d.fresh(id.Name)
		d.declare(name, "scalar")
		d.env[d.p.info.Defs[id]] = &dloc{root: name, kind: "scalar"}
		body := next()
		return chain(pre, &dnode{kind: "match", term: "nonceM 256 " + strings.Join(a, " "),
			arms: []darm{{"none", d.rt(".fuel")}, {"some " + name, body}}})
	}
	if fn.Name() == "hmacCKD" && len(st.Lhs) == 3 && d.ent.errT == "BipErr" {
		// key, chainCode, err := hmacCKD(seed, salt): HMAC-SHA512 is an oracle parameter of the models (`Oracles`);
		// the model's hmacCKD returns the two halves and whether the key half is a valid scalar
		seed, salt := d.expr(call.Args[0], &pre), d.expr(call.Args[1], &pre)
		var names []string
		for i := 0; i < 2; i++ {
			id := st.Lhs[i].(*ast.Ident)
			n := d.fresh(id.Name)
			names = append(names, n)
			d.declare(n, "bytes")
			d.env[d.p.info.Defs[id]] = &dloc{root: n, kind: "bytes"}
		}
		okv := d.tmp("ckdOk")
		d.declare(okv, "bool")
		errId := st.Lhs[2].(*ast.Ident)
		eo := d.p.info.Defs[errId]
		if eo == nil {
			eo = d.p.info.Uses[errId]
		}
		e0, kn0, sc0, st0 := d.snapshot()
		d.env[eo] = &dloc{root: "?err", kind: "err"}
		d.known[eo] = true
		d.errTerm[eo] = ".ErrShaKeyInvalid"
		bad := next()
		d.restore(e0, kn0, sc0, st0)
		delete(d.errTerm, eo)
		e1, kn1, sc1, st1 := d.snapshot()
		d.env[eo] = &dloc{root: "?err", kind: "err"}
		d.known[eo] = false
		good := next()
		d.restore(e1, kn1, sc1, st1)
		pre = append(pre, &dnode{kind: "let", name: "(" + names[0] + ", " + names[1] + ", " + okv + ")", term: "hmacCKD O " + seed.term + " " + salt.term})
		return chain(pre, &dnode{kind: "if", term: "(!" + okv + ")", a: bad, b: good})
	}
	if fn.Name() == "ParseCompactSignature" && len(st.Lhs) == 3 && d.ent.errT == "SigErr" {
		// sig, wasCompressed, err := ParseCompactSignature(b): the model's parser (= the regenerated one: C07
		// parseCompact_regenerated); its error carries the flag as well
		b := d.expr(call.Args[0], &pre)
		sigId, flagId, errId := st.Lhs[0].(*ast.Ident), st.Lhs[1].(*ast.Ident), st.Lhs[2].(*ast.Ident)
		eo := d.p.info.Defs[errId]
		if eo == nil {
			eo = d.p.info.Uses[errId]
		}
		e0, kn0, sc0, st0 := d.snapshot()
		d.env[eo] = &dloc{root: "?err", kind: "err"}
		d.known[eo] = true
		d.errTerm[eo] = "pce"
		fn0 := d.fresh(flagId.Name)
		d.declare(fn0, "bool")
		d.env[d.p.info.Defs[flagId]] = &dloc{root: fn0, kind: "bool"}
		bad := next()
		d.restore(e0, kn0, sc0, st0)
		delete(d.errTerm, eo)
		e1, kn1, sc1, st1 := d.snapshot()
		d.env[eo] = &dloc{root: "?err", kind: "err"}
		d.known[eo] = false
		sn := d.fresh(sigId.Name)
		d.declare(sn, "sig")
		d.env[d.p.info.Defs[sigId]] = &dloc{root: sn, kind: "sig"}
		fn1 := d.fresh(flagId.Name)
		d.declare(fn1, "bool")
		d.env[d.p.info.Defs[flagId]] = &dloc{root: fn1, kind: "bool"}
		good := next()
		d.restore(e1, kn1, sc1, st1)
		goodN := &dnode{kind: "let", name: sn, term: "(pr, ps, pc)", a: good}
		return chain(pre, &dnode{kind: "match", term: "parseCompactM " + b.term, arms: []darm{
			{".error (pce, " + fn0 + ")", bad}, {".ok (pr, ps, pc, " + fn1 + ")", goodN}}})
	}
	if fn.Name() == "ParsePubKey" && fn.Pkg().Name() == "secp256k1" && len(st.Lhs) == 2 && d.ent.errT == "BipErr" {
		// key, err := secp256k1.ParsePubKey(b): the model's parser (= the regenerated one: C08 parsePubKey_regenerated)
		b := d.expr(call.Args[0], &pre)
		keyId, errId := st.Lhs[0].(*ast.Ident), st.Lhs[1].(*ast.Ident)
		eo := d.p.info.Defs[errId]
		if eo == nil {
			eo = d.p.info.Uses[errId]
		}
		e0, kn0, sc0, st0 := d.snapshot()
		d.env[eo] = &dloc{root: "?err", kind: "err"}
		d.known[eo] = true
		d.errTerm[eo] = "(.Pub pe)"
		bad := next()
		d.restore(e0, kn0, sc0, st0)
		delete(d.errTerm, eo)
		e1, kn1, sc1, st1 := d.snapshot()
		d.env[eo] = &dloc{root: "?err", kind: "err"}
		d.known[eo] = false
		pat := "_"
		if keyId.Name != "_" {
			pat = d.fresh(keyId.Name)
			d.declare(pat, "pub")
			d.env[d.p.info.Defs[keyId]] = &dloc{root: pat, kind: "pub"}
		}
		good := next()
		d.restore(e1, kn1, sc1, st1)
		return chain(pre, &dnode{kind: "match", term: "parsePubKey " + b.term, arms: []darm{
			{".panic", d.rt(".panic")}, {".err pe", bad}, {".ok " + pat, good}}})
	}
	v := d.expr(call, &pre)
	if v.kind != "entry" || d8entries[v.width].total {
		return nil
	}
	if d.ent.total {
		d.fail(st, "fallible call in a total entry")
		return nil
	}
	ent := d8entries[v.width]
	res, _ := d.p.info.Types[call].Type.(*types.Tuple)
	nres := 1
	if res != nil {
		nres = res.Len()
	}
	if len(st.Lhs) != nres {
		return nil
	}
	// value variables (all but a trailing err / ok flag)
	flagged := false
	if res != nil {
		lk, _ := d.kindOf(res.At(nres - 1).Type())
		flagged = lk == "err" || (lk == "bool" && nres == 2)
	}
	nval := nres
	if flagged {
		nval--
	}
	e0, kn0, sc0, st0 := d.snapshot()
	// ok arm
	var names []string
	var obigFix [][2]string
	for i := 0; i < nval; i++ {
		id := st.Lhs[i].(*ast.Ident)
		var t types.Type
		if res != nil {
			t = res.At(i).Type()
		} else {
			t = d.p.info.Types[call].Type
		}
		kk, _ := d.kindOf(t)
		if id.Name == "_" {
			names = append(names, "_")
			continue
		}
		if st.Tok == token.ASSIGN || d.p.info.Defs[id] == nil {
			// an existing variable is assigned: re-bind its own Lean name
			l := d.env[d.obj(id)]
			if l == nil || len(l.path) != 0 || l.ro {
				d.fail(st, "assignment of a call result to %s", id.Name)
				return nil
			}
			if l.kind == "obig" && kk == "big" {
				t := d.tmp(id.Name + "_")
				names = append(names, t)
				d.declare(t, "big")
				obigFix = append(obigFix, [2]string{l.root, t})
				d.wrote(l.root)
				continue
			}
			names = append(names, l.root)
			d.wrote(l.root)
			continue
		}
		name := d.fresh(id.Name)
		names = append(names, name)
		d.declare(name, kk)
		d.env[d.p.info.Defs[id]] = &dloc{root: name, kind: kk}
	}
	if flagged {
		id := st.Lhs[nres-1].(*ast.Ident)
		if o := d.p.info.Defs[id]; o != nil {
			lk, _ := d.kindOf(res.At(nres - 1).Type())
			d.env[o] = &dloc{root: "?flag", kind: lk}
			d.known[o] = lk == "bool" // ok = true / err = nil (non-nil-ness false)
		} else if o := d.p.info.Uses[id]; o != nil {
			lk, _ := d.kindOf(res.At(nres - 1).Type())
			d.known[o] = lk == "bool"
		}
	}
	okBody := next()
	for _, f := range obigFix {
		okBody = &dnode{kind: "let", name: f[0], term: "some " + f[1], a: okBody}
	}
	d.restore(e0, kn0, sc0, st0)
	// err arm: the value variables hold nil / zero values that the code does not read when the flag says failure
	e1, kn1, sc1, st1 := d.snapshot()
	for i := 0; i < nval; i++ {
		id := st.Lhs[i].(*ast.Ident)
		if id.Name != "_" && d.p.info.Defs[id] != nil && st.Tok == token.DEFINE {
			d.env[d.p.info.Defs[id]] = &dloc{root: "?unset", kind: "nil"}
		}
	}
	if flagged {
		id := st.Lhs[nres-1].(*ast.Ident)
		o := d.p.info.Defs[id]
		if o == nil {
			o = d.p.info.Uses[id]
		}
		lk, _ := d.kindOf(res.At(nres - 1).Type())
		d.env[o] = &dloc{root: "?flag", kind: lk}
		d.known[o] = lk != "bool"
	}
	errPat := ".err _"
	var errBody *dnode
	if flagged {
		if lk, _ := d.kindOf(res.At(nres - 1).Type()); lk == "err" && ent.errT == d.ent.errT {
			// the callee's error value may be returned as it is
			id := st.Lhs[nres-1].(*ast.Ident)
			o := d.p.info.Defs[id]
			if o == nil {
				o = d.p.info.Uses[id]
			}
			en := d.tmp("e")
			errPat = ".err " + en
			d.errTerm[o] = en
			errBody = next()
			delete(d.errTerm, o)
		} else {
			errBody = next()
		}
	} else {
		errBody = d.rt(".err e")
		errPat = ".err e"
		if ent.errT != d.ent.errT {
			d.fail(st, "error type of callee differs")
		}
	}
	d.restore(e1, kn1, sc1, st1)
	d.restore(e0, kn0, sc0, st0)
	return chain(pre, &dnode{kind: "match", term: v.term, arms: []darm{
		{".panic", d.rt(".panic")},
		{".fuel", d.rt(".fuel")},
		{".undef", d.rt(".undef")},
		{errPat, errBody},
		{".ok " + tupleOf(names), okBody},
	}})
}

func (d *d8) ifStmt(st *ast.IfStmt, next func() *dnode) *dnode {
	var pre []*dnode
	// `if valid := DecompressY(&x, odd, &y); !valid { … }`
	if as, ok := st.Init.(*ast.AssignStmt); ok && len(as.Rhs) == 1 {
		if call, ok := as.Rhs[0].(*ast.CallExpr); ok {
			if fn, _ := d.callee(call); fn != nil && fn.Name() == "DecompressY" {
				if u, ok := st.Cond.(*ast.UnaryExpr); ok && u.Op == token.NOT && st.Else == nil {
					x := d.expr(call.Args[0], &pre)
					odd := d.expr(call.Args[1], &pre)
					y := d.lvalue(call.Args[2], &pre)
					bad := d.branch(st.Body.List, next)
					d.wrote(y.root)
					good := next()
					return chain(pre, &dnode{kind: "match", term: "decompressYJ " + x.term + " " + odd.term,
						arms: []darm{{"none", bad}, {"some " + y.root, good}}})
				}
			}
		}
	}
	// `if o, ok := opts.(*SignOptions); ok { … } else { … }` : a match on the dynamic type
	if as, ok := st.Init.(*ast.AssignStmt); ok && len(as.Rhs) == 1 && len(as.Lhs) == 2 && as.Tok == token.DEFINE {
		if ta, ok := as.Rhs[0].(*ast.TypeAssertExpr); ok {
			src := d.expr(ta.X, &pre)
			oId, okId := as.Lhs[0].(*ast.Ident), as.Lhs[1].(*ast.Ident)
			ci, isId := st.Cond.(*ast.Ident)
			tk, _ := d.kindOf(d.p.info.Types[ta.Type].Type)
			var elseList []ast.Stmt
			if eb, ok := st.Else.(*ast.BlockStmt); ok {
				elseList = eb.List
			}
			if src.kind == "sopts" && tk == "sopt" && isId && ci.Name == okId.Name && !hasTerminator(st.Body.List) && !hasTerminator(elseList) {
				W := &[]string{}
				d.wstack = append(d.wstack, map[string]bool{})
				e0, kn0, sc0, st0 := d.snapshot()
				on := d.fresh(oId.Name)
				d.declare(on, "sopt")
				d.env[d.p.info.Defs[oId]] = &dloc{root: on, kind: "sopt"}
				a := d.stmts(st.Body.List, func() *dnode { return &dnode{kind: "tuple", names: W} })
				d.restore(e0, kn0, sc0, st0)
				b := d.branch(elseList, func() *dnode { return &dnode{kind: "tuple", names: W} })
				w := d.wstack[len(d.wstack)-1]
				d.wstack = d.wstack[:len(d.wstack)-1]
				for n := range w {
					if _, live := d.stype[n]; live {
						*W = append(*W, n)
					}
				}
				sort.Strings(*W)
				for _, n := range *W {
					d.wrote(n)
				}
				m := &dnode{kind: "match", term: src.term, arms: []darm{{"some " + on, a}, {"none", b}}}
				return chain(pre, &dnode{kind: "lett", names: W, a: m, b: next()})
			}
			d.fail(st, "type assertion outside the T8 subset")
		}
	}
	// `if _, err := io.ReadFull(r, buf[:]); err != nil { … }` with a 32-byte buffer (model: readFull32)
	if as, ok := st.Init.(*ast.AssignStmt); ok && len(as.Rhs) == 1 && len(as.Lhs) == 2 {
		if call, ok := as.Rhs[0].(*ast.CallExpr); ok {
			if sel, ok := call.Fun.(*ast.SelectorExpr); ok && sel.Sel.Name == "ReadFull" && len(call.Args) == 2 {
				cond, ok2 := st.Cond.(*ast.BinaryExpr)
				errId, ok3 := as.Lhs[1].(*ast.Ident)
				rd := d.lvalue(call.Args[0], &pre)
				buf := d.lvalue(call.Args[1], &pre)
				arr, isArr := d.p.info.Types[call.Args[1].(*ast.SliceExpr).X].Type.Underlying().(*types.Array)
				if ok2 && ok3 && cond.Op == token.NEQ && st.Else == nil && rd.kind == "reader" && buf.lo == "" && isArr && arr.Len() == 32 {
					eo := d.p.info.Defs[errId]
					e0, kn0, sc0, st0 := d.snapshot()
					d.env[eo] = &dloc{root: "?err", kind: "err"}
					d.known[eo] = true
					d.errTerm[eo] = "ioe"
					bad := d.stmts(st.Body.List, next)
					d.restore(e0, kn0, sc0, st0)
					delete(d.errTerm, eo)
					d.wrote(buf.root)
					d.wrote(rd.root)
					good := next()
					return chain(pre, &dnode{kind: "match", term: "readFull32 " + rd.read(),
						arms: []darm{{"(.error ioe, " + rd.root + ")", bad}, {"(.ok " + buf.root + ", " + rd.root + ")", good}}})
				}
			}
		}
	}
	if as, ok := st.Init.(*ast.AssignStmt); ok && len(as.Rhs) == 1 {
		if call, ok := as.Rhs[0].(*ast.CallExpr); ok {
			if fn, _ := d.callee(call); fn != nil && (d.isFallibleEntry(fn) || fn.Name() == "ParsePubKey" || fn.Name() == "hmacCKD" || fn.Name() == "ParseCompactSignature") {
				// if x, err := f(…); cond { … } with f handled as a statement form: the initialiser first, then the bare if
				bare := *st
				bare.Init = nil
				return d.stmts([]ast.Stmt{as, &bare}, next)
			}
		}
	}
	if st.Init != nil {
		if d.simple(st.Init, &pre) {
			d.fail(st.Init, "if-initialiser outside the T8 subset")
		}
	}
	c := d.expr(st.Cond, &pre)
	if c.kind != "bool" {
		d.fail(st.Cond, "condition of kind %s", c.kind)
	}
	var elseList []ast.Stmt
	switch e := st.Else.(type) {
	case *ast.BlockStmt:
		elseList = e.List
	case *ast.IfStmt:
		elseList = []ast.Stmt{e}
	}
	if c.known != nil {
		if *c.known {
			return chain(pre, d.stmts(st.Body.List, next))
		}
		return chain(pre, d.stmts(elseList, next))
	}
	cf := d.condFacts(st.Cond)
	if hasTerminator(st.Body.List) || hasTerminator(elseList) {
		a := d.branchWith(cf, st.Body.List, next)
		b := d.branch(elseList, next)
		return chain(pre, &dnode{kind: "if", term: c.term, a: a, b: b})
	}
	// the max idiom `if x < B { x = B }`: afterwards x ≥ B, and everything x was known to exceed it still exceeds
	var maxFacts []string
	if bc, ok := st.Cond.(*ast.BinaryExpr); ok && bc.Op == token.LSS && st.Else == nil && len(st.Body.List) == 1 {
		if as, ok := st.Body.List[0].(*ast.AssignStmt); ok && as.Tok == token.ASSIGN && len(as.Lhs) == 1 {
			xi, ok1 := bc.X.(*ast.Ident)
			li, ok2 := as.Lhs[0].(*ast.Ident)
			if ok1 && ok2 && xi.Name == li.Name && exprString(bc.Y) == exprString(as.Rhs[0]) {
				var p2 []*dnode
				xt, bt := d.intTerm(bc.X, &p2), d.intTerm(bc.Y, &p2)
				if len(p2) == 0 {
					maxFacts = append(maxFacts, xt+"≥"+bt)
					for f := range d.facts {
						if strings.HasPrefix(f, xt+"≥") {
							maxFacts = append(maxFacts, f)
						}
					}
				}
			}
		}
	}
	// both branches fall through: re-bind the locations they write
	W := &[]string{}
	envBefore := fmt.Sprint(len(d.env))
	d.wstack = append(d.wstack, map[string]bool{})
	a := d.branchWith(cf, st.Body.List, func() *dnode { return &dnode{kind: "tuple", names: W} })
	b := d.branch(elseList, func() *dnode { return &dnode{kind: "tuple", names: W} })
	w := d.wstack[len(d.wstack)-1]
	d.wstack = d.wstack[:len(d.wstack)-1]
	_ = envBefore
	for n := range w {
		if _, live := d.stype[n]; live { // locations declared inside the branch die with it
			*W = append(*W, n)
		}
	}
	sort.Strings(*W)
	if len(*W) == 0 {
		return chain(pre, next())
	}
	for _, n := range *W {
		d.wrote(n)
	}
	for _, f := range maxFacts {
		d.facts[f] = true
	}
	return chain(pre, &dnode{kind: "lett", names: W, a: &dnode{kind: "if", term: c.term, a: a, b: b}, b: next()})
}

func (d *d8) forStmt(st *ast.ForStmt, next func() *dnode) *dnode {
	var pre []*dnode
	// (0) for len(x) > 0 && x[0] == 0x00 { x = x[1:] } → stripZeros
	if st.Init == nil && st.Post == nil && st.Cond != nil && len(st.Body.List) == 1 {
		if c, ok := st.Cond.(*ast.BinaryExpr); ok && c.Op == token.LAND {
			if as, ok := st.Body.List[0].(*ast.AssignStmt); ok && as.Tok == token.ASSIGN && len(as.Lhs) == 1 {
				if id, ok := as.Lhs[0].(*ast.Ident); ok {
					n := id.Name
					isN := func(e ast.Expr) bool { x, ok := e.(*ast.Ident); return ok && x.Name == n }
					isC := func(e ast.Expr, v string) bool { c, ok := d.constVal(e); return ok && c == v }
					lenPos := func(e ast.Expr) bool {
						b, ok := e.(*ast.BinaryExpr)
						if !ok || b.Op != token.GTR || !isC(b.Y, "0") {
							return false
						}
						call, ok := b.X.(*ast.CallExpr)
						if !ok || len(call.Args) != 1 || !isN(call.Args[0]) {
							return false
						}
						f, ok := call.Fun.(*ast.Ident)
						return ok && f.Name == "len"
					}
					firstZero := func(e ast.Expr) bool {
						b, ok := e.(*ast.BinaryExpr)
						if !ok || b.Op != token.EQL || !isC(b.Y, "0") {
							return false
						}
						ix, ok := b.X.(*ast.IndexExpr)
						return ok && isN(ix.X) && isC(ix.Index, "0")
					}
					tail := func(e ast.Expr) bool {
						sl, ok := e.(*ast.SliceExpr)
						return ok && isN(sl.X) && sl.High == nil && sl.Max == nil && sl.Low != nil && isC(sl.Low, "1")
					}
					if lenPos(c.X) && firstZero(c.Y) && tail(as.Rhs[0]) {
						if sl, ok := as.Rhs[0].(*ast.SliceExpr); ok && sl.High == nil && sl.Low != nil {
							l := d.lvalue(id, &pre)
							if l.kind == "bytes" && l.lo == "" {
								d.write(l, "stripZeros "+l.read(), &pre)
								return chain(pre, next())
							}
						}
					}
				}
			}
		}
	}
	// (1) loops without early exit over a sequence known up front → List.foldl
	if st.Cond != nil && st.Init != nil && st.Post != nil && !hasTerminator(st.Body.List) {
		as, ok1 := st.Init.(*ast.AssignStmt)
		cond, ok2 := st.Cond.(*ast.BinaryExpr)
		if ok1 && ok2 && len(as.Lhs) == 1 && len(as.Rhs) == 1 && as.Tok == token.DEFINE {
			id := as.Lhs[0].(*ast.Ident)
			o := d.p.info.Defs[id]
			_, vw := d.kindOf(o.Type())
			seq, bound := "", ""
			inc, isIncDec := st.Post.(*ast.IncDecStmt)
			condOnVar := func() bool { x, ok := cond.X.(*ast.Ident); return ok && x.Name == id.Name }()
			switch {
			case isIncDec && inc.Tok == token.INC && cond.Op == token.LSS && condOnVar:
				// for i := 0; i < n; i++
				if c, ok := d.constVal(as.Rhs[0]); ok && c == "0" {
					bound = d.intTerm(cond.Y, &pre)
					seq = "(List.range (" + bound + "))"
				}
			case isIncDec && inc.Tok == token.DEC && cond.Op == token.GEQ && condOnVar:
				// for i := n - 1; i >= 0; i--
				if c, ok := d.constVal(cond.Y); ok && c == "0" {
					if sub, ok := as.Rhs[0].(*ast.BinaryExpr); ok && sub.Op == token.SUB {
						if one, ok := d.constVal(sub.Y); ok && one == "1" {
							bound = d.intTerm(sub.X, &pre)
							seq = "(List.range (" + bound + ")).reverse"
						}
					}
				}
			default:
				// a variable of a sized type stepping through constants: the sequence is computed here
				if vals, ok := d.constSequence(id.Name, vw, as.Rhs[0], cond, st.Post); ok && condOnVar {
					seq = "[" + strings.Join(vals, ", ") + "]"
				}
			}
			if seq != "" {
				if bound != "" {
					d.loopVar[o] = bound
				}
				e, kn, sc, stp := d.snapshot()
				aux := d.saveAux()
				d.env[o] = &dloc{root: id.Name, kind: "int"}
				d.stype[id.Name] = "Nat"
				W := &[]string{}
				d.wstack = append(d.wstack, map[string]bool{})
				d.inFold++
				body := d.stmts(st.Body.List, func() *dnode { return &dnode{kind: "tuple", names: W} })
				d.inFold--
				d.restore(e, kn, sc, stp)
				d.facts, d.lenDef = aux.facts, aux.lenDef
				w := d.wstack[len(d.wstack)-1]
				d.wstack = d.wstack[:len(d.wstack)-1]
				for n := range w {
					if _, live := d.stype[n]; live {
						*W = append(*W, n)
					}
				}
				sort.Strings(*W)
				delete(d.loopVar, o)
				for _, n := range *W {
					d.wrote(n)
				}
				if len(*W) == 0 {
					return chain(pre, next())
				}
				return chain(pre, &dnode{kind: "fold", names: W, term: seq, name: id.Name, a: body, b: next()})
			}
		}
	}
	// (2) for init; ; post { … } : recursion on fuel, a top-level auxiliary definition
	if d.ent.fuel != "" {
		var vars, inits, vkinds []string
		if st.Init != nil {
			as, ok := st.Init.(*ast.AssignStmt)
			if !ok || as.Tok != token.DEFINE || len(as.Lhs) != 1 {
				d.fail(st, "loop initialiser")
				return d.rt(".panic")
			}
			id := as.Lhs[0].(*ast.Ident)
			v := d.expr(as.Rhs[0], &pre)
			vars = append(vars, id.Name)
			inits = append(inits, v.term)
			vkinds = append(vkinds, v.kind)
			d.env[d.p.info.Defs[id]] = &dloc{root: id.Name, kind: v.kind}
		}
		// parameters: every Lean variable in scope
		params := append([]string{}, d.scope...)
		var psig []string
		for _, p := range params {
			psig = append(psig, fmt.Sprintf("(%s : %s)", p, d.stype[p]))
		}
		aux := d.ent.lean + "_loop"
		e, kn, sc, stp := d.snapshot()
		for i, v := range vars {
			d.declare(v, vkinds[i])
		}
		callNext := func() *dnode {
			var pp []*dnode
			if st.Post != nil {
				if d.simple(st.Post, &pp) {
					d.fail(st.Post, "loop post statement")
				}
			}
			args := append([]string{}, params...)
			return chain(pp, d.rt0(aux+" "+strings.Join(append(extraArgs(d.ent), args...), " ")+" fuel "+strings.Join(vars, " ")))
		}
		savedCont := d.cont
		d.cont = callNext
		var body *dnode
		if st.Cond != nil {
			var cpre []*dnode
			c := d.expr(st.Cond, &cpre)
			if c.kind != "bool" {
				d.fail(st.Cond, "loop condition of kind %s", c.kind)
			}
			in := d.branch(st.Body.List, callNext)
			d.cont = savedCont
			out := d.branch(nil, next) // what follows the loop, inside the auxiliary definition
			body = chain(cpre, &dnode{kind: "if", term: c.term, a: in, b: out})
		} else {
			body = d.stmts(st.Body.List, callNext)
		}
		d.cont = savedCont
		d.restore(e, kn, sc, stp)
		var sb strings.Builder
		fmt.Fprintf(&sb, "def %s %s %s : Nat → %s%s\n", aux, d.ent.extra, strings.Join(psig, " "), func() string {
			s := ""
			for _, k := range vkinds {
				s += leanType[k] + " → "
			}
			return s
		}(), d.retType())
		fmt.Fprintf(&sb, "  | 0%s => %s\n", strings.Repeat(", _", len(vars)), d.rtTerm(".fuel"))
		fmt.Fprintf(&sb, "  | fuel+1%s => (\n", func() string {
			s := ""
			for _, v := range vars {
				s += ", " + v
			}
			return s
		}())
		body.print(&sb, "    ")
		sb.WriteString("  )\n")
		d.aux = append(d.aux, sb.String())
		return chain(pre, d.rt0(fmt.Sprintf("%s %s (%s) %s", aux, strings.Join(append(extraArgs(d.ent), params...), " "), d.ent.fuel, strings.Join(inits, " "))))
	}
	d.fail(st, "loop form outside the T8 subset")
	return d.rt(".panic")
}

// rt: a result; when the entry reads from an io.Reader the reader's final state travels with every result
func (d *d8) rt(term string) *dnode {
	if d.reader != "" {
		term = "(" + term + ", " + d.reader + ")"
	}
	return &dnode{kind: "ret", term: term}
}

// rt0: a tail call of the entry's own loop function (its result already carries the reader)
func (d *d8) rt0(term string) *dnode { return &dnode{kind: "ret", term: term} }

// inHmacTranche: the entry being translated is one of the hmacsha256 methods themselves
func (d *d8) inHmacTranche() bool {
	return strings.HasPrefix(d.ent.key, "hmacsha256.") || d.ent.key == "newHMACSHA256"
}

func (d *d8) rtTerm(term string) string {
	if d.reader != "" {
		return "(" + term + ", " + d.reader + ")"
	}
	return term
}

// constSequence: the values a loop variable of an unsigned sized type takes when it starts at a constant, is tested
// against a constant and stepped by a constant (for mask := uint8(1 << 7); mask > 0; mask >>= 1)
func (d *d8) constSequence(name string, width int, init ast.Expr, cond *ast.BinaryExpr, post ast.Stmt) ([]string, bool) {
	if width == 0 || width > 32 {
		return nil, false
	}
	iv, ok := d.constVal(init)
	cv, ok2 := d.constVal(cond.Y)
	if !ok || !ok2 {
		return nil, false
	}
	var v, c uint64
	fmt.Sscan(iv, &v)
	fmt.Sscan(cv, &c)
	mask := uint64(1)<<uint(width) - 1
	step := func(x uint64) (uint64, bool) {
		switch p := post.(type) {
		case *ast.IncDecStmt:
			if id, ok := p.X.(*ast.Ident); !ok || id.Name != name {
				return 0, false
			}
			if p.Tok == token.INC {
				return (x + 1) & mask, true
			}
			return (x - 1) & mask, true
		case *ast.AssignStmt:
			if len(p.Lhs) != 1 || len(p.Rhs) != 1 {
				return 0, false
			}
			if id, ok := p.Lhs[0].(*ast.Ident); !ok || id.Name != name {
				return 0, false
			}
			kv, ok := d.constVal(p.Rhs[0])
			if !ok {
				return 0, false
			}
			var k uint64
			fmt.Sscan(kv, &k)
			switch p.Tok {
			case token.SHR_ASSIGN:
				return x >> k, true
			case token.SHL_ASSIGN:
				return (x << k) & mask, true
			case token.ADD_ASSIGN:
				return (x + k) & mask, true
			case token.SUB_ASSIGN:
				return (x - k) & mask, true
			}
		}
		return 0, false
	}
	test := func(x uint64) bool {
		switch cond.Op {
		case token.GTR:
			return x > c
		case token.GEQ:
			return x >= c
		case token.LSS:
			return x < c
		case token.LEQ:
			return x <= c
		case token.NEQ:
			return x != c
		}
		return false
	}
	var out []string
	for n := 0; test(v); n++ {
		if n > 256 {
			return nil, false
		}
		out = append(out, fmt.Sprint(v))
		nv, ok := step(v)
		if !ok {
			return nil, false
		}
		v = nv
	}
	return out, len(out) > 0
}

func extraArgs(e *d8entry) []string {
	if e.extraA == "" {
		return nil
	}
	return []string{e.extraA}
}

func (d *d8) retType() string {
	n := d.results.Len()
	var kinds []string
	for i := 0; i < n; i++ {
		k, _ := d.kindOf(d.results.At(i).Type())
		if k == "big" && d.optResult[i] {
			k = "obig"
		}
		kinds = append(kinds, k)
	}
	tup := func(ks []string) string {
		if len(ks) == 0 {
			return "Unit"
		}
		var ts []string
		for _, k := range ks {
			ts = append(ts, "("+leanType[k]+")")
		}
		return strings.Join(ts, " × ")
	}
	if d.ent.total {
		return tup(kinds)
	}
	if n > 0 && (kinds[n-1] == "err" || (kinds[n-1] == "bool" && n == 2)) {
		kinds = kinds[:n-1]
	}
	if len(kinds) == 0 && d.ent.out != "" {
		return "DR " + d.ent.errT + " (" + d.stype[d.ent.out] + ")"
	}
	if d.ent.out != "" && !d.ent.total {
		return "DR " + d.ent.errT + " ((" + tup(kinds) + ") × (" + d.stype[d.ent.out] + "))"
	}
	if d.reader != "" {
		return "DR " + d.ent.errT + " (" + tup(kinds) + ") × Reader"
	}
	return "DR " + d.ent.errT + " (" + tup(kinds) + ")"
}

// ---------------------------------------------------------------- entry point

func passDrivers(pkgs []*Pkg) (string, []string, []string) {
	var errs, warns []string
	var sb strings.Builder
	sb.WriteString("import Secp.Model.Schnorr\nimport Secp.Model.PubKey\nimport Secp.Model.Ecdsa\nimport Secp.Model.PrivKey\nimport Secp.Model.Adaptor\nimport Secp.Model.Nonce\nimport Secp.Model.DriverRt\n/- GENERATED by tools/gotr (pass T8) from /repo — do not edit. -/\nset_option linter.unusedVariables false\nnamespace Secp.Gen.Drivers\nopen Secp.Spec Secp.Model\n\n")
	pv := map[string]string{}
	var body strings.Builder
	for i := range d8entries {
		ent := &d8entries[i]
		var p *Pkg
		want := ent.pkg
		if want == "" {
			want = "secp256k1"
		}
		for _, q := range pkgs {
			if q.pkg.Name() == want {
				p = q
			}
		}
		if p == nil {
			errs = append(errs, "drivers: package "+want+" not loaded")
			continue
		}
		fd := p.funcs[ent.key]
		if fd == nil || fd.Body == nil {
			errs = append(errs, "drivers: function "+ent.key+" not found")
			continue
		}
		d := &d8{pkgs: pkgs, p: p, fn: ent.key, ent: ent, env: map[types.Object]*dloc{}, known: map[types.Object]bool{}, stype: map[string]string{},
			loopVar: map[types.Object]string{}, pv: pv, errTerm: map[types.Object]string{}, facts: map[string]bool{}, lenDef: map[string]string{}, extCopies: map[string]bool{}, byteVars: map[string]bool{}, ghostNil: map[string]bool{}, isParam: map[string]bool{}, ptrParam: map[string]bool{}}
		d.results = p.info.Defs[fd.Name].Type().(*types.Signature).Results()
		var psig []string
		var paramNames []string
		d.stubOK = true
		addParam := func(id *ast.Ident) {
			if ent.skip != "" && id.Name == ent.skip {
				return
			}
			paramNames = append(paramNames, id.Name)
			o := p.info.Defs[id]
			k, _ := d.kindOf(o.Type())
			if leanType[k] == "" {
				d.fail(id, "parameter of kind %q", k)
				return
			}
			_, isPtr := o.Type().(*types.Pointer)
			if ent.out != "" && isPtr && id.Name == ent.out {
				// out-parameter: starts as an arbitrary point, returned at the end
				d.declare(id.Name, k)
				d.env[o] = &dloc{root: id.Name, kind: k}
				psig = append(psig, fmt.Sprintf("(%s : %s)", id.Name, leanType[k]))
				return
			}
			d.declare(id.Name, k)
			d.isParam[id.Name] = true
			if _, isPtr := o.Type().(*types.Pointer); isPtr {
				d.ptrParam[id.Name] = true
			}
			d.env[o] = &dloc{root: id.Name, kind: k}
			psig = append(psig, fmt.Sprintf("(%s : %s)", id.Name, leanType[k]))
			if k == "reader" {
				d.reader = id.Name
			}
		}
		if fd.Recv != nil && len(fd.Recv.List[0].Names) > 0 {
			if k, _ := d.kindOf(p.info.Defs[fd.Recv.List[0].Names[0]].Type()); k != "" && k != "curve" {
				addParam(fd.Recv.List[0].Names[0])
			} // a receiver of another kind (the curve object) carries no data the subset can read: any use of it fails
		}
		for _, fld := range fd.Type.Params.List {
			for _, nm := range fld.Names {
				addParam(nm)
			}
		}
		if fd.Type.Results != nil {
			for _, fld := range fd.Type.Results.List {
				for _, nm := range fld.Names {
					o := p.info.Defs[nm]
					d.namedRes = append(d.namedRes, o)
					if k, _ := d.kindOf(o.Type()); k == "err" {
						d.env[o] = &dloc{root: "?err", kind: "err"}
						d.known[o] = false
					}
				}
			}
		}
		d.optResult = map[int]bool{}
		{
			nilable := map[string]bool{}
			ast.Inspect(fd.Body, func(n ast.Node) bool {
				if ds, ok := n.(*ast.DeclStmt); ok {
					if gd, ok := ds.Decl.(*ast.GenDecl); ok && gd.Tok == token.VAR {
						for _, sp := range gd.Specs {
							vs := sp.(*ast.ValueSpec)
							if len(vs.Values) == 0 {
								for _, nm := range vs.Names {
									if o := p.info.Defs[nm]; o != nil {
										if _, isPtr := o.Type().(*types.Pointer); isPtr {
											if k, _ := d.kindOf(o.Type()); k == "big" {
												nilable[nm.Name] = true
											}
										}
									}
								}
							}
						}
					}
				}
				if rs, ok := n.(*ast.ReturnStmt); ok {
					for i, r := range rs.Results {
						if id, ok := r.(*ast.Ident); ok && nilable[id.Name] {
							d.optResult[i] = true
						}
					}
				}
				return true
			})
		}
		var outName string
		outName = ent.out
		tree := d.stmts(fd.Body.List, func() *dnode {
			if outName != "" && ent.total {
				return d.rt(outName)
			}
			if d.results.Len() == 0 {
				return d.rt("()")
			}
			d.fail(fd, "function body falls off its end")
			return d.rt(".panic")
		})
		if d.err != nil && len(psig) == len(paramNames) && d.stubOK {
			// CONTAINMENT: this function left the translator's subset.  Emit a stub of the right type that is wrong on
			// purpose (`default` / `.undef`): Gen/Drivers.lean still elaborates, the `*_regenerated` theorem about THIS
			// function (and what is proved through it) no longer checks, and properties that do not depend on it keep
			// their proofs.  The failure is reported in T8Failures.txt and shown by ./check.
			warns = append(warns, d.err.Error())
			stub := "default"
			if !ent.total {
				stub = ".undef"
				if d.reader != "" {
					stub = "(.undef, " + d.reader + ")"
				}
			}
			rt := d.retType()
			if ent.out != "" && ent.total {
				rt = d.stype[ent.out]
				if d.results.Len() > 0 {
					if _, isPtr := d.results.At(0).Type().(*types.Pointer); !(isPtr && d.results.Len() == 1) {
						rt = "(" + d.retType() + ") × " + d.stype[ent.out]
					}
				}
			}
			fmt.Fprintf(&body, "/-- %s: TRANSLATION FAILED (%s) — stub, wrong on purpose -/\ndef %s %s %s : %s :=\n  %s\n\n", ent.key,
				strings.ReplaceAll(d.err.Error(), "-/", "- /"), ent.lean, ent.extra, strings.Join(psig, " "), rt, stub)
			continue
		}
		if d.err != nil {
			errs = append(errs, d.err.Error())
			continue
		}
		for _, a := range d.aux {
			body.WriteString(a + "\n")
		}
		rt := d.retType()
		if outName != "" && ent.total {
			rt = d.stype[outName]
			if d.results.Len() > 0 {
				if _, isPtr := d.results.At(0).Type().(*types.Pointer); !(isPtr && d.results.Len() == 1) {
					rt = "(" + d.retType() + ") × " + d.stype[outName]
				}
			}
		}
		{
			var gs []string
			for g := range d.ghostNil {
				gs = append(gs, g)
			}
			sort.Strings(gs)
			for _, g := range gs {
				psig = append(psig, fmt.Sprintf("(%sIsNil : Bool)", g))
			}
		}
		fmt.Fprintf(&body, "/-- %s (%s) -/\ndef %s %s %s : %s :=\n", ent.key, strings.TrimPrefix(p.pos(fd), p.dir+"/"), ent.lean, ent.extra, strings.Join(psig, " "), rt)
		tree.print(&body, "  ")
		body.WriteString("\n")
	}
	var pvn []string
	for n := range pv {
		pvn = append(pvn, n)
	}
	sort.Strings(pvn)
	for _, n := range pvn {
		fmt.Fprintf(&sb, "/-- package-level byte variable (read-only: C17) -/\ndef %s : Bytes := %s\n\n", n, pv[n])
	}
	sb.WriteString(body.String())
	sb.WriteString("end Secp.Gen.Drivers\n")
	return sb.String(), errs, warns
}
