/-
  Proofs/ScalarMultTableDefs — executable checker for the base-point table (`Gen.Table`):
  every row is an arithmetic progression for the affine group law of `Spec.Curve`, and the
  step of row i is 2^8 times the step of row i+1.  Core-only; evaluated by `decide +kernel`
  in `ScalarMultTableRowNN`.
-/
import Secp.Model.ScalarMult

namespace Secp.Proofs.ScalarMultTable
open Secp.Spec Secp.Model

/-- consecutive entries differ by `B` -/
def chainOK (B : Pt) : List (Nat × Nat) → Bool
  | a :: b :: rest => (Pt.add (some a) B == some b) && chainOK B (b :: rest)
  | _ => true

def row (i : Nat) : Array (Nat × Nat) := Secp.Gen.Table.rows.getD i #[]

/-- the step of row i: its entry 1 -/
def base (i : Nat) : Nat × Nat := (row i).getD 1 (0, 0)

def dbl8 (p : Pt) : Pt :=
  Pt.dbl (Pt.dbl (Pt.dbl (Pt.dbl (Pt.dbl (Pt.dbl (Pt.dbl (Pt.dbl p)))))))

/-- row i: 256 entries, entry 0 is (0,0), entries 1.. form a progression with step entry 1 -/
def rowOK (i : Nat) : Bool :=
  (row i).size == 256 && ((row i).getD 0 (1, 1) == (0, 0)) && chainOK (some (base i)) (row i).toList.tail

/-- step of row i is 256 × step of row i+1 -/
def linkOK (i : Nat) : Bool := dbl8 (some (base (i + 1))) == some (base i)

end Secp.Proofs.ScalarMultTable
