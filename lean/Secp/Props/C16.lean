import Secp.Gen.Formulas
import Secp.Proofs.AbsSound
/-
  Props/C16 — no input makes point or signature arithmetic wrap or compare denormalised.

  `Secp.Gen.Formulas` is REGENERATED from /repo (curve.go, field.go) on every check run: every
  execution path of every point routine as a list of FieldVal operations and predicate tests
  (tools/gotr pass T2, all calls inlined, aliasing expressed by shared registers).  `absPath`
  (Core/FOp.lean) interprets a path over (magnitude bound, normalised?) and fails as soon as
    • NegateVal's magnitude argument is below the operand's magnitude or above 63,
    • an Add/Add2/AddInt/MulInt result would exceed magnitude 63 (uint32 limb capacity with slack),
    • a Mul2/SquareVal operand exceeds magnitude 8,
    • Equals/IsZero/IsOne/IsOdd is applied to a value not known to be normalised,
    • a register is used before it is written.
  Each theorem below says: from the routine's input contract (operands normalised), ALL paths pass
  and the result registers end normalised.  They are closed by `decide` on the regenerated data, so
  an edit such as Negate(16)→Negate(15) or a dropped Normalize() makes this file fail to build.
-/
namespace Secp.Props.C16
open Secp.FOp Secp.Gen.Formulas

/-- a normalised operand -/
def nrm : Option AV := some (1, true)
def normalisedInputs (n : Nat) : AState := List.replicate n nrm

set_option maxRecDepth 1000000

theorem addZ1AndZ2EqualsOne_ok : addZ1AndZ2EqualsOne.absOK (normalisedInputs 9) [6, 7, 8] = true := by decide +kernel
theorem addZ1EqualsZ2_ok : addZ1EqualsZ2.absOK (normalisedInputs 9) [6, 7, 8] = true := by decide +kernel
theorem addZ2EqualsOne_ok : addZ2EqualsOne.absOK (normalisedInputs 9) [6, 7, 8] = true := by decide +kernel
theorem addGeneric_ok : addGeneric.absOK (normalisedInputs 9) [6, 7, 8] = true := by decide +kernel
theorem doubleZ1EqualsOne_ok : doubleZ1EqualsOne.absOK (normalisedInputs 6) [3, 4, 5] = true := by decide +kernel
theorem doubleGeneric_ok : doubleGeneric.absOK (normalisedInputs 6) [3, 4, 5] = true := by decide +kernel
/-- AddNonConst with distinct objects, with result ≡ p1, and with result ≡ p2 -/
theorem AddNonConst_ok : AddNonConst.absOK (normalisedInputs 9) [6, 7, 8] = true := by decide +kernel
theorem AddNonConst_r1_ok : AddNonConst_r1.absOK (normalisedInputs 6) [0, 1, 2] = true := by decide +kernel
theorem AddNonConst_r2_ok : AddNonConst_r2.absOK (normalisedInputs 6) [3, 4, 5] = true := by decide +kernel
theorem DoubleNonConst_ok : DoubleNonConst.absOK (normalisedInputs 6) [3, 4, 5] = true := by decide +kernel
theorem DoubleNonConst_r1_ok : DoubleNonConst_r1.absOK (normalisedInputs 3) [0, 1, 2] = true := by decide +kernel
/-- ToAffine (with the 258-squaring inversion chain inlined): X, Y, Z end normalised -/
theorem ToAffine_ok : ToAffine.absOK (normalisedInputs 3) [0, 1, 2] = true := by decide +kernel
theorem isOnCurve_ok : isOnCurve.absOK (normalisedInputs 2) [] = true := by decide +kernel
/-- DecompressY accepts an x of magnitude up to 8 (its documented contract) -/
theorem DecompressY_ok : DecompressY.absOK [some (8, false), none] [] = true := by decide +kernel
theorem Inverse_ok : Inverse.absOK [some (8, false)] [] = true := by decide +kernel
theorem SquareRootVal_ok : SquareRootVal.absOK [none, some (8, false)] [] = true := by decide +kernel

/-! ### what acceptance by the abstract interpreter MEANS for the limb code

  `Secp.Model.LimbExec` runs a formula program on registers of ten uint32 limbs, performing every
  FieldVal method by the REGENERATED limb kernel (`Secp.Gen.Field_*`, Go wrap-around semantics).
  `Rel σ rl rv`: the limb registers `rl` realise the abstract state σ (magnitude bounds, normalised
  flags, every limb fits uint32) and denote the field values `rv`. -/

/-- If the abstract interpreter accepts a program from σ, then for ALL limb registers realising σ the
    limb-level run and the value-level run take the same branches and end in related states: no limb
    wraps, every comparison sees a normalised value, and the results depend only on the field values
    the operands denote — not on their limb representation.  (Proved from the C05 kernel theorems.) -/
theorem absPath_sound (items : List PItem) (σ σ' : AState) (rl : Secp.Model.LRegs) (rv : Regs) (bools : List Bool)
    (hcf : Secp.Proofs.AbsSound.CallFree items) (hir : Secp.Proofs.AbsSound.InRange rl.length items)
    (habs : absPath items σ = some σ') (hrel : Secp.Model.Rel σ rl rv) :
    (Secp.Model.execPathL bools items rl = none ↔ execPathWith (fun _ _ => none) bools items rv = none) ∧
    ∀ rl' rv', Secp.Model.execPathL bools items rl = some rl' →
      execPathWith (fun _ _ => none) bools items rv = some rv' → Secp.Model.Rel σ' rl' rv' :=
  Secp.Proofs.AbsSound.absPath_sound items σ σ' rl rv bools hcf hir habs hrel

/-- a program accepted by the abstract interpreter contains no call item -/
theorem callFree_of_abs : ∀ (items : List PItem) (σ σ' : AState), absPath items σ = some σ' →
    Secp.Proofs.AbsSound.CallFree items
  | [], _, _, _ => by intro it hit; cases hit
  | .op o :: rest, σ, σ', h => by
    simp only [absPath] at h
    cases hs : stepA σ o with
    | none => simp [hs] at h
    | some σ1 =>
      simp [hs] at h
      intro it hit
      rcases List.mem_cons.mp hit with rfl | ht
      · rfl
      · exact callFree_of_abs rest σ1 σ' h it ht
  | .assume c v :: rest, σ, σ', h => by
    simp only [absPath] at h
    split at h
    · intro it hit
      rcases List.mem_cons.mp hit with rfl | ht
      · rfl
      · exact callFree_of_abs rest σ σ' h it ht
    · cases h
  | .call _ _ :: _, _, _, h => by simp [absPath] at h

/-- an accepted entry: every path is accepted individually -/
theorem absOK_path (e : Entry) (σ0 : AState) (outs : List Nat) (h : e.absOK σ0 outs = true) (p : FPath) (hp : p ∈ e.paths) :
    ∃ σ', absPath p.items σ0 = some σ' := by
  unfold Entry.absOK at h
  have := List.all_eq_true.mp h p hp
  cases hq : absPath p.items σ0 with
  | none => simp [hq] at this
  | some σ' => exact ⟨σ', rfl⟩

/-- every register index of every regenerated path lies inside the entry's register file -/
def entryInRange (e : Entry) : Bool := e.paths.all fun p => decide (Secp.Proofs.AbsSound.InRange e.nreg p.items)

theorem all_in_range : (allEntries.all entryInRange) = true := by decide +kernel

/-- Consequence for e.g. AddNonConst with the result aliasing its first operand: whatever limb
    representation the normalised operands have, each path's limb-level execution agrees with its
    value-level execution.  (The same instantiation works for every entry and path above.) -/
theorem AddNonConst_r1_limbs (p : FPath) (hp : p ∈ AddNonConst_r1.paths) (rl : Secp.Model.LRegs) (rv : Regs)
    (hlen : rl.length = AddNonConst_r1.nreg) (hrel : Secp.Model.Rel (normalisedInputs 6) rl rv) :
    ∃ σ', absPath p.items (normalisedInputs 6) = some σ' ∧
      ((Secp.Model.execPathL [] p.items rl = none ↔ execPathWith (fun _ _ => none) [] p.items rv = none) ∧
       ∀ rl' rv', Secp.Model.execPathL [] p.items rl = some rl' →
         execPathWith (fun _ _ => none) [] p.items rv = some rv' → Secp.Model.Rel σ' rl' rv') := by
  obtain ⟨σ', hσ⟩ := absOK_path AddNonConst_r1 _ _ AddNonConst_r1_ok p hp
  refine ⟨σ', hσ, ?_⟩
  have hall : entryInRange AddNonConst_r1 = true := by
    have := List.all_eq_true.mp all_in_range AddNonConst_r1 (by simp [allEntries])
    exact this
  have hir : Secp.Proofs.AbsSound.InRange rl.length p.items := by
    rw [hlen]
    have := List.all_eq_true.mp hall p hp
    exact of_decide_eq_true this
  have hcf : Secp.Proofs.AbsSound.CallFree p.items := callFree_of_abs p.items _ _ hσ
  exact absPath_sound p.items _ σ' rl rv [] hcf hir hσ hrel

/-- the checker is not vacuous: it rejects the doubling formula with Negate(15) in place of Negate(16) -/
example : absPath [.op (.mulInt 0 8), .op (.mulInt 0 2), .op (.neg 0 0 15)] [nrm] = none := by decide
example : absPath [.op (.mulInt 0 8), .op (.mulInt 0 2), .op (.neg 0 0 16)] [nrm] = some [some (17, false)] := by decide
/-- … and a comparison of a denormalised value -/
example : absPath [.op (.add 0 1), .assume (.equals 0 1) true] [nrm, nrm] = none := by decide

end Secp.Props.C16
