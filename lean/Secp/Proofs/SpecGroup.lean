/-
  Proofs/SpecGroup — the executable affine group law of `Spec/Curve` computes in
  Mathlib's elliptic-curve group `WeierstrassCurve.Affine.Point` of
  y² = x³ + 7 over `ZMod P`; `G` has order `N`.
-/
import Secp.Spec.Curve
import Secp.Proofs.FieldBridge
import Mathlib.AlgebraicGeometry.EllipticCurve.Affine.Point
import Mathlib.GroupTheory.OrderOfElement
import Mathlib.Tactic.FieldSimp
import Mathlib.Tactic.Ring
import Mathlib.Tactic.LinearCombination

namespace Secp.Proofs.SpecGroup
open Secp.Spec Secp.Proofs WeierstrassCurve.Affine

/-- the curve y² = x³ + 7 over ZMod P -/
noncomputable def E : WeierstrassCurve.Affine (ZMod Secp.Spec.P) := ⟨0, 0, 0, 0, 7⟩

@[simp] theorem E_a₁ : E.a₁ = 0 := rfl
@[simp] theorem E_a₂ : E.a₂ = 0 := rfl
@[simp] theorem E_a₃ : E.a₃ = 0 := rfl
@[simp] theorem E_a₄ : E.a₄ = 0 := rfl
@[simp] theorem E_a₆ : E.a₆ = 7 := rfl

/-- well-formed spec point: infinity, or canonical coordinates on the curve -/
def Valid : Pt → Prop
  | none => True
  | some (x, y) => x < P ∧ y < P ∧ (y * y) % P = (x * x * x + 7) % P

open Classical in
/-- the Mathlib point denoted by a spec point (0 for ill-formed input) -/
noncomputable def toE : Pt → E.Point
  | none => 0
  | some (x, y) =>
    if h : E.Nonsingular (x : ZMod Secp.Spec.P) (y : ZMod Secp.Spec.P) then .some _ _ h else 0

/-! ### the curve in `ZMod P` -/

theorem two_ne_zero_P : (2 : ZMod Secp.Spec.P) ≠ 0 := by
  have h : ((2 : ℕ) : ZMod Secp.Spec.P) ≠ 0 := by
    rw [Ne, ZMod.natCast_eq_zero_iff]
    intro h
    have h1 := Nat.le_of_dvd (by norm_num) h
    have h2 := two_lt_P
    omega
  simpa using h

theorem equation_iff_E (x y : ZMod Secp.Spec.P) : E.Equation x y ↔ y ^ 2 = x ^ 3 + 7 := by
  rw [equation_iff]
  simp only [E_a₁, E_a₂, E_a₃, E_a₄, E_a₆, zero_mul, add_zero]

/-- a point of the curve has `y ≠ 0`, since `-7` is not a cube -/
theorem y_ne_zero {x y : ZMod Secp.Spec.P} (h : y ^ 2 = x ^ 3 + 7) : y ≠ 0 := by
  rintro rfl
  exact neg7_not_cube ⟨x, by linear_combination -h⟩

theorem y_ne_neg {x y : ZMod Secp.Spec.P} (h : y ^ 2 = x ^ 3 + 7) : y ≠ -y := by
  intro h2
  have h3 : 2 * y = 0 := by linear_combination h2
  rcases mul_eq_zero.1 h3 with h4 | h4
  · exact two_ne_zero_P h4
  · exact y_ne_zero h h4

theorem nonsingular_iff_E (x y : ZMod Secp.Spec.P) : E.Nonsingular x y ↔ y ^ 2 = x ^ 3 + 7 := by
  rw [nonsingular_iff, equation_iff_E]
  refine ⟨And.left, fun h => ⟨h, Or.inr ?_⟩⟩
  simp only [E_a₁, E_a₃, zero_mul, sub_zero]
  exact y_ne_neg h

theorem negY_E (x y : ZMod Secp.Spec.P) : E.negY x y = -y := by
  simp only [negY, E_a₁, E_a₃, zero_mul, sub_zero]

theorem curve_cast (x y : Nat) :
    (y * y) % P = (x * x * x + 7) % P ↔
      (y : ZMod Secp.Spec.P) ^ 2 = (x : ZMod Secp.Spec.P) ^ 3 + 7 := by
  rw [mod_P_eq_iff]
  push_cast
  constructor <;> intro h <;> linear_combination h

/-! ### `Valid` and `toE` -/

theorem valid_some_iff (x y : Nat) :
    Valid (some (x, y)) ↔ x < P ∧ y < P ∧ (y * y) % P = (x * x * x + 7) % P := Iff.rfl

theorem Valid.nonsingular {x y : Nat} (h : Valid (some (x, y))) :
    E.Nonsingular (x : ZMod Secp.Spec.P) (y : ZMod Secp.Spec.P) :=
  (nonsingular_iff_E _ _).2 ((curve_cast x y).1 h.2.2)

theorem toE_none : toE none = 0 := rfl

theorem toE_some {x y : Nat} (h : E.Nonsingular (x : ZMod Secp.Spec.P) (y : ZMod Secp.Spec.P)) :
    toE (some (x, y)) = .some _ _ h := by
  simp only [toE, dif_pos h]

/-- transport along coordinate equalities -/
theorem some_of_casts {x y : Nat} {X Y : ZMod Secp.Spec.P} (hx : x < P) (hy : y < P)
    (hX : (x : ZMod Secp.Spec.P) = X) (hY : (y : ZMod Secp.Spec.P) = Y) (h : E.Nonsingular X Y) :
    Valid (some (x, y)) ∧ toE (some (x, y)) = .some X Y h := by
  subst hX hY
  exact ⟨⟨hx, hy, (curve_cast x y).2 ((nonsingular_iff_E _ _).1 h)⟩, toE_some h⟩

theorem toE_injective_on_valid {p q : Pt} (hp : Valid p) (hq : Valid q) (h : toE p = toE q) :
    p = q := by
  rcases p with _ | ⟨x1, y1⟩ <;> rcases q with _ | ⟨x2, y2⟩
  · rfl
  · rw [toE_none, toE_some hq.nonsingular] at h
    exact absurd h.symm (Point.some_ne_zero _)
  · rw [toE_none, toE_some hp.nonsingular] at h
    exact absurd h (Point.some_ne_zero _)
  · rw [toE_some hp.nonsingular, toE_some hq.nonsingular, Point.some.injEq] at h
    rw [eq_of_cast_eq_P hp.1 hq.1 h.1, eq_of_cast_eq_P hp.2.1 hq.2.1 h.2]

theorem valid_G : Valid G := by
  show Gx < P ∧ Gy < P ∧ (Gy * Gy) % P = (Gx * Gx * Gx + 7) % P
  decide +kernel

/-! ### negation -/

theorem neg_spec {p : Pt} (hp : Valid p) : Valid (Pt.neg p) ∧ toE (Pt.neg p) = - toE p := by
  rcases p with _ | ⟨x, y⟩
  · exact ⟨trivial, by simp [Pt.neg, toE_none]⟩
  · have h := hp.nonsingular
    have h' : E.Nonsingular (x : ZMod Secp.Spec.P) (E.negY x y) := (nonsingular_neg _ _).2 h
    have := some_of_casts hp.1 (fneg_lt y) rfl (by rw [fneg_cast, negY_E]) h'
    refine ⟨this.1, ?_⟩
    show toE (some (x, fneg y)) = _
    rw [this.2, toE_some h, Point.neg_some]

theorem valid_neg {p : Pt} (hp : Valid p) : Valid (Pt.neg p) := (neg_spec hp).1
theorem toE_neg {p : Pt} (hp : Valid p) : toE (Pt.neg p) = - toE p := (neg_spec hp).2

/-! ### doubling -/

theorem Valid.y_mod_ne {x y : Nat} (hp : Valid (some (x, y))) : y % P ≠ 0 := by
  intro h0
  have h1 : (y : ZMod Secp.Spec.P) = ((0 : ℕ) : ZMod Secp.Spec.P) :=
    (mod_P_eq_iff y 0).1 (by rw [h0, Nat.zero_mod])
  rw [Nat.cast_zero] at h1
  exact y_ne_zero ((curve_cast x y).1 hp.2.2) h1

theorem dbl_some (x y : Nat) (hy : y % P ≠ 0) :
    Pt.dbl (some (x, y)) =
      some (fsub (fsq (fmul (fmul 3 (fsq x)) (finv (fmul 2 y)))) (fmul 2 x),
        fsub (fmul (fmul (fmul 3 (fsq x)) (finv (fmul 2 y)))
          (fsub x (fsub (fsq (fmul (fmul 3 (fsq x)) (finv (fmul 2 y)))) (fmul 2 x)))) y) := by
  simp only [Pt.dbl, if_neg hy]

theorem dbl_spec {p : Pt} (hp : Valid p) :
    Valid (Pt.dbl p) ∧ toE (Pt.dbl p) = toE p + toE p := by
  rcases p with _ | ⟨x, y⟩
  · exact ⟨trivial, by simp [Pt.dbl, toE_none]⟩
  · have h := hp.nonsingular
    have hc := (nonsingular_iff_E _ _).1 h
    have hne : (y : ZMod Secp.Spec.P) ≠ E.negY x y := by rw [negY_E]; exact y_ne_neg hc
    have h3 := nonsingular_add h h (fun hxy => hne hxy.2)
    rw [dbl_some x y hp.y_mod_ne]
    rw [toE_some h, Point.add_self_of_Y_ne hne]
    refine some_of_casts (fsub_lt _ _) (fsub_lt _ _) ?_ ?_ h3
    · rw [slope_of_Y_ne rfl hne]
      simp only [addX, negY_E, E_a₁, E_a₂, E_a₄, fsub_cast, fsq_cast, fmul_cast, finv_cast,
        Nat.cast_ofNat]
      have hy0 := y_ne_zero hc
      have h20 := two_ne_zero_P
      rw [sub_neg_eq_add, ← two_mul]
      field_simp
      ring
    · rw [slope_of_Y_ne rfl hne]
      simp only [addY, negAddY, addX, negY_E, E_a₁, E_a₂, E_a₄, fsub_cast, fsq_cast, fmul_cast,
        finv_cast, Nat.cast_ofNat]
      have hy0 := y_ne_zero hc
      have h20 := two_ne_zero_P
      rw [sub_neg_eq_add, ← two_mul]
      field_simp
      ring

theorem valid_dbl {p : Pt} (hp : Valid p) : Valid (Pt.dbl p) := (dbl_spec hp).1
theorem toE_dbl {p : Pt} (hp : Valid p) : toE (Pt.dbl p) = toE p + toE p := (dbl_spec hp).2

/-! ### addition -/

theorem add_some_ne (x1 y1 x2 y2 : Nat) (hx : x1 % P ≠ x2 % P) :
    Pt.add (some (x1, y1)) (some (x2, y2)) =
      some (fsub (fsub (fsq (fmul (fsub y2 y1) (finv (fsub x2 x1)))) x1) x2,
        fsub (fmul (fmul (fsub y2 y1) (finv (fsub x2 x1)))
          (fsub x1 (fsub (fsub (fsq (fmul (fsub y2 y1) (finv (fsub x2 x1)))) x1) x2))) y1) := by
  simp only [Pt.add, if_neg hx]

theorem add_spec {p q : Pt} (hp : Valid p) (hq : Valid q) :
    Valid (Pt.add p q) ∧ toE (Pt.add p q) = toE p + toE q := by
  rcases p with _ | ⟨x1, y1⟩
  · refine ⟨by simpa [Pt.add] using hq, ?_⟩
    simp [Pt.add, toE_none]
  rcases q with _ | ⟨x2, y2⟩
  · refine ⟨by simpa [Pt.add] using hp, ?_⟩
    simp [Pt.add, toE_none]
  have h1 := hp.nonsingular
  have h2 := hq.nonsingular
  have hc1 := (nonsingular_iff_E _ _).1 h1
  have hc2 := (nonsingular_iff_E _ _).1 h2
  by_cases hx : x1 % P = x2 % P
  · have hxe : x1 = x2 := by
      rwa [Nat.mod_eq_of_lt hp.1, Nat.mod_eq_of_lt hq.1] at hx
    subst hxe
    by_cases hy : y1 % P = y2 % P
    · have hye : y1 = y2 := by
        rwa [Nat.mod_eq_of_lt hp.2.1, Nat.mod_eq_of_lt hq.2.1] at hy
      subst hye
      have : Pt.add (some (x1, y1)) (some (x1, y1)) = Pt.dbl (some (x1, y1)) := by
        simp only [Pt.add, if_true]
      rw [this]
      exact dbl_spec hp
    · have : Pt.add (some (x1, y1)) (some (x1, y2)) = none := by
        simp only [Pt.add, if_true, if_neg hy]
      rw [this]
      refine ⟨trivial, ?_⟩
      have hyz : (y1 : ZMod Secp.Spec.P) ≠ y2 := fun h => hy ((mod_P_eq_iff _ _).2 h)
      have hneg : (y1 : ZMod Secp.Spec.P) = E.negY x1 y2 := by
        rw [negY_E]
        have h0 : ((y1 : ZMod Secp.Spec.P) - y2) * (y1 + y2) = 0 := by
          linear_combination hc1 - hc2
        rcases mul_eq_zero.1 h0 with h | h
        · exact absurd (sub_eq_zero.1 h) hyz
        · exact eq_neg_of_add_eq_zero_left h
      rw [toE_none, toE_some h1, toE_some h2, Point.add_of_Y_eq rfl hneg]
  · have hxz : (x1 : ZMod Secp.Spec.P) ≠ x2 := fun h => hx ((mod_P_eq_iff _ _).2 h)
    have h3 := nonsingular_add h1 h2 (fun hxy => hxz hxy.1)
    rw [add_some_ne x1 y1 x2 y2 hx]
    rw [toE_some h1, toE_some h2, Point.add_of_X_ne hxz]
    refine some_of_casts (fsub_lt _ _) (fsub_lt _ _) ?_ ?_ h3
    · rw [slope_of_X_ne hxz]
      simp only [addX, E_a₁, E_a₂, fsub_cast, fsq_cast, fmul_cast, finv_cast]
      have hd : (x1 : ZMod Secp.Spec.P) - x2 ≠ 0 := sub_ne_zero.2 hxz
      have hd' : (x2 : ZMod Secp.Spec.P) - x1 ≠ 0 := sub_ne_zero.2 (Ne.symm hxz)
      field_simp
      ring
    · rw [slope_of_X_ne hxz]
      simp only [addY, negAddY, addX, negY_E, E_a₁, E_a₂, fsub_cast, fsq_cast, fmul_cast,
        finv_cast]
      have hd : (x1 : ZMod Secp.Spec.P) - x2 ≠ 0 := sub_ne_zero.2 hxz
      have hd' : (x2 : ZMod Secp.Spec.P) - x1 ≠ 0 := sub_ne_zero.2 (Ne.symm hxz)
      field_simp
      ring

theorem valid_add {p q : Pt} (hp : Valid p) (hq : Valid q) : Valid (Pt.add p q) :=
  (add_spec hp hq).1
theorem toE_add {p q : Pt} (hp : Valid p) (hq : Valid q) : toE (Pt.add p q) = toE p + toE q :=
  (add_spec hp hq).2

/-! ### scalar multiplication -/

theorem smulAux_spec {p : Pt} (hp : Valid p) :
    ∀ (f k : Nat), k < 2 ^ f → Valid (smulAux p f k) ∧ toE (smulAux p f k) = k • toE p := by
  intro f
  induction f with
  | zero =>
    intro k hk
    have hk0 : k = 0 := by simpa using hk
    subst hk0
    exact ⟨trivial, by simp [smulAux, toE_none]⟩
  | succ f ih =>
    intro k hk
    unfold smulAux
    by_cases hk0 : k = 0
    · subst hk0
      exact ⟨trivial, by simp [toE_none]⟩
    · simp only [hk0, if_false]
      have h2 : k / 2 < 2 ^ f := by
        rw [Nat.div_lt_iff_lt_mul (by norm_num)]
        rw [pow_succ] at hk
        exact hk
      obtain ⟨hv, he⟩ := ih (k / 2) h2
      have hdv := valid_dbl hv
      have hde : toE (Pt.dbl (smulAux p f (k / 2))) = (2 * (k / 2)) • toE p := by
        rw [toE_dbl hv, he, ← add_nsmul]
        congr 1
        omega
      by_cases ho : k % 2 = 1
      · simp only [ho, if_true]
        refine ⟨valid_add hdv hp, ?_⟩
        rw [toE_add hdv hp, hde, ← succ_nsmul]
        congr 1
        omega
      · simp only [ho, if_false]
        refine ⟨hdv, ?_⟩
        rw [hde]
        congr 1
        omega

theorem valid_smul (k : Nat) {p : Pt} (hp : Valid p) : Valid (smul k p) :=
  (smulAux_spec hp _ k Nat.lt_log2_self).1

theorem toE_smul (k : Nat) {p : Pt} (hp : Valid p) : toE (smul k p) = k • toE p :=
  (smulAux_spec hp _ k Nat.lt_log2_self).2

/-! ### the order of `G` -/

set_option maxRecDepth 100000 in
theorem smul_N_G : smul N G = none := by decide +kernel

theorem toE_G_ne_zero : toE G ≠ 0 := by
  have h : toE G = .some _ _ valid_G.nonsingular := toE_some valid_G.nonsingular
  rw [h]
  exact Point.some_ne_zero _

theorem order_G : addOrderOf (toE G) = N := by
  refine addOrderOf_eq_prime ?_ toE_G_ne_zero
  rw [← toE_smul N valid_G, smul_N_G, toE_none]

theorem no_two_torsion {p : Pt} (hp : Valid p) (h : toE p + toE p = 0) : p = none := by
  rcases p with _ | ⟨x, y⟩
  · rfl
  · exfalso
    have hn := hp.nonsingular
    have hc := (nonsingular_iff_E _ _).1 hn
    have hne : (y : ZMod Secp.Spec.P) ≠ E.negY x y := by rw [negY_E]; exact y_ne_neg hc
    rw [toE_some hn, Point.add_self_of_Y_ne hne] at h
    exact Point.some_ne_zero _ h

theorem smul_mod_N_G (k : Nat) : smul (k % N) G = smul k G := by
  apply toE_injective_on_valid (valid_smul _ valid_G) (valid_smul _ valid_G)
  rw [toE_smul _ valid_G, toE_smul _ valid_G]
  conv_lhs => rw [← order_G]
  exact mod_addOrderOf_nsmul _ _

end Secp.Proofs.SpecGroup
