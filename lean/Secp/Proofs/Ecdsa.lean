import Secp.Model.PointSpec
import Secp.Proofs.PubKey
import Secp.Proofs.Der
import Mathlib.Tactic.Ring
import Mathlib.Tactic.SplitIfs
import Mathlib.Tactic.IntervalCases
import Mathlib.Tactic.FieldSimp
/-
  Proofs/Ecdsa — lemmas behind Props/C01 (signing), C02 (verification), C07 (recovery).
  The point-arithmetic layer enters only through `PointSpec`.
-/
namespace Secp.Proofs.Ecdsa
open Secp.Spec Secp.Model Secp.Proofs

/-! ### numeric facts -/

theorem pow256_lt_two_N : 256 ^ 32 < 2 * N := by decide +kernel
theorem N_lt_pow : N < 2 ^ 256 := by decide +kernel
theorem halfN_lt : halfN < N := by decide +kernel
theorem halfN_eq : 2 * halfN + 1 = N := by decide +kernel

/-! ### scalar helpers -/

theorem nmul_comm (a b : Nat) : nmul a b = nmul b a := by
  unfold nmul; rw [Nat.mul_comm]

theorem nadd_comm (a b : Nat) : nadd a b = nadd b a := by
  unfold nadd; rw [Nat.add_comm]

theorem nneg_eq {s : Nat} (h0 : 0 < s) (hs : s < N) : nneg s = N - s := by
  unfold nneg
  rw [Nat.mod_eq_of_lt hs, Nat.mod_eq_of_lt (by omega)]

/-- one conditional subtraction reduces a value below 2N -/
theorem mod_N_of_lt {v : Nat} (h : v < 2 * N) : v % N = if v ≥ N then v - N else v := by
  split_ifs with hv
  · rw [Nat.mod_eq_sub_mod hv, Nat.mod_eq_of_lt (by omega)]
  · exact Nat.mod_eq_of_lt (by omega)

/-! ### C01: the hash scalar -/

theorem hash_to_e (h : Bytes) : hashScalar h = beNat (h.take 32) % N := by
  unfold hashScalar scalarSetByteSlice
  have h1 : beNat (h.take 32) < 256 ^ (h.take 32).length := Der.beNat_lt _
  have h2 : (h.take 32).length ≤ 32 := by
    rw [List.length_take]; exact Nat.min_le_left _ _
  have h3 : 256 ^ (h.take 32).length ≤ 256 ^ 32 := Nat.pow_le_pow_right (by decide) h2
  have h4 := pow256_lt_two_N
  exact (mod_N_of_lt (by omega)).symm

theorem hashScalar_eq (h : Bytes) : hashScalar h = hashToE h := hash_to_e h

/-! ### C02: the Jacobian comparison -/

/-- `a·Z² = X` in the field iff `a ≡ X·Z⁻²` -/
theorem fmul_fsq_eq_iff (a X Z : Nat) (hX : X < P) (hZ : Z < P) (hZ0 : Z ≠ 0) :
    fmul a (fsq Z) = X ↔ a % P = fmul X (fsq (finv Z)) := by
  have hz : ((Z : Nat) : ZMod P) ≠ 0 := by
    intro h
    rw [ZMod.natCast_eq_zero_iff] at h
    exact hZ0 (Nat.eq_zero_of_dvd_of_lt h hZ)
  have key : ((fmul a (fsq Z) : Nat) : ZMod P) = (X : ZMod P) ↔
      ((a : Nat) : ZMod P) = ((fmul X (fsq (finv Z)) : Nat) : ZMod P) := by
    rw [fmul_cast, fsq_cast, fmul_cast, fsq_cast, finv_cast]
    constructor
    · intro h
      rw [← h]
      field_simp
    · intro h
      rw [h]
      field_simp
  constructor
  · intro h
    have := key.1 (by rw [h])
    rw [← mod_P_eq_iff, Nat.mod_eq_of_lt (fmul_lt _ _)] at this
    exact this
  · intro h
    apply eq_of_cast_eq_P (fmul_lt _ _) hX
    apply key.2
    rw [← mod_P_eq_iff, Nat.mod_eq_of_lt (fmul_lt _ _)]
    exact h

theorem jacobian_compare (X Z r : Nat) (hX : X < P) (hZ : Z < P) (hZ0 : Z ≠ 0) (hr : r < N) :
    ((fmul r (fsq Z) == X) || (decide (r < P - N) && (fmul (r + N) (fsq Z) == X))) =
      (fmul X (fsq (finv Z)) % N == r) := by
  have hx : fmul X (fsq (finv Z)) < P := fmul_lt _ _
  have e1 := fmul_fsq_eq_iff r X Z hX hZ hZ0
  have e2 := fmul_fsq_eq_iff (r + N) X Z hX hZ hZ0
  generalize fmul X (fsq (finv Z)) = x at *
  have hNP := N_lt_P
  have hP2N := P_lt_two_N
  rw [Nat.mod_eq_of_lt (by omega)] at e1
  rw [Bool.eq_iff_iff]
  simp only [Bool.or_eq_true, Bool.and_eq_true, beq_iff_eq, decide_eq_true_eq]
  rw [e1, mod_N_of_lt (by omega)]
  constructor
  · rintro (h | ⟨h1, h2⟩)
    · rw [← h, if_neg (by omega)]
    · rw [e2, Nat.mod_eq_of_lt (by omega)] at h2
      rw [← h2, if_pos (by omega)]
      omega
  · intro h
    split_ifs at h with hc
    · right
      refine ⟨by omega, ?_⟩
      rw [e2, Nat.mod_eq_of_lt (by omega)]
      omega
    · left; exact h.symm

/-! ### Jacobian triples -/

theorem toPt_none_iff (q : Jac) (hq : Jac.WF q) : Jac.toPt q = none ↔ isInfJ q = true := by
  obtain ⟨X, Y, Z⟩ := q
  obtain ⟨h1, h2, h3, -⟩ := hq
  simp only at h1 h2 h3
  unfold Jac.toPt isInfJ
  simp only [Nat.mod_eq_of_lt h1, Nat.mod_eq_of_lt h2, Nat.mod_eq_of_lt h3]
  simp only [Bool.or_eq_true, Bool.and_eq_true, beq_iff_eq]
  constructor
  · intro h
    split_ifs at h with hc
    · tauto
  · intro h
    rw [if_pos (by tauto)]

theorem toPt_of_not_inf (q : Jac) (hq : Jac.WF q) (hi : isInfJ q = false) :
    Jac.toPt q = some (fmul q.1 (fsq (finv q.2.2)),
      fmul q.2.1 (fmul (fsq (finv q.2.2)) (finv q.2.2))) := by
  have hn : Jac.toPt q ≠ none := by
    intro h
    rw [(toPt_none_iff q hq).1 h] at hi
    cases hi
  unfold Jac.toPt at hn ⊢
  split_ifs at hn ⊢ with hc
  · exact absurd rfl hn
  · rfl

theorem z_ne_zero_of_not_inf (q : Jac) (hi : isInfJ q = false) : q.2.2 ≠ 0 := by
  intro h
  unfold isInfJ at hi
  rw [h] at hi
  simp at hi

/-! ### C02: verification -/

/-- the tail of `Verify` after the point computation -/
theorem verify_tail (Q : Jac) (hq : Jac.WF Q) (r : Nat) (hr : r < N) :
    (if isInfJ Q then false else
      if fmul r (fsq Q.2.2) == Q.1 then true else
      if r ≥ P - N then false else
      fmul (r + N) (fsq Q.2.2) == Q.1) =
    (match Jac.toPt Q with
     | none => false
     | some (x, _) => x % N == r) := by
  cases hi : isInfJ Q with
  | true =>
    rw [(toPt_none_iff Q hq).2 hi]
    rfl
  | false =>
    rw [toPt_of_not_inf Q hq hi]
    simp only [Bool.false_eq_true, if_false]
    rw [← jacobian_compare Q.1 Q.2.2 r hq.1 hq.2.2.1 (z_ne_zero_of_not_inf Q hi) hr]
    by_cases h1 : fmul r (fsq Q.2.2) = Q.1
    · simp [h1]
    · by_cases h2 : r < P - N
      · have h2' : ¬ r ≥ P - N := by omega
        simp [h1, h2, h2']
      · have h2' : r ≥ P - N := by omega
        simp [h1, h2, h2']

theorem verify_iff (hp : PointSpec) (h : Bytes) (x y r s : Nat) (hQ : OnCurve x y)
    (hr : r < N) (hs : s < N) :
    verifyM h (x, y) r s = ecdsaVerify h (some (x, y)) r s := by
  unfold verifyM ecdsaVerify
  by_cases hz : r = 0 ∨ s = 0
  · rw [if_pos hz, if_pos (by tauto)]
  · have hc : ¬ (r = 0 ∨ s = 0 ∨ r ≥ N ∨ s ≥ N) := by omega
    rw [if_neg hz, if_neg hc]
    simp only
    rw [hashScalar_eq]
    obtain ⟨w1, t1⟩ := hp.sbmul (nmul (hashToE h) (ninv s)) (nmul_lt _ _)
    obtain ⟨w2, t2⟩ := hp.smulA (nmul r (ninv s)) x y (nmul_lt _ _) hQ
    obtain ⟨w3, t3⟩ := hp.add3 _ _ w1 w2
    rw [verify_tail _ w3 r hr, t3, t1, t2]
    generalize Pt.add (smul (nmul (hashToE h) (ninv s)) G) _ = R
    rcases R with _ | ⟨a, b⟩ <;> rfl

/-! ### C01: signing -/

theorem code_or (c : Prop) [Decidable c] (y : Nat) :
    ((if c then 2 else 0) ||| (y % 2)) = (if c then 2 else 0) + y % 2 := by
  rcases Nat.mod_two_eq_zero_or_one y with h | h <;> rw [h] <;> split_ifs <;> rfl

/-- the body of `sign` once the affine nonce point is known -/
def signBody (x y d k : Nat) (h : Bytes) : Option (Nat × Nat × Nat) :=
  let overflow := x ≥ N
  let r := if overflow then x - N else x
  if r = 0 then none else
  let code := (if overflow then 2 else 0) ||| (y % 2)
  let e := hashScalar h
  let kinv := ninv k
  let s := nmul (nadd (nmul d r) e) kinv
  if s = 0 then none else
  if s > halfN then some (r, nneg s, code ^^^ 1) else some (r, s, code)

theorem signM_eq_body (d k : Nat) (h : Bytes) :
    signM d k h = signBody (toAffineJ (scalarBaseMultNC k)).1 (toAffineJ (scalarBaseMultNC k)).2.1 d k h := rfl

theorem signBody_eq_spec (x y d k : Nat) (h : Bytes) (hx : x < P) (hR : smul k G = some (x, y)) :
    signBody x y d k h = ecdsaSignWithNonce d k h := by
  have hP2N := P_lt_two_N
  have hr : (if x ≥ N then x - N else x) = x % N := (mod_N_of_lt (by omega)).symm
  unfold signBody ecdsaSignWithNonce ecdsaRaw
  simp only [hR, Pt.x, hr, recCode, Pt.y, code_or, hashScalar_eq]
  have hs : nmul (nadd (nmul d (x % N)) (hashToE h)) (ninv k) =
      nmul (ninv k) (nadd (hashToE h) (nmul (x % N) d)) := by
    rw [nmul_comm, nadd_comm, nmul_comm d]
  rw [hs]
  have hsN : nmul (ninv k) (nadd (hashToE h) (nmul (x % N) d)) < N := nmul_lt _ _
  generalize nmul (ninv k) (nadd (hashToE h) (nmul (x % N) d)) = s' at hsN ⊢
  by_cases h1 : x % N = 0
  · simp only [h1, if_true]
  · simp only [h1, if_false]
    by_cases h2 : s' = 0
    · simp only [h2, if_true]
    · simp only [h2, if_false]
      by_cases h3 : s' > halfN
      · simp only [h3, if_true, nneg_eq (Nat.pos_of_ne_zero h2) hsN]
        rfl
      · simp only [h3, if_false]
        rfl

theorem toPt_some_lt {q : Jac} {x y : Nat} (h : Jac.toPt q = some (x, y)) : x < P ∧ y < P := by
  unfold Jac.toPt at h
  split_ifs at h
  simp only [Option.some.injEq, Prod.mk.injEq] at h
  obtain ⟨rfl, rfl⟩ := h
  exact ⟨fmul_lt _ _, fmul_lt _ _⟩

/-- the affine nonce point delivered by the point layer -/
theorem nonce_point (hp : PointSpec) (k : Nat) (hk : k < N) (hfin : smul k G ≠ none) :
    ∃ x y, x < P ∧ y < P ∧ smul k G = some (x, y) ∧ toAffineJ (scalarBaseMultNC k) = (x, y, 1) := by
  obtain ⟨w, t⟩ := hp.sbmul k hk
  cases hR : smul k G with
  | none => exact absurd hR hfin
  | some p =>
    obtain ⟨x, y⟩ := p
    rw [hR] at t
    obtain ⟨hx, hy⟩ := toPt_some_lt t
    exact ⟨x, y, hx, hy, rfl, hp.toAffine _ x y w t⟩

/-- `hfin` (k·G is finite, which holds for 0 < k < N by the group-order theorem) is needed because
    `PointSpec` does not determine `ToAffine` of the identity -/
theorem sign_eq_spec (hp : PointSpec) (d k : Nat) (h : Bytes) (_hd : d < N) (_hk0 : 0 < k) (hk : k < N)
    (hfin : smul k G ≠ none) :
    signM d k h = ecdsaSignWithNonce d k h := by
  obtain ⟨x, y, hx, -, hR, hA⟩ := nonce_point hp k hk hfin
  rw [signM_eq_body, hA]
  exact signBody_eq_spec x y d k h hx hR

theorem drbgNonce_range (H : HmacFn) (fuel : Nat) (s : DrbgState) (skip k : Nat)
    (h : drbgNonce H fuel s skip = some k) : 0 < k ∧ k < N := by
  induction fuel generalizing s skip with
  | zero => simp [drbgNonce] at h
  | succ f ih =>
    unfold drbgNonce at h
    simp only at h
    split_ifs at h with h1 h2
    · rw [Option.some.injEq] at h
      rw [← h]; exact h1
    · exact ih _ _ h
    · exact ih _ _ h

theorem nonce_range (H : HmacFn) (fuel : Nat) (priv hash extra version : Bytes) (iter k : Nat)
    (h : nonceRFC6979 H fuel priv hash extra version iter = some k) : 0 < k ∧ k < N :=
  drbgNonce_range H fuel _ iter k h

theorem signAux_eq_spec (hp : PointSpec) (H : HmacFn) (cand : Nat) (d : Nat) (h : Bytes) (hd : d < N)
    (hfin : ∀ k, 0 < k → k < N → smul k G ≠ none) (fuel iter : Nat)
    (model : Nat → Nat → Option (Nat × Nat × Nat))
    (hm0 : ∀ iter, model 0 iter = none)
    (hm1 : ∀ f iter, model (f + 1) iter =
      match nonceRFC6979 H cand (be32 d) h [] [] iter with
      | none => none
      | some k =>
        match signM d k h with
        | some sig => some sig
        | none => model f (iter + 1)) :
    model fuel iter = ecdsaSignAuxGen H cand d h fuel iter := by
  induction fuel generalizing iter with
  | zero => rw [hm0]; rfl
  | succ f ih =>
    rw [hm1]
    unfold ecdsaSignAuxGen
    cases hk : nonceRFC6979 H cand (be32 d) h [] [] iter with
    | none => rfl
    | some k =>
      obtain ⟨hk0, hkN⟩ := nonce_range _ _ _ _ _ _ _ _ hk
      simp only
      rw [sign_eq_spec hp d k h hd hk0 hkN (hfin k hk0 hkN), ih]
      cases ecdsaSignWithNonce d k h <;> rfl

section
-- keep the unifier from evaluating the signing body when unfolding the retry loop
attribute [local irreducible] signM

theorem signRFC6979_eq_spec (hp : PointSpec) (d : Nat) (h : Bytes) (hd : d < N) (fuel iter : Nat)
    (hfin : ∀ k, 0 < k → k < N → smul k G ≠ none) :
    signRFC6979Aux hmacSha256 d h fuel iter = ecdsaSignAuxGen hmacSha256 256 d h fuel iter :=
  signAux_eq_spec hp hmacSha256 256 d h hd hfin fuel iter (signRFC6979Aux hmacSha256 d h)
    (fun _ => rfl) (fun _ _ => rfl)

end

theorem xor_one_lt_four (c : Nat) (h : c < 4) : c ^^^ 1 < 4 := by
  interval_cases c <;> decide

theorem code_lt_four (c : Prop) [Decidable c] (y : Nat) : ((if c then 2 else 0) ||| (y % 2)) < 4 := by
  rw [code_or]
  have := Nat.mod_lt y (by decide : 0 < 2)
  split_ifs <;> omega

theorem signBody_props (x y d k : Nat) (h : Bytes) (r s v : Nat)
    (hs : signBody x y d k h = some (r, s, v)) :
    0 < r ∧ (x < P → r < N) ∧ 0 < s ∧ s ≤ halfN ∧ v < 4 := by
  have hP2N := P_lt_two_N
  have hhalf := halfN_eq
  unfold signBody at hs
  simp only at hs
  have hsN : nmul (nadd (nmul d (if x ≥ N then x - N else x)) (hashScalar h)) (ninv k) < N := nmul_lt _ _
  generalize nmul (nadd (nmul d (if x ≥ N then x - N else x)) (hashScalar h)) (ninv k) = s' at hs hsN
  have hc := code_lt_four (x ≥ N) y
  generalize ((if x ≥ N then 2 else 0) ||| (y % 2)) = c at hs hc
  have hr : x < P → (if x ≥ N then x - N else x) < N := by
    intro hx; split_ifs <;> omega
  generalize (if x ≥ N then x - N else x) = r0 at hs hr
  split_ifs at hs with h1 h2 h3
  · simp only [Option.some.injEq, Prod.mk.injEq] at hs
    obtain ⟨rfl, e2, e3⟩ := hs
    rw [nneg_eq (Nat.pos_of_ne_zero h2) hsN] at e2
    refine ⟨Nat.pos_of_ne_zero h1, hr, by omega, by omega, ?_⟩
    rw [← e3]; exact xor_one_lt_four c hc
  · simp only [Option.some.injEq, Prod.mk.injEq] at hs
    obtain ⟨rfl, e2, e3⟩ := hs
    refine ⟨Nat.pos_of_ne_zero h1, hr, by omega, by omega, ?_⟩
    rw [← e3]; exact hc

/-- unconditional part of `sign_low_s` (`r < N` needs a bound on the affine x coordinate) -/
theorem sign_low_s_partial (d k : Nat) (h : Bytes) (r s v : Nat) (hs : signM d k h = some (r, s, v)) :
    0 < r ∧ 0 < s ∧ s ≤ halfN ∧ v < 4 := by
  rw [signM_eq_body] at hs
  obtain ⟨a, -, b, c, e⟩ := signBody_props _ _ d k h r s v hs
  exact ⟨a, b, c, e⟩

/-- `sign_low_s` given that `ToAffine` produced a normalised x coordinate -/
theorem sign_low_s_of_bound (d k : Nat) (h : Bytes) (r s v : Nat)
    (hx : (toAffineJ (scalarBaseMultNC k)).1 < P) (hs : signM d k h = some (r, s, v)) :
    0 < r ∧ r < N ∧ 0 < s ∧ s ≤ halfN ∧ v < 4 := by
  rw [signM_eq_body] at hs
  obtain ⟨a, a', b, c, e⟩ := signBody_props _ _ d k h r s v hs
  exact ⟨a, a' hx, b, c, e⟩

theorem sign_low_s (hp : PointSpec) (d k : Nat) (h : Bytes) (r s v : Nat) (hk : k < N)
    (hfin : smul k G ≠ none) (hs : signM d k h = some (r, s, v)) :
    0 < r ∧ r < N ∧ 0 < s ∧ s ≤ halfN ∧ v < 4 := by
  obtain ⟨x, y, hx, -, -, hA⟩ := nonce_point hp k hk hfin
  exact sign_low_s_of_bound d k h r s v (by rw [hA]; exact hx) hs

/-! ### C07: recovery -/

theorem bit2_iff (v : Nat) (hv : v < 4) : (v &&& 2 ≠ 0) ↔ v / 2 % 2 = 1 := by
  interval_cases v <;> decide

theorem bit1_iff (v : Nat) (hv : v < 4) : (v &&& 1 ≠ 0) ↔ v % 2 = 1 := by
  interval_cases v <;> decide

/-- the specification's `liftX` is the model's `DecompressY` -/
theorem liftX_eq (x : Nat) (odd : Bool) (hx : x < P) :
    liftX x odd = (decompressY x odd).map (fun y => (x, y)) := by
  unfold liftX decompressY fsqrt
  rw [if_neg (by omega)]
  have ha : fadd (fmul (fsq x) x) 7 % P = fadd (fmul (fsq x) x) 7 := Nat.mod_eq_of_lt (fadd_lt _ _)
  simp only [ha, beq_iff_eq]
  generalize fadd (fmul (fsq x) x) 7 = a
  by_cases h1 : fsq (fsqrtCand a) = a
  · simp only [h1, if_true, Option.map_some]
    cases hpar : (fsqrtCand a % 2 == 1) <;> cases odd <;> simp
  · simp only [h1, if_false, Option.map_none]

/-- success value of a recovery outcome -/
def toOpt : Except RecErr (Nat × Nat) → Option (Nat × Nat)
  | .ok q => some q
  | .error _ => none

/-- the tail of `RecoverPublicKey` after decompression -/
theorem recover_tail (hp : PointSpec) (x y u1 u2 : Nat) (hon : OnCurve x y) (h1 : u1 < N) (h2 : u2 < N) :
    toOpt (if isInfJ (addNC3 (scalarBaseMultNC u1) (scalarMultNC u2 (x, y, 1))) then
        (.error .ErrPointNotOnCurve : Except RecErr (Nat × Nat))
      else .ok ((toAffineJ (addNC3 (scalarBaseMultNC u1) (scalarMultNC u2 (x, y, 1)))).1,
                (toAffineJ (addNC3 (scalarBaseMultNC u1) (scalarMultNC u2 (x, y, 1)))).2.1)) =
    Pt.add (smul u1 G) (smul u2 (some (x, y))) := by
  obtain ⟨w1, t1⟩ := hp.sbmul u1 h1
  obtain ⟨w2, t2⟩ := hp.smulA u2 x y h2 hon
  obtain ⟨w3, t3⟩ := hp.add3 _ _ w1 w2
  rw [t1, t2] at t3
  rw [← t3]
  generalize addNC3 (scalarBaseMultNC u1) (scalarMultNC u2 (x, y, 1)) = Q at w3 t3 ⊢
  cases hi : isInfJ Q with
  | true =>
    rw [(toPt_none_iff Q w3).2 hi]
    rfl
  | false =>
    have hs := toPt_of_not_inf Q w3 hi
    rw [hp.toAffine Q _ _ w3 hs, hs]
    rfl

theorem toOpt_eq (e : Except RecErr (Nat × Nat)) :
    (match e with | .ok q => some q | .error _ => none) = toOpt e := by
  cases e <;> rfl

theorem recover_iff (hp : PointSpec) (h : Bytes) (r s v : Nat) (_hr0 : 0 < r) (hr : r < N) (_hs : s < N)
    (hv : v < 4) :
    (match recoverM h r s v with | .ok q => some q | .error _ => none) = ecdsaRecover h r s v := by
  have hNP := N_lt_P
  have hvff : ¬ v = 0xff := by omega
  have hodd : decide (v % 2 = 1) = (v % 2 == 1) := by
    rw [Bool.eq_iff_iff]; simp
  refine (toOpt_eq _).trans ?_
  unfold recoverM ecdsaRecover
  simp only [hvff, if_false, bit2_iff v hv, bit1_iff v hv, hashScalar_eq, hodd]
  have hstep : (if v / 2 % 2 = 1 then
        (if r ≥ P - N then (Except.error RecErr.ErrSigOverflowsPrime : Except RecErr Nat)
         else .ok (r + N)) else .ok r) =
      if (if v / 2 % 2 = 1 then r + N else r) ≥ P then .error .ErrSigOverflowsPrime
      else .ok (if v / 2 % 2 = 1 then r + N else r) := by
    split_ifs <;> first | rfl | omega
  rw [hstep]
  generalize (if v / 2 % 2 = 1 then r + N else r) = x
  by_cases hx : x ≥ P
  · simp only [hx, if_true]
    rfl
  · simp only [hx, if_false]
    have hx' : x < P := by omega
    rw [hp.decompress x _ hx', liftX_eq x _ hx', Nat.mod_eq_of_lt hx']
    cases hd : decompressY x (v % 2 == 1) with
    | none => rfl
    | some y =>
      obtain ⟨hy, hc, -⟩ := (PubKey.decompressY_iff x y _).1 hd
      simp only [Option.map_some]
      exact recover_tail hp x y _ _ ⟨hx', hy, hc⟩ (nneg_lt _) (nmul_lt _ _)

theorem recover_panic_iff (h : Bytes) (r s v : Nat) : recoverM h r s v = .error .Panic ↔ v = 0xff := by
  unfold recoverM
  constructor
  · intro hh
    by_contra hv
    rw [if_neg hv] at hh
    simp only at hh
    split at hh
    · rename_i e he
      split_ifs at he
      all_goals (injection he with he; injection hh with hh; rw [← he] at hh; cases hh)
    · split at hh
      · cases hh
      · split_ifs at hh
        cases hh
  · intro hv
    rw [if_pos hv]

/-! ### C07: export and compact encoding -/

theorem export_spec (r s v : Nat) (hs : s < N) :
    exportM r s v = if s > halfN then (r, N - s, v ^^^ 1) else (r, s, v) := by
  unfold exportM
  split_ifs with h
  · rw [nneg_eq (by omega) hs]
  · rfl

theorem exportM_cases (r s v : Nat) (hs0 : 0 < s) (hs : s < N) (hv : v < 4) :
    ∃ s' v', exportM r s v = (r, s', v') ∧ 0 < s' ∧ s' < N ∧ v' < 4 := by
  rw [export_spec r s v hs]
  split_ifs with h
  · exact ⟨N - s, v ^^^ 1, rfl, by omega, by omega, xor_one_lt_four v hv⟩
  · exact ⟨s, v, rfl, hs0, hs, hv⟩

theorem ssbs_be32 (r : Nat) (hr : r < N) : scalarSetByteSlice (be32 r) = (r, false) := by
  unfold scalarSetByteSlice
  have h1 : (be32 r).take 32 = be32 r := List.take_of_length_le (by rw [Der.be32_length])
  have h2 : beNat (be32 r) = r := by
    rw [Der.beNat_be32, Nat.mod_eq_of_lt (Nat.lt_trans hr N_lt_pow)]
  have h3 : ¬ r ≥ N := by omega
  simp only [h1, h2, h3, if_false, decide_false]

theorem parse_cons (c : UInt8) (a b : Bytes) (ha : a.length = 32) (hb : b.length = 32) (r s : Nat)
    (hra : scalarSetByteSlice a = (r, false)) (hsb : scalarSetByteSlice b = (s, false))
    (hr0 : r ≠ 0) (hs0 : s ≠ 0) (hc : ¬ (c.toNat < 27 ∨ c.toNat > 34)) :
    parseCompactM (c :: (a ++ b)) =
      .ok (r, s, (c.toNat - 27) &&& 3, decide ((c.toNat - 27) &&& 4 ≠ 0)) := by
  have hlen : ¬ (c :: (a ++ b)).length ≠ 65 := by
    rw [List.length_cons, List.length_append, ha, hb]; decide
  have htake : ((c :: (a ++ b)).take 33).drop 1 = a := by
    rw [List.take_succ_cons, List.drop_succ_cons, List.drop_zero]
    exact List.take_left' ha
  have hdrop : (c :: (a ++ b)).drop 33 = b := by
    rw [List.drop_succ_cons]
    exact List.drop_left' ha
  have hhead : (c :: (a ++ b)).headD 0 = c := rfl
  unfold parseCompactM
  simp only [hlen, if_false, htake, hdrop, hhead, hc, hra, hsb, hr0, hs0, Bool.false_eq_true]

theorem code_bits (v : Nat) (comp : Bool) (hv : v < 4) :
    (v + (if comp then 31 else 27)) % 256 % 256 = v + (if comp then 31 else 27) ∧
    ¬ (v + (if comp then 31 else 27) < 27 ∨ v + (if comp then 31 else 27) > 34) ∧
    (v + (if comp then 31 else 27) - 27) &&& 3 = v ∧
    decide ((v + (if comp then 31 else 27) - 27) &&& 4 ≠ 0) = comp := by
  interval_cases v <;> cases comp <;> decide

theorem parse_exportCompact (r s v : Nat) (comp : Bool) (hr0 : 0 < r) (hr : r < N) (hs0 : 0 < s)
    (hs : s < N) (hv : v < 4) :
    parseCompactM (exportCompactM r s v true (if comp then 31 else 27)) =
      .ok ((exportM r s v).1, (exportM r s v).2.1, (exportM r s v).2.2, comp) := by
  obtain ⟨s', v', he, hs0', hs', hv'⟩ := exportM_cases r s v hs0 hs hv
  unfold exportCompactM
  rw [he]
  simp only [if_true]
  obtain ⟨c1, c2, c3, c4⟩ := code_bits v' comp hv'
  have hcn : (UInt8.ofNat ((v' + (if comp then 31 else 27)) % 256)).toNat =
      v' + (if comp then 31 else 27) := by
    rw [UInt8.toNat_ofNat']
    exact c1
  rw [List.cons_append, parse_cons _ (be32 r) (be32 s') (Der.be32_length r) (Der.be32_length s') r s'
    (ssbs_be32 r hr) (ssbs_be32 s' hs') (by omega) (by omega) (by rw [hcn]; exact c2)]
  rw [hcn, c3, c4]

end Secp.Proofs.Ecdsa
