import Secp.Gen.Drivers
import Secp.Proofs.Ecdsa
import Secp.Proofs.Nonce
import Secp.Proofs.Chains
import Secp.Props.C10
/-
  Proofs/DriversSign — the REGENERATED value-level drivers `fieldToModNScalar`, `modNScalarToField`,
  `sign`, `signRFC6979` (Gen/Drivers.lean, tools/gotr pass T8) are equal to the hand-written models
  `signM`, `signRFC6979Aux`, `signRFC6979M` of Model/Ecdsa.
-/
namespace Secp.Proofs.DriversSign
open Secp.Spec Secp.Model

theorem buf32 (v : Nat) :
    (List.replicate 32 (0 : UInt8)).take 0 ++ (be32 v).take 32 ++ (List.replicate 32 (0 : UInt8)).drop (0 + 32)
      = be32 v := by
  have hl : (be32 v).length = 32 := Secp.Proofs.Der.be32_length v
  have ht : (be32 v).take 32 = be32 v := List.take_of_length_le (le_of_eq hl)
  rw [ht]
  simp

theorem fieldToModNScalar_eq (v : Nat) (hv : v < 2^256) :
    Secp.Gen.Drivers.fieldToModNScalar v = (if v ≥ N then v - N else v, if v ≥ N then 1 else 0) := by
  have hl : (be32 v).length = 32 := Secp.Proofs.Der.be32_length v
  have ht : (be32 v).take 32 = be32 v := List.take_of_length_le (by omega)
  have hb : beNat (be32 v) = v := by
    rw [Secp.Proofs.Der.beNat_be32, Nat.mod_eq_of_lt hv]
  unfold Secp.Gen.Drivers.fieldToModNScalar
  simp only [buf32]
  simp only [scalarSetByteSlice, ht, hb, decide_eq_true_eq]

theorem modNScalarToField_eq (v : Nat) (hv : v < 2^256) : Secp.Gen.Drivers.modNScalarToField v = v := by
  unfold Secp.Gen.Drivers.modNScalarToField
  simp only [buf32]
  rw [Secp.Proofs.Der.beNat_be32, Nat.mod_eq_of_lt hv]

/-- `ToAffine` ends with `Normalize` of X: the first register of the result is reduced,
    whatever the input registers are (same argument as `DriversSchnorr.toAffineJ_fst_lt`). -/
theorem toAffineJ_fst_lt' (q : Jac) : (toAffineJ q).1 < P := by
  open Secp.FOp Secp.Proofs.Chains Secp.Gen.FormulasC in
  obtain ⟨X, Y, Z⟩ := q
  obtain ⟨callF, hrun⟩ := runNamed_eq "ToAffine" 8 ToAffine [X, Y, Z] [] (by decide) rfl
  have hops : opsOnly tChain = true := by decide +kernel
  generalize hr1 : runOps tChain ([X, Y, Z] ++ List.replicate 13 0) = r1
  have hlen : r1.length = 16 := by rw [← hr1, length_runOps]; rfl
  have hP : 0 < P := by decide +kernel
  unfold toAffineJ
  simp only []
  rw [hrun, show ToAffine.paths = [ToAffine_p0] from rfl]
  simp only [List.findSome?_cons, List.findSome?_nil]
  rw [show ToAffine.nreg - [X, Y, Z].length = 13 from rfl, toAffine_items]
  simp only [exec_append, exec_opsOnly _ _ hops, hr1, Option.bind_some]
  simp [execPathWith, stepF, rget_rset, length_rset, hlen]
  exact Nat.mod_lt _ hP

theorem P_lt_pow : P < 2 ^ 256 := by decide +kernel

/-- the x coordinate delivered by `ToAffine` is canonical, so `fieldToModNScalar` sees a value < 2^256 -/
theorem affine_x_lt (k : Nat) : (toAffineJ (scalarBaseMultNC k)).1 < 2 ^ 256 :=
  lt_trans (toAffineJ_fst_lt' _) P_lt_pow

theorem code_bits (y : Nat) :
    ((((1 : Nat) <<< 1) % 4294967296) % 256 ||| ((y % 2) % 256)) = (2 ||| (y % 2)) ∧
    ((((0 : Nat) <<< 1) % 4294967296) % 256 ||| ((y % 2) % 256)) = (0 ||| (y % 2)) := by
  have h : y % 2 % 256 = y % 2 := Nat.mod_eq_of_lt (by omega)
  rw [h]
  exact ⟨rfl, rfl⟩

theorem sign_regenerated_of (d k : Nat) (h : Bytes) (hx : (toAffineJ (scalarBaseMultNC k)).1 < 2^256) :
    Secp.Gen.Drivers.sign d k h = (match signM d k h with | some x => DR.ok x | none => DR.err ()) := by
  unfold Secp.Gen.Drivers.sign signM
  simp only [fieldToModNScalar_eq _ hx, hashScalar, beq_iff_eq, decide_eq_true_eq]
  generalize (toAffineJ (scalarBaseMultNC k)).1 = x
  generalize (toAffineJ (scalarBaseMultNC k)).2.1 = y
  obtain ⟨c1, c0⟩ := code_bits y
  by_cases ho : x ≥ N
  · simp only [ho, if_true, c1]
    split_ifs <;> rfl
  · simp only [ho, if_false, c0]
    split_ifs <;> rfl

theorem sign_regenerated (d k : Nat) (h : Bytes) :
    Secp.Gen.Drivers.sign d k h = (match signM d k h with | some x => DR.ok x | none => DR.err ()) :=
  sign_regenerated_of d k h (affine_x_lt k)

section
-- keep the unifier from evaluating the signing bodies when unfolding the retry loops
attribute [local irreducible] signM Secp.Gen.Drivers.sign

theorem loop_zero (d : Nat) (h pk : Bytes) (iter : Nat) :
    Secp.Gen.Drivers.signRFC6979_loop d h pk 0 iter = .fuel := rfl

theorem loop_succ (d : Nat) (h pk : Bytes) (n iter : Nat) :
    Secp.Gen.Drivers.signRFC6979_loop d h pk (n+1) iter =
      (match nonceM 256 pk h [] [] iter with
       | none => .fuel
       | some k =>
         match Secp.Gen.Drivers.sign d k h with
         | .panic => .panic
         | .fuel => .fuel
         | .undef => .undef
         | .err _ => Secp.Gen.Drivers.signRFC6979_loop d h pk n ((iter + 1) % 4294967296)
         | .ok sig => .ok sig) := rfl

theorem aux_zero (H : HmacFn) (d : Nat) (h : Bytes) (iter : Nat) : signRFC6979Aux H d h 0 iter = none := rfl

theorem aux_succ (H : HmacFn) (d : Nat) (h : Bytes) (n iter : Nat) :
    signRFC6979Aux H d h (n+1) iter =
    (match nonceRFC6979 H 256 (be32 d) h [] [] iter with
    | none => none
    | some k =>
      match signM d k h with
      | some sig => some sig
      | none => signRFC6979Aux H d h n (iter + 1)) := rfl
end

theorem signRFC6979_loop_regenerated (d : Nat) (h : Bytes) (fuel iter : Nat) (hi : iter + fuel < 2^32) :
    Secp.Gen.Drivers.signRFC6979_loop d h (be32 d) fuel iter =
      (match signRFC6979Aux hmacSha256 d h fuel iter with | some x => DR.ok x | none => DR.fuel) := by
  have hi' : iter + fuel < 4294967296 := by norm_num at hi; exact hi
  clear hi
  induction fuel generalizing iter with
  | zero => rw [loop_zero, aux_zero]
  | succ n ih =>
    rw [loop_succ, aux_succ, Secp.Props.C10.nonce_spec]
    cases hk : nonceRFC6979 hmacSha256 256 (be32 d) h [] [] iter with
    | none => rfl
    | some k =>
      simp only [sign_regenerated]
      cases hs : signM d k h with
      | some sig => rfl
      | none =>
        simp only []
        rw [Nat.mod_eq_of_lt (by omega), ih (iter + 1) (by omega)]

theorem signRFC6979_regenerated (d : Nat) (h : Bytes) :
    Secp.Gen.Drivers.signRFC6979 d h = (match signRFC6979M d h with | some x => DR.ok x | none => DR.fuel) := by
  unfold Secp.Gen.Drivers.signRFC6979 signRFC6979M
  simp only [buf32]
  exact signRFC6979_loop_regenerated d h 16 0 (by norm_num)


/-! ### the same statements with the (redundant) range hypothesis `hx`, for callers that carry it -/

theorem sign_regenerated_hx (d k : Nat) (h : Bytes) (_hx : (toAffineJ (scalarBaseMultNC k)).1 < 2^256) :
    Secp.Gen.Drivers.sign d k h = (match signM d k h with | some x => DR.ok x | none => DR.err ()) :=
  sign_regenerated d k h

theorem signRFC6979_loop_regenerated_hx (d : Nat) (h : Bytes) (fuel iter : Nat) (hi : iter + fuel < 2^32)
    (_hx : ∀ k, (toAffineJ (scalarBaseMultNC k)).1 < 2^256) :
    Secp.Gen.Drivers.signRFC6979_loop d h (be32 d) fuel iter =
      (match signRFC6979Aux hmacSha256 d h fuel iter with | some x => DR.ok x | none => DR.fuel) :=
  signRFC6979_loop_regenerated d h fuel iter hi

theorem signRFC6979_regenerated_hx (d : Nat) (h : Bytes) (_hx : ∀ k, (toAffineJ (scalarBaseMultNC k)).1 < 2^256) :
    Secp.Gen.Drivers.signRFC6979 d h = (match signRFC6979M d h with | some x => DR.ok x | none => DR.fuel) :=
  signRFC6979_regenerated d h

end Secp.Proofs.DriversSign

#print axioms Secp.Proofs.DriversSign.fieldToModNScalar_eq
#print axioms Secp.Proofs.DriversSign.modNScalarToField_eq
#print axioms Secp.Proofs.DriversSign.sign_regenerated
#print axioms Secp.Proofs.DriversSign.signRFC6979_loop_regenerated
#print axioms Secp.Proofs.DriversSign.signRFC6979_regenerated
