import Secp.Spec.Curve
/-
  Spec/Sec1 — SEC1 §2.3.3/2.3.4 / X9.62 public-key encodings, written from the standard.
-/
namespace Secp.Spec

/-- (x, y) is an affine point of the curve with canonical coordinates -/
def OnCurve (x y : Nat) : Prop := x < P ∧ y < P ∧ (y * y) % P = (x * x * x + 7) % P

/-- `b` is a valid SEC1 encoding of the affine point (x, y) -/
def ValidSEC1 (b : Bytes) (x y : Nat) : Prop :=
  OnCurve x y ∧
  ( (b = (0x04 : UInt8) :: be32 x ++ be32 y) ∨
    (b = (if y % 2 = 1 then (0x07 : UInt8) else 0x06) :: be32 x ++ be32 y) ∨
    (b = (if y % 2 = 1 then (0x03 : UInt8) else 0x02) :: be32 x) )

end Secp.Spec
