//go:build verif

package main

import (
	"bytes"
	"crypto"
	"fmt"
	"io"
	"math/big"
	"strconv"

	secp "github.com/ModChain/secp256k1"
)

func sigRSV(sig *secp.Signature, withV bool) string {
	r, s := sig.R(), sig.S()
	out := scalarHex(&r) + " " + scalarHex(&s)
	if withV {
		out += " " + strconv.Itoa(int(sig.RecoveryCode()))
	}
	return out
}

// badReader fails every read: the deterministic signer must never touch its entropy argument
type badReader struct{}

func (badReader) Read(p []byte) (int, error) { return 0, fmt.Errorf("entropy source must not be read") }

// sigObjectStable: every observer of a Signature object (Serialize, Export, ExportCompact, Verify, RecoverPublicKey,
// IsEqual) leaves the object as it was and answers the same when asked again after the others have run.
func sigObjectStable(sig *secp.Signature, hash []byte) string {
	code := func() (c int) { // RecoveryCode panics on a signature without one
		defer func() {
			if recover() != nil {
				c = 0xff
			}
		}()
		return int(sig.RecoveryCode())
	}
	snap := func() string {
		r, s := sig.R(), sig.S()
		return scalarHex(&r) + "/" + scalarHex(&s) + "/" + strconv.Itoa(code())
	}
	g := secp.NewPrivateKey(scalarFromHex("01")).PubKey()
	obs := []struct {
		name string
		f    func() string
	}{
		{"Serialize", func() string { return hx(sig.Serialize()) }},
		{"Export", func() string {
			if code() == 0xff {
				return "-"
			}
			r, s, c := sig.Export()
			return r.String() + "," + s.String() + "," + strconv.Itoa(int(c))
		}},
		{"ExportCompact", func() string {
			if code() == 0xff {
				return "-"
			}
			return hx(sig.ExportCompact(true, 27)) + hx(sig.ExportCompact(false, 0))
		}},
		{"Verify", func() string { return strconv.FormatBool(sig.Verify(hash, g)) }},
		{"RecoverPublicKey", func() string {
			if code() > 3 {
				return "-"
			}
			pk, err := sig.RecoverPublicKey(hash)
			if err != nil {
				return "err " + errKind(err)
			}
			return pubXY(pk)
		}},
		{"IsEqual", func() string {
			r, s := sig.R(), sig.S()
			return strconv.FormatBool(sig.IsEqual(secp.NewSignature(&r, &s)))
		}},
	}
	before := snap()
	for _, g := range []struct {
		name string
		f    func() []byte
	}{
		{"Signature.Serialize", func() []byte { return sig.Serialize() }},
		{"Signature.ExportCompact", func() []byte {
			if code() == 0xff {
				return nil
			}
			return sig.ExportCompact(true, 27)
		}},
	} {
		if m := scribbleStable(g.name, g.f); m != "" {
			return m
		}
		if now := snap(); now != before {
			return "OBJECT-CHANGED-BY-" + g.name + " " + before + " -> " + now
		}
	}
	first := make([]string, len(obs))
	for i, o := range obs {
		first[i] = o.f()
		if now := snap(); now != before {
			return "OBJECT-CHANGED-BY-" + o.name + " " + before + " -> " + now
		}
	}
	for i := len(obs) - 1; i >= 0; i-- {
		if again := obs[i].f(); again != first[i] {
			return "ANSWER-CHANGED-" + obs[i].name + " " + first[i] + " -> " + again
		}
	}
	return ""
}

// long-lived private key object used by every `sign` operation of a run (its scalar is Set in place)
var reuseSignKey = secp.NewPrivateKey(scalarFromHex("01"))

func pubFromXY(xs, ys string) *secp.PublicKey {
	return secp.NewPublicKey(fvFromHex(xs), fvFromHex(ys))
}

func init() {
	// sign <d> <hash> : all encodings, signed twice (second time after unrelated calls)
	opImpl["sign"] = func(a []string) string {
		dk := scalarFromHex(a[0])
		key := secp.NewPrivateKey(dk)
		hash := unhx(a[1])
		return withArgsCheck([][]byte{hash}, func() string {
			sig := secp.Sign(key, hash)
			der := sig.Serialize()
			c1 := secp.SignCompact(key, hash, true)
			c0 := secp.SignCompact(key, hash, false)
			sd, _ := key.Sign(nil, hash, nil)
			sc, _ := key.Sign(nil, hash, &secp.SignOptions{Format: secp.SignFormatCompact})
			// interleave other work, then sign again: output must be byte-identical
			secp.Sign(secp.NewPrivateKey(scalarFromHex("01")), []byte{1, 2, 3})
			secp.NonceRFC6979([]byte{9}, []byte{8}, nil, nil, 3)
			sig2 := secp.Sign(key, hash)
			c1b := secp.SignCompact(key, hash, true)
			sd2, _ := key.Sign(nil, hash, nil)
			if !bytes.Equal(der, sig2.Serialize()) || !bytes.Equal(c1, c1b) || !bytes.Equal(sd, sd2) || !sig.IsEqual(sig2) {
				return "NONDETERMINISTIC"
			}
			if !sig.Verify(hash, key.PubKey()) {
				return "SELF-VERIFY-FAILED " + sigRSV(sig, true)
			}
			// (the harness's own long-lived objects are guarded: goroutines of the concurrent run share them)
			if m := func() string {
				historyMu.Lock()
				defer historyMu.Unlock()
				// a long-lived key object whose scalar earlier operations set to other values signs the same bytes
				reuseSignKey.Key.Set(dk)
				if lr := secp.Sign(reuseSignKey, hash); !bytes.Equal(lr.Serialize(), der) || !bytes.Equal(secp.SignCompact(reuseSignKey, hash, true), c1) {
					return "DEPENDS-ON-KEY-OBJECT-HISTORY " + hx(lr.Serialize())
				}
				if m := sigObjectStable(sig, hash); m != "" {
					return m
				}
				// PubKey() of the long-lived object follows its current scalar, and the object it returns is the caller's own
				pk1 := reuseSignKey.PubKey()
				if !pk1.IsEqual(key.PubKey()) {
					return "PUBKEY-DEPENDS-ON-KEY-OBJECT-HISTORY"
				}
				*pk1 = *secp.NewPrivateKey(scalarFromHex("02")).PubKey() // scribble over what we were handed
				if !reuseSignKey.PubKey().IsEqual(key.PubKey()) {
					return "PUBKEY-RETURNS-SHARED-OBJECT"
				}
				return ""
			}(); m != "" {
				return m
			}
			// the crypto.Signer front end: the digest is signed as given, whatever hash the options name and
			// whatever the (unused) entropy source does; only Format selects the encoding
			for hf := crypto.Hash(0); hf < 20; hf++ {
				for _, rd := range []io.Reader{nil, badReader{}} {
					o1, e1 := key.Sign(rd, hash, hf)
					o2, e2 := key.Sign(rd, hash, &secp.SignOptions{Hash: hf})
					o3, e3 := key.Sign(rd, hash, &secp.SignOptions{Format: secp.SignFormatCompact, Hash: hf})
					if e1 != nil || e2 != nil || e3 != nil || !bytes.Equal(o1, sd) || !bytes.Equal(o2, sd) || !bytes.Equal(o3, sc) {
						return fmt.Sprintf("SIGNER-DEPENDS-ON-OPTIONS hash=%d reader=%v", hf, rd != nil)
					}
				}
			}
			return sigRSV(sig, true) + " " + hx(der) + " " + hx(c1) + " " + hx(c0) + " " + hx(sd) + " " + hx(sc)
		})
	}
	opImpl["sign_nonce"] = func(a []string) string {
		sig, ok := secp.VerifSign(scalarFromHex(a[0]), scalarFromHex(a[1]), unhx(a[2]))
		if !ok {
			return "none"
		}
		return sigRSV(sig, true)
	}
	opImpl["verify"] = func(a []string) string {
		hash := unhx(a[0])
		pub := pubFromXY(a[1], a[2])
		sig := secp.NewSignature(scalarFromHex(a[3]), scalarFromHex(a[4]))
		return withArgsCheck([][]byte{hash}, func() string {
			ans := sig.Verify(hash, pub)
			// the verdict is a function of (hash, Q, r, s): the same pair inside objects that carry any recovery code,
			// or that BruteforceRecoveryCode has just been run on against another key, must get the same answer
			for v := 0; v < 4; v++ {
				o := secp.NewSignatureWithRecoveryCode(scalarFromHex(a[3]), scalarFromHex(a[4]), byte(v))
				if o.Verify(hash, pub) != ans {
					return "VERDICT-DEPENDS-ON-RECOVERY-CODE " + strconv.Itoa(v)
				}
			}
			o := secp.NewSignature(scalarFromHex(a[3]), scalarFromHex(a[4]))
			historyMu.Lock()
			otherKey := reuseSignKey.PubKey()
			historyMu.Unlock()
			o.BruteforceRecoveryCode(hash, otherKey)
			o.BruteforceRecoveryCode(hash, pub)
			if o.Verify(hash, pub) != ans || sig.Verify(hash, pub) != ans {
				return "VERDICT-DEPENDS-ON-OBJECT-HISTORY"
			}
			// a public key obtained from a long-lived private-key object equals the freshly derived one
			if ans {
				return "true"
			}
			return "false"
		})
	}
	opImpl["recover"] = func(a []string) string {
		hash := unhx(a[0])
		v, _ := strconv.Atoi(a[3])
		sig := secp.NewSignatureWithRecoveryCode(scalarFromHex(a[1]), scalarFromHex(a[2]), byte(v))
		return withArgsCheck([][]byte{hash}, func() string {
			pk, err := sig.RecoverPublicKey(hash)
			if err != nil {
				return "err " + errKind(err)
			}
			if !pk.IsOnCurve() {
				return "ok-OFF-CURVE " + pubXY(pk)
			}
			if m := sigObjectStable(sig, hash); m != "" {
				return "ok " + pubXY(pk) + " " + m
			}
			return "ok " + pubXY(pk)
		})
	}
	// bruteforce <hash> <qx> <qy> <r> <s>: BruteforceRecoveryCode on a signature without a code: found? which code?
	opImpl["bruteforce"] = func(a []string) string {
		hash := unhx(a[0])
		pub := pubFromXY(a[1], a[2])
		sig := secp.NewSignature(scalarFromHex(a[3]), scalarFromHex(a[4]))
		return withArgsCheck([][]byte{hash}, func() string {
			ok := sig.BruteforceRecoveryCode(hash, pub)
			code := 255
			func() {
				defer func() { recover() }()
				code = int(sig.RecoveryCode())
			}()
			if !ok {
				return fmt.Sprintf("false %d", code)
			}
			// the code that was found must recover the key
			if pk, err := sig.RecoverPublicKey(hash); err != nil || !pk.IsEqual(pub) {
				return fmt.Sprintf("true %d CODE-DOES-NOT-RECOVER-THE-KEY", code)
			}
			return fmt.Sprintf("true %d", code)
		})
	}
	opImpl["export"] = func(a []string) string {
		v, _ := strconv.Atoi(a[2])
		sig := secp.NewSignatureWithRecoveryCode(scalarFromHex(a[0]), scalarFromHex(a[1]), byte(v))
		if m := sigObjectStable(secp.NewSignatureWithRecoveryCode(scalarFromHex(a[0]), scalarFromHex(a[1]), byte(v)), bytesRepeat(0x5a, 32)); m != "" {
			return m
		}
		r, s, c := sig.Export()
		if m := sigObjectStable(sig, bytesRepeat(0x5a, 32)); m != "" {
			return m
		}
		return hx(be32(r)) + " " + hx(be32(s)) + " " + strconv.Itoa(int(c))
	}
	opImpl["export_compact"] = func(a []string) string {
		v, _ := strconv.Atoi(a[2])
		off, _ := strconv.Atoi(a[4])
		sig := secp.NewSignatureWithRecoveryCode(scalarFromHex(a[0]), scalarFromHex(a[1]), byte(v))
		if m := sigObjectStable(secp.NewSignatureWithRecoveryCode(scalarFromHex(a[0]), scalarFromHex(a[1]), byte(v)), bytesRepeat(0x5a, 32)); m != "" {
			return m
		}
		out := hx(sig.ExportCompact(a[3] == "1", byte(off)))
		if m := sigObjectStable(sig, bytesRepeat(0x5a, 32)); m != "" {
			return m
		}
		return out
	}
	opImpl["parse_compact"] = func(a []string) string {
		b := unhx(a[0])
		return withArgsCheck([][]byte{b}, func() string {
			sig, comp, err := secp.ParseCompactSignature(b)
			if err != nil {
				return "err " + errKind(err) + " " + strconv.FormatBool(comp)
			}
			return "ok " + sigRSV(sig, true) + " " + strconv.FormatBool(comp)
		})
	}
	opImpl["recover_compact"] = func(a []string) string {
		b, hash := unhx(a[0]), unhx(a[1])
		return withArgsCheck([][]byte{b, hash}, func() string {
			pk, comp, err := secp.RecoverCompact(b, hash)
			if err != nil {
				return "err " + errKind(err)
			}
			return "ok " + pubXY(pk) + " " + strconv.FormatBool(comp)
		})
	}
	generators["C01"] = genC01
	generators["C02"] = genC02
	generators["C07"] = genC07
}

func (h *H) randHash() []byte {
	switch h.rng.Intn(8) {
	case 0:
		return make([]byte, 32)
	case 1:
		return bytesRepeat(0xff, 32)
	case 2: // e >= N
		v := new(big.Int).Add(curveN, big.NewInt(int64(h.rng.Intn(1000))))
		return be32(v)
	case 3:
		return h.randBytes(h.rng.Intn(71))
	default:
		return h.randBytes(32)
	}
}

func (h *H) randKeyInt() *big.Int {
	switch h.rng.Intn(6) {
	case 0:
		return big.NewInt(1)
	case 1:
		return new(big.Int).Sub(curveN, big.NewInt(1))
	case 2:
		return big.NewInt(int64(2 + h.rng.Intn(1000)))
	default:
		for {
			v := new(big.Int).SetBytes(h.randBytes(32))
			v.Mod(v, curveN)
			if v.Sign() != 0 {
				return v
			}
		}
	}
}

func genC01(h *H) {
	// every hash length 0..70
	d := h.randKeyInt()
	for l := 0; l <= 70; l += 1 + 2*(1-minInt(h.budget-1, 1)) {
		h.do("hash-len", "sign", hx(be32(d)), hx(h.randBytes(l)))
	}
	// digests with leading zero bytes, shorter and LONGER than 32 bytes (SHA-384/512 sized): only the first 32 bytes
	// count, wherever the zeros are - through every front end the sign op drives (Sign, SignCompact, PrivateKey.Sign)
	for _, c := range [][2]int{{48, 1}, {64, 1}, {64, 2}, {64, 31}, {64, 32}, {64, 33}, {33, 1}, {40, 8}, {70, 16}, {32, 1}, {32, 31}, {20, 3}} {
		hs := append(make([]byte, c[1]), h.randBytes(c[0]-c[1])...)
		h.do("hash-leading-zeros", "sign", hx(be32(d)), hx(hs))
	}
	n := 12 * h.budget
	for i := 0; i < n; i++ {
		h.do("random", "sign", hx(be32(h.randKeyInt())), hx(h.randHash()))
	}
	for _, dd := range []*big.Int{big.NewInt(1), new(big.Int).Sub(curveN, big.NewInt(1))} {
		for _, hs := range [][]byte{make([]byte, 32), bytesRepeat(0xff, 32), be32(curveN), be32(new(big.Int).Sub(curveN, big.NewInt(1))), {}} {
			h.do("corner", "sign", hx(be32(dd)), hx(hs))
		}
	}
	// forced nonces through the hook: s = 0 (e = -r d), ordinary, nonce with x >= N is not constructible here
	for i := 0; i < 6*h.budget; i++ {
		dd, k := h.randKeyInt(), h.randKeyInt()
		hash := h.randHash()
		h.do("forced-nonce", "sign_nonce", hx(be32(dd)), hx(be32(k)), hx(hash))
		// choose hash so that s = 0: e = -r*d mod N
		sig, ok := secp.VerifSign(scalarFromHex(hx(be32(dd))), scalarFromHex(hx(be32(k))), hash)
		if ok {
			r := sig.R()
			rb := r.Bytes()
			ri := new(big.Int).SetBytes(rb[:])
			e := new(big.Int).Mul(ri, dd)
			e.Neg(e).Mod(e, curveN)
			h.do("forced-s-zero", "sign_nonce", hx(be32(dd)), hx(be32(k)), hx(be32(e)))
		}
	}
	h.do("forced-k-one", "sign_nonce", hx(be32(big.NewInt(7))), hx(be32(big.NewInt(1))), hx(h.randBytes(32)))
}

func minInt(a, b int) int {
	if a < b {
		return a
	}
	return b
}

// highXSig constructs (Q, r, s, hash) whose verification point has x >= N, by key recovery:
// pick x in [N, P) on the curve, r = x - N, any s and e, Q = r^-1 (sR - eG).
func (h *H) highXSig() (qx, qy, r, s string, hash []byte, ok bool) {
	pmn := new(big.Int).Sub(curveP, curveN)
	h.hxCount++
	mode := 2
	if h.hxCount%6 < 2 {
		mode = h.hxCount % 6
	}
	pj, style := uint(0), 0
	if mode == 2 {
		pj, style = uint(h.hxLimb%5), (h.hxLimb/5)%2
		h.hxLimb++
	}
	limbOf := func(v *big.Int, j uint) int64 {
		return new(big.Int).And(new(big.Int).Rsh(v, 26*j), big.NewInt(1<<26-1)).Int64()
	}
	for tries := 0; tries < 400; tries++ {
		off := new(big.Int).SetBytes(h.randBytes(15))
		if mode == 1 {
			// r just below p-n: p-n-2^k+delta, exercising every limb of the r < p-n comparison
			k := uint(1 + h.rng.Intn(126))
			off = new(big.Int).Sub(pmn, new(big.Int).Lsh(big.NewInt(1), k))
			off.Add(off, new(big.Int).SetBytes(h.randBytes(int(k/8)+1)).Rsh(new(big.Int).SetBytes(h.randBytes(int(k/8)+1)), 9))
			if off.Sign() <= 0 || off.Cmp(pmn) >= 0 {
				continue
			}
		}
		if mode == 2 {
			// r = p-n with ONE 26-bit limb (pj, walked round-robin) lowered and every lower limb raised above the
			// corresponding limb of p-n (style 0: maximal, style 1: by a little): r < p-n, yet a limb-wise comparison
			// that drops, repeats or mis-orders a limb sees it as >= p-n
			j := pj
			limb := limbOf(pmn, j)
			if limb == 0 {
				j = 4
				limb = limbOf(pmn, j)
			}
			nl := limb - 1 - int64(h.rng.Intn(3))
			if nl < 0 {
				nl = 0
			}
			off = new(big.Int).Rsh(pmn, 26*(j+1))
			off.Lsh(off, 26).Or(off, big.NewInt(nl)).Lsh(off, 26*j)
			for i := uint(0); i < j; i++ {
				w := int64(1<<26 - 1)
				if style == 1 {
					w = limbOf(pmn, i) + 1 + int64(h.rng.Intn(4))
					if w > 1<<26-1 {
						w = 1<<26 - 1
					}
				}
				off.Or(off, new(big.Int).Lsh(big.NewInt(w), 26*i))
			}
			if off.Sign() <= 0 || off.Cmp(pmn) >= 0 {
				continue
			}
		}
		x := new(big.Int).Add(curveN, off)
		if x.Cmp(curveP) >= 0 {
			continue
		}
		ri := new(big.Int).Sub(x, curveN)
		if ri.Sign() == 0 {
			continue
		}
		// the key is built WITHOUT the routines under test (no RecoverPublicKey, no r < p-n comparison):
		// R = (x, sqrt(x^3+7)) by math/big, Q = (-e/r)*G + (s/r)*R by the scalar multiplication routines
		y2 := new(big.Int).Exp(x, big.NewInt(3), curveP)
		y2.Add(y2, big.NewInt(7)).Mod(y2, curveP)
		y := new(big.Int).ModSqrt(y2, curveP)
		if y == nil {
			continue
		}
		if h.rng.Intn(2) == 0 {
			y.Sub(curveP, y)
		}
		hash = h.randBytes(32)
		si := h.randKeyInt()
		e := new(big.Int).Mod(new(big.Int).SetBytes(hash), curveN)
		rinv := new(big.Int).ModInverse(ri, curveN)
		u1 := new(big.Int).Mul(e, rinv)
		u1.Neg(u1).Mod(u1, curveN)
		u2 := new(big.Int).Mul(si, rinv)
		u2.Mod(u2, curveN)
		var R, p1, p2, q secp.JacobianPoint
		R = secp.MakeJacobianPoint(fvFromHex(hx(be32(x))), fvFromHex(hx(be32(y))), fvFromHex("01"))
		secp.ScalarBaseMultNonConst(scalarFromHex(hx(be32(u1))), &p1)
		secp.ScalarMultNonConst(scalarFromHex(hx(be32(u2))), &R, &p2)
		secp.AddNonConst(&p1, &p2, &q)
		if (q.X.IsZero() && q.Y.IsZero()) || q.Z.IsZero() {
			continue
		}
		q.ToAffine()
		u := secp.NewPublicKey(&q.X, &q.Y).SerializeUncompressed()
		return hx(u[1:33]), hx(u[33:65]), hx(be32(ri)), hx(be32(si)), hash, true
	}
	return "", "", "", "", nil, false
}

func genC02(h *H) {
	n := 10 * h.budget
	for i := 0; i < n; i++ {
		d := h.randKeyInt()
		key := secp.NewPrivateKey(scalarFromHex(hx(be32(d))))
		hash := h.randHash()
		sig := secp.Sign(key, hash)
		u := key.PubKey().SerializeUncompressed()
		qx, qy := hx(u[1:33]), hx(u[33:65])
		r, s := sig.R(), sig.S()
		rs, ss := scalarHex(&r), scalarHex(&s)
		h.do("valid", "verify", hx(hash), qx, qy, rs, ss)
		// n - s
		sb := s.Bytes()
		ns := new(big.Int).Sub(curveN, new(big.Int).SetBytes(sb[:]))
		h.do("neg-s", "verify", hx(hash), qx, qy, rs, hx(be32(ns)))
		// single-bit mutations
		for _, which := range []int{0, 1, 2, 3, 4} {
			args := [][]byte{append([]byte{}, hash...), unhx(qx), unhx(qy), unhx(rs), unhx(ss)}
			if len(args[which]) == 0 {
				continue
			}
			args[which][h.rng.Intn(len(args[which]))] ^= 1 << uint(h.rng.Intn(8))
			if which == 1 || which == 2 {
				continue // an off-curve key is outside the property's domain (Q on the curve)
			}
			h.do("bitflip", "verify", hx(args[0]), hx(args[1]), hx(args[2]), hx(args[3]), hx(args[4]))
		}
		// boundary r, s
		for _, bv := range []*big.Int{big.NewInt(0), big.NewInt(1), new(big.Int).Sub(curveN, big.NewInt(1))} {
			h.do("boundary", "verify", hx(hash), qx, qy, hx(be32(bv)), ss)
			h.do("boundary", "verify", hx(hash), qx, qy, rs, hx(be32(bv)))
		}
		// wrong key, random forgery
		x2, y2 := h.randPoint()
		h.do("wrong-key", "verify", hx(hash), hx(x2), hx(y2), rs, ss)
		h.do("forgery", "verify", hx(h.randBytes(32)), qx, qy, hx(be32(h.randKeyInt())), hx(be32(h.randKeyInt())))
		// u1*G + u2*Q = identity: choose e = -r*d (any s)
		rb := r.Bytes()
		e := new(big.Int).Mul(new(big.Int).SetBytes(rb[:]), d)
		e.Neg(e).Mod(e, curveN)
		h.do("identity-point", "verify", hx(be32(e)), qx, qy, rs, ss)
	}
	// nonce x >= N constructed by key recovery; plus its near misses (r+1, guard boundary)
	for i := 0; i < 18*h.budget; i++ {
		qx, qy, r, s, hash, ok := h.highXSig()
		if !ok {
			continue
		}
		h.do("high-x", "verify", hx(hash), qx, qy, r, s)
		ri := new(big.Int).SetBytes(unhx(r))
		h.do("high-x-miss", "verify", hx(hash), qx, qy, hx(be32(new(big.Int).Add(ri, big.NewInt(1)))), s)
		ns := new(big.Int).Sub(curveN, new(big.Int).SetBytes(unhx(s)))
		h.do("high-x-neg-s", "verify", hx(hash), qx, qy, r, hx(be32(ns)))
	}
	// r at the p-n guard with a random key (rejects, but exercises both sides of the guard)
	pmn := new(big.Int).Sub(curveP, curveN)
	x2, y2 := h.randPoint()
	for _, dlt := range []int64{-1, 0, 1} {
		h.do("guard-boundary", "verify", hx(h.randBytes(32)), hx(x2), hx(y2), hx(be32(new(big.Int).Add(pmn, big.NewInt(dlt)))), hx(be32(h.randKeyInt())))
	}
}

func genC07(h *H) {
	n := 8 * h.budget
	for i := 0; i < n; i++ {
		d := h.randKeyInt()
		key := secp.NewPrivateKey(scalarFromHex(hx(be32(d))))
		hash := h.randHash()
		sig := secp.Sign(key, hash)
		r, s := sig.R(), sig.S()
		rs, ss := scalarHex(&r), scalarHex(&s)
		v := int(sig.RecoveryCode())
		h.do("produced", "recover", hx(hash), rs, ss, strconv.Itoa(v))
		{
			pk := key.PubKey().SerializeUncompressed()
			h.do("bruteforce", "bruteforce", hx(hash), hx(pk[1:33]), hx(pk[33:65]), rs, ss)
			other := secp.NewPrivateKey(scalarFromHex(hx(be32(h.randKeyInt())))).PubKey().SerializeUncompressed()
			h.do("bruteforce-wrong-key", "bruteforce", hx(hash), hx(other[1:33]), hx(other[33:65]), rs, ss)
		}
		// all four codes on a produced signature
		for c := 0; c < 4; c++ {
			h.do("all-codes", "recover", hx(hash), rs, ss, strconv.Itoa(c))
		}
		// the high-s twin with its matching (flipped) code, and its exports
		sb := s.Bytes()
		ns := hx(be32(new(big.Int).Sub(curveN, new(big.Int).SetBytes(sb[:]))))
		h.do("high-s", "recover", hx(hash), rs, ns, strconv.Itoa(v^1))
		h.do("high-s-export", "export", rs, ns, strconv.Itoa(v^1))
		for _, first := range []string{"1", "0"} {
			for _, off := range []int{27, 31, 0} {
				h.do("export-compact", "export_compact", rs, ns, strconv.Itoa(v^1), first, strconv.Itoa(off))
				h.do("export-compact", "export_compact", rs, ss, strconv.Itoa(v), first, strconv.Itoa(off))
			}
		}
		// exported compact forms must recover the signer: recover_compact on the exported bytes
		hs := secp.NewSignatureWithRecoveryCode(scalarFromHex(rs), scalarFromHex(ns), byte(v^1))
		h.do("export-recover", "recover_compact", hx(hs.ExportCompact(true, 27)), hx(hash))
		h.do("export-recover", "recover_compact", hx(sig.ExportCompact(true, 31)), hx(hash))
		c1 := secp.SignCompact(key, hash, i%2 == 0)
		h.do("sign-compact", "recover_compact", hx(c1), hx(hash))
		h.do("parse-compact", "parse_compact", hx(c1))
		// headers 0..255 on a valid body (thorough: all; quick: every 5th + the valid range)
		for hd := 0; hd < 256; hd++ {
			if h.budget == 1 && hd%5 != 0 && (hd < 25 || hd > 36) {
				continue
			}
			m := append([]byte{byte(hd)}, c1[1:]...)
			h.do("header", "parse_compact", hx(m))
		}
		// Export / ExportCompact for every code 0..3 on both the low and the high s (codes 2, 3 carry the overflow bit)
		for c := 0; c < 4; c++ {
			for _, sv := range []string{ss, ns} {
				h.do("export-all-codes", "export", rs, sv, strconv.Itoa(c))
				h.do("export-all-codes", "export_compact", rs, sv, strconv.Itoa(c), "1", "27")
				h.do("export-all-codes", "export_compact", rs, sv, strconv.Itoa(c), "0", "0")
			}
		}
		// random (r, s, v, hash)
		for c := 0; c < 4; c++ {
			h.do("random-rsv", "recover", hx(h.randHash()), hx(be32(h.randKeyInt())), hx(be32(h.randKeyInt())), strconv.Itoa(c))
		}
	}
	// r around p-n with the overflow bit; x not on curve; r,s boundary in compact parse
	pmn := new(big.Int).Sub(curveP, curveN)
	for _, dlt := range []int64{-2, -1, 0, 1} {
		for c := 0; c < 4; c++ {
			h.do("overflow-boundary", "recover", hx(h.randBytes(32)), hx(be32(new(big.Int).Add(pmn, big.NewInt(dlt)))), hx(be32(h.randKeyInt())), strconv.Itoa(c))
		}
	}
	for i := 0; i < 16*h.budget; i++ {
		qx, qy, r, s, hash, ok := h.highXSig()
		if ok {
			nsv := hx(be32(new(big.Int).Sub(curveN, new(big.Int).SetBytes(unhx(s)))))
			// the signer's key is only reachable with an overflow code (2 or 3): the trial of all four must find it
			h.do("bruteforce-overflow", "bruteforce", hx(hash), qx, qy, r, s)
			h.do("bruteforce-overflow", "bruteforce", hx(hash), qx, qy, r, nsv)
			for c := 0; c < 4; c++ {
				h.do("overflow-bit", "recover", hx(hash), r, s, strconv.Itoa(c))
				if i >= 4*h.budget {
					continue // the remaining rounds only walk the limb patterns of r near p-n
				}
				// the exported forms of the high-s twin must recover the same key as the object
				for _, sv := range []string{s, nsv} {
					sig := secp.NewSignatureWithRecoveryCode(scalarFromHex(r), scalarFromHex(sv), byte(c))
					h.do("overflow-bit-export", "recover_compact", hx(sig.ExportCompact(true, 27)), hx(hash))
					h.do("overflow-bit-export", "recover", hx(hash), r, sv, strconv.Itoa(c))
				}
			}
		}
		h.do("x-not-on-curve", "recover", hx(h.randBytes(32)), hx(h.nonResidueX()), hx(be32(h.randKeyInt())), "0")
	}
	for _, l := range []int{0, 1, 64, 65, 66} {
		b := h.randBytes(l)
		if l > 0 {
			b[0] = 27
		}
		h.do("compact-len", "parse_compact", hx(b))
	}
	for _, bv := range []*big.Int{big.NewInt(0), curveN, new(big.Int).Sub(curveN, big.NewInt(1)), new(big.Int).Lsh(big.NewInt(1), 255)} {
		b := append([]byte{28}, append(be32(bv), be32(big.NewInt(5))...)...)
		h.do("compact-boundary", "parse_compact", hx(b))
		b = append([]byte{32}, append(be32(big.NewInt(5)), be32(bv)...)...)
		h.do("compact-boundary", "parse_compact", hx(b))
	}
}
