#!/bin/bash
# run_matrix.sh [slots] (TARGET_ONLY=1: only the check of the targeted property): every seeded change against the check of the property it targets (and the neighbouring checks
# recorded in its meta.json), in staging copies, <slots> at a time; results go to seeded/*/meta.json
cd "$(dirname "$0")/.."
SLOTS=${1:-4}
python3 - <<'PY' > /tmp/matrix_jobs.txt
import json, glob, os
for mp in sorted(glob.glob('seeded/*/meta.json')):
    m = json.load(open(mp))
    if os.environ.get('ROUNDS') and str(m.get('round', 1)) not in os.environ['ROUNDS'].split(','):
        continue
    name = os.path.basename(os.path.dirname(mp))
    checks = [m['property']] + ([] if os.environ.get('TARGET_ONLY') else [c for c in sorted(m.get('checks', {})) if c != m['property']])
    print(name, ' '.join(checks))
PY
i=0
while read -r name checks; do
  slot=$(( i % SLOTS + 1 )); i=$(( i + 1 ))
  echo "$slot $name $checks"
done < /tmp/matrix_jobs.txt > /tmp/matrix_assign.txt
for s in $(seq 1 $SLOTS); do
  ( grep "^$s " /tmp/matrix_assign.txt | while read -r slot name checks; do
      python3 tools/stage_seeded.py m$slot $name $checks 2>&1 | grep "^$name " ; done ) &
done
wait
echo MATRIX-DONE
