import Secp.Spec.Rfc6979
import Secp.Model.Der
/-
  Model/Nonce — nonce.go: the resettable `hmacsha256` object and `NonceRFC6979`, mirrored
  statement by statement.  SHA-256 is `Secp.Spec.sha256` (executable, diffed against crypto/sha256).
  A hash.Hash is modelled by the bytes written since its last Reset.
-/
namespace Secp.Model
open Secp.Spec

structure HmacObj where
  inner : Bytes
  outer : Bytes
  ipad : Bytes     -- 64 bytes
  opad : Bytes
  deriving Repr

def zeros (n : Nat) : Bytes := List.replicate n 0

/-- Go `copy(dst, src)` on a dst of fixed length: overwrite a prefix -/
def copyInto (dst src : Bytes) : Bytes := src.take dst.length ++ dst.drop (min src.length dst.length)

/-- `(h *hmacsha256) initKey(key)` -/
def HmacObj.initKey (h : HmacObj) (key : Bytes) : HmacObj :=
  let (key, outer) := if key.length > 64 then (sha256 (h.outer ++ key), h.outer ++ key) else (key, h.outer)
  let ipad := (copyInto h.ipad key).map (· ^^^ 0x36)
  let opad := (copyInto h.opad key).map (· ^^^ 0x5c)
  { inner := h.inner ++ ipad, outer := outer, ipad := ipad, opad := opad }

/-- `newHMACSHA256(key)` -/
def hmacNew (key : Bytes) : HmacObj :=
  HmacObj.initKey { inner := [], outer := [], ipad := zeros 64, opad := zeros 64 } key

def HmacObj.write (h : HmacObj) (p : Bytes) : HmacObj := { h with inner := h.inner ++ p }

/-- `ResetKey(key)` -/
def HmacObj.resetKey (_h : HmacObj) (key : Bytes) : HmacObj :=
  HmacObj.initKey { inner := [], outer := [], ipad := zeros 64, opad := zeros 64 } key

/-- `Reset()` -/
def HmacObj.reset (h : HmacObj) : HmacObj := { h with inner := h.ipad }

/-- `Sum()` : outer.Reset(); outer.Write(opad); outer.Write(inner.Sum(nil)); outer.Sum(nil) -/
def HmacObj.sum (h : HmacObj) : Bytes × HmacObj :=
  let outer := h.opad ++ sha256 h.inner
  (sha256 outer, { h with outer := outer })

/-- the key buffer assembly of `NonceRFC6979` -/
def nonceKeyBuf (privKey hash extra version : Bytes) : Bytes :=
  let privKey := privKey.take 32
  let hash := hash.take 32
  let buf := zeros (32 - privKey.length) ++ privKey ++ zeros (32 - hash.length) ++ hash
  if extra.length = 32 then
    if version.length = 16 then buf ++ extra ++ version else buf ++ extra
  else if version.length = 16 then buf ++ zeros 32 ++ version
  else buf

/-- the generation loop; `fuel` bounds the number of candidates examined -/
def nonceLoop : Nat → HmacObj → Bytes → Nat → Nat → Option Nat
  | 0, _, _, _, _ => none
  | fuel+1, hasher, v, generated, extraIterations =>
    let hasher := (hasher.reset).write v
    let (v, hasher) := hasher.sum
    let (secret, overflow) := scalarSetByteSlice v
    let ok := !overflow && secret != 0
    let generated := if ok then generated + 1 else generated
    if ok && generated > extraIterations then some secret else
    let hasher := ((hasher.reset).write v).write [0x00]
    let (k, hasher) := hasher.sum
    let hasher := (hasher.resetKey k).write v
    let (v, hasher) := hasher.sum
    nonceLoop fuel hasher v generated extraIterations

/-- `NonceRFC6979(privKey, hash, extra, version, extraIterations)` -/
def nonceM (fuel : Nat) (privKey hash extra version : Bytes) (extraIterations : Nat) : Option Nat :=
  let key := nonceKeyBuf privKey hash extra version
  let v := List.replicate 32 (0x01 : UInt8)
  let k := zeros 32
  let hasher := hmacNew k
  let hasher := ((hasher.write v).write [0x00]).write key
  let (k, hasher) := hasher.sum
  let hasher := (hasher.resetKey k).write v
  let (v, hasher) := hasher.sum
  let hasher := (((hasher.reset).write v).write [0x01]).write key
  let (k, hasher) := hasher.sum
  let hasher := (hasher.resetKey k).write v
  let (v, hasher) := hasher.sum
  nonceLoop fuel hasher v 0 extraIterations

/-- Schnorr's scheme tag (schnorr/signature.go rfc6979ExtraDataV0) -/
def rfc6979ExtraDataV0 : Bytes := [
  0x0b, 0x75, 0xf9, 0x7b, 0x60, 0xe8, 0xa5, 0x76, 0x28, 0x76, 0xc0, 0x04, 0x82, 0x9e, 0xe9, 0xb9,
  0x26, 0xfa, 0x6f, 0x0d, 0x2e, 0xea, 0xec, 0x3a, 0x4f, 0xd1, 0x44, 0x6a, 0x76, 0x83, 0x31, 0xcb]

end Secp.Model
