import Secp.Proofs.BytesProg
import Secp.Model.PubKey
/-
  Proofs/BytesProgPub — the machine-generated public-key parser `Secp.Gen.BytesProg.parsePubKey`
  (regenerated from pubkey.go `ParsePubKey` by tools/gotr) is the same function as the hand-written
  model `Secp.Model.parsePubKey`, so the acceptance-iff-valid-SEC1 theorems of `Proofs/PubKey.lean`
  are theorems about the regenerated text.

  Same method as `Proofs/BytesProg.lean` (DER parser): both sides are peeled in lock step, one Go
  statement at a time.  Reused from there: `ite_congr_iff` (one check), `bind_congr_ok` (one
  `let t ← x`).  New here:

  * `ite_congr_both`        an arm of the length `switch` (neither branch is a constant error)
  * `unit_bind_ite/pure/err` a fall-through block `let _ ← (if … then (do …; pure ()) else pure ())`:
                            the continuation is pushed into the block, whatever its shape
  * `guarded_check_congr`   the resulting `if c then (if d then err else K) else K` against the
                            model's single check `if c ∧ d then err else K`
  * `cond_iff'`             Boolean spellings: `!(a == 4 || a == 6 || a == 7)` / `a ≠ 4 ∧ a ≠ 6 ∧ a ≠ 7`,
                            `(n == 65) = true` / `n = 65`, `(!b) = true` / `¬ b = true`, …
  * `match decompressY … with | none | some` : the scrutinee is generalised (this only abstracts
                            both sides when they call `decompressY` on the same arguments) and split

  All `refine`s unify `with_reducible`, so a step that does not fit fails immediately instead of
  unfolding `decompressY` / `fieldSetBytes32`; `let`/`have` bindings (temporaries, `format := t1`,
  `wantOddY := …`, tuple patterns) are removed by `dsimp only` before peeling, which makes the
  script independent of how temporaries are numbered or of extra constant/alias bindings.
-/
namespace Secp.Proofs.BytesProgPub
open Secp.Spec Secp.Model Secp.Proofs.BytesProg

/-- a two-way branch (Go `switch` arm): equivalent conditions, each arm compared under its condition -/
theorem ite_congr_both {α : Sort _} {c c' : Prop} [Decidable c] [Decidable c'] {a a' b b' : α}
    (hc : c ↔ c') (ha : c' → a = a') (hb : ¬ c' → b = b') :
    (if c then a else b) = (if c' then a' else b') := by
  by_cases h : c'
  · rw [if_pos h, if_pos (hc.mpr h)]; exact ha h
  · rw [if_neg h, if_neg (fun hh => h (hc.mp hh))]; exact hb h

/-- a check nested in a guard (`if c { if d { return err } }` after the continuation has been
    pushed into the block) against the model's single check `if c ∧ d then err` -/
theorem guarded_check_congr {α : Sort _} {c d p : Prop} [Decidable c] [Decidable d] [Decidable p]
    {e e' a a' b : α}
    (h : (c ∧ d) ↔ p) (he : e = e') (ha : ¬ p → a = b) (ha' : ¬ p → a' = b) :
    (if c then (if d then e else a) else a') = (if p then e' else b) := by
  by_cases hp : p
  · rw [if_pos hp, if_pos (h.mpr hp).1, if_pos (h.mpr hp).2]; exact he
  · rw [if_neg hp]
    by_cases hc : c
    · have hd : ¬ d := fun hd => hp (h.mp ⟨hc, hd⟩)
      rw [if_pos hc, if_neg hd]; exact ha hp
    · rw [if_neg hc]; exact ha' hp

/-! statement blocks of type `Outcome ε Unit`: the continuation is pushed into the block -/
theorem unit_bind_ite {ε β : Type} {c : Prop} [Decidable c] (A B : Outcome ε Unit)
    (K : Unit → Outcome ε β) :
    ((if c then A else B) >>= K) = (if c then A >>= K else B >>= K) := by
  by_cases h : c
  · simp only [if_pos h]
  · simp only [if_neg h]

theorem unit_bind_pure {ε β : Type} (K : Unit → Outcome ε β) :
    ((pure () : Outcome ε Unit) >>= K) = K () := rfl

theorem unit_bind_err {ε β : Type} (e : ε) (K : Unit → Outcome ε β) :
    ((.err e : Outcome ε Unit) >>= K) = .err e := rfl

/-- equivalence of the two spellings of one condition -/
macro "cond_iff'" : tactic =>
  `(tactic| first
    | with_reducible exact Iff.rfl
    | (simp only [decide_eq_true_eq, bne_iff_ne, beq_iff_eq, ne_eq, gt_iff_lt, ge_iff_le]; done)
    | (simp only [Bool.not_eq_true', Bool.not_eq_true, Bool.or_eq_true, Bool.or_eq_false_iff,
         beq_iff_eq, beq_eq_false_iff_ne, bne_iff_ne, ne_eq, not_or, decide_eq_true_eq,
         and_assoc, or_assoc]; done)
    | (simp [and_assoc, or_assoc]; done))

/-- peel one statement from both sides -/
macro "peel_pub" : tactic =>
  `(tactic| first
    | with_reducible rfl
    | (with_reducible refine ite_congr_iff ?_ ?_ (fun _ => ?_)
       · cond_iff'
       · with_reducible rfl)
    | (with_reducible refine guarded_check_congr ?_ ?_ (fun _ => ?_) (fun _ => ?_)
       · cond_iff'
       · with_reducible rfl)
    | (with_reducible refine ite_congr_both ?_ (fun _ => ?_) (fun _ => ?_)
       · cond_iff')
    | (simp only [unit_bind_ite, unit_bind_pure, unit_bind_err])
    | (with_reducible refine bind_congr_ok (fun _ hx => ?_)
       try simp only [hx])
    | (generalize fieldSetBytes32 _ = p; obtain ⟨_, _⟩ := p; dsimp only)
    | (generalize decompressY _ _ = o; cases o <;> dsimp only)
    | (focus (simp only [Outcome.bind_ok, Outcome.bind_err, Outcome.pure_eq]; done)))

/-- the regenerated public-key parser and the hand-written model are the same function -/
theorem parsePubKey_gen_eq_model (ser : Secp.Spec.Bytes) :
    Secp.Gen.BytesProg.parsePubKey ser = Secp.Model.parsePubKey ser := by
  unfold Secp.Gen.BytesProg.parsePubKey Secp.Model.parsePubKey
  try dsimp only
  repeat peel_pub

end Secp.Proofs.BytesProgPub
