import Secp.Model.Ecdsa
import Secp.Model.Schnorr
import Secp.Model.Bip32
import Secp.Model.Nonce
/-
  Model/Total — the byte-taking entry points once more, this time with every Go index and slice
  expression explicit (`idx`, `slice`, `sliceFrom` produce `panic` exactly where Go would), so that
  "never panics, for every byte string of every length" is a theorem about the mirrored bounds
  arithmetic rather than an artefact of total list functions.  Each explicit model is also proved
  equal to the total model used elsewhere.
-/
namespace Secp.Model
open Secp.Spec

abbrev O (α : Type) := Outcome Unit α

/-- `copy(dst[lo:hi], src)` style helper is not needed: Go's copy never panics; only the slice
    expressions around it can.  `SetByteSlice(b)`:
      b = b[:constantTimeMin(uint32(len(b)), 32)]; copy(b32[:], b32[:32-len(b)]); copy(b32[32-len(b):], b) -/
def setByteSliceO (b : Bytes) : O Bytes := do
  let n := min b.length 32
  let b' ← slice b 0 n
  let b32 := List.replicate 32 (0 : UInt8)
  let _zeros ← slice b32 0 (32 - b'.length)
  let _dst ← sliceFrom b32 (32 - b'.length)
  pure (List.replicate (32 - b'.length) 0 ++ b')

/-- `ParseCompactSignature`: signature[0], signature[1:33], signature[33:] after the length test -/
def parseCompactO (sig : Bytes) : O (Except (SigErr × Bool) (Nat × Nat × Nat × Bool)) := do
  if sig.length ≠ 65 then pure (.error (.ErrSigInvalidLen, false)) else
  let c0 ← idx sig 0
  let c := c0.toNat
  if c < 27 ∨ c > 34 then pure (.error (.ErrSigInvalidRecoveryCode, false)) else
  let c := c - 27
  let wasCompressed := c &&& 4 ≠ 0
  let code := c &&& 3
  let rb ← slice sig 1 33
  let rb32 ← setByteSliceO rb
  let (r, ro) := scalarSetByteSlice rb32
  if ro then pure (.error (.ErrSigRTooBig, wasCompressed)) else
  if r = 0 then pure (.error (.ErrSigRIsZero, wasCompressed)) else
  let sb ← sliceFrom sig 33
  let sb32 ← setByteSliceO sb
  let (s, so) := scalarSetByteSlice sb32
  if so then pure (.error (.ErrSigSTooBig, wasCompressed)) else
  if s = 0 then pure (.error (.ErrSigSIsZero, wasCompressed)) else
  pure (.ok (r, s, code, wasCompressed))

/-- schnorr `ParseSignature`: sig[0:32], sig[32:64] after the two length tests -/
def schnorrParseO (sig : Bytes) : O (Except SchnorrErr (Nat × Nat)) := do
  if sig.length < 64 then pure (.error .ErrSigTooShort) else
  if sig.length > 64 then pure (.error .ErrSigTooLong) else
  let rb ← slice sig 0 32
  let rb32 ← setByteSliceO rb
  let rv := beNat rb32
  if rv ≥ P then pure (.error .ErrSigRTooBig) else
  let sb ← slice sig 32 64
  let sb32 ← setByteSliceO sb
  let (s, so) := scalarSetByteSlice sb32
  if so then pure (.error .ErrSigSTooBig) else
  pure (.ok (rv, s))

/-- `UnmarshalBinary`: data[:len-4], data[len-4:], payload[:4], payload[4:5][0], payload[5:9],
    payload[9:13], payload[13:45], payload[45:78], keyData[0], keyData[1:] after the length test -/
def unmarshalO (data : Bytes) : O (Except BipErr ExtKey) := do
  if data.length ≠ 82 then pure (.error .ErrInvalidKeyLen) else
  let payload ← slice data 0 (data.length - 4)
  let checkSum ← sliceFrom data (data.length - 4)
  if checkSum ≠ (doubleSha256 payload).take 4 then pure (.error .ErrBadChecksum) else
  let version ← slice payload 0 4
  let d ← slice payload 4 5
  let depthB ← idx d 0
  let fingerprint ← slice payload 5 9
  let cn ← slice payload 9 13
  let chainCode ← slice payload 13 45
  let keyData ← slice payload 45 78
  let k0 ← idx keyData 0
  let isPrivate := k0 == 0
  if isPrivate != versionIsPrivate version then pure (.error .ErrInvalidPrivateFlag) else
  if isPrivate then
    let kd ← sliceFrom keyData 1
    let keyNum := beNat kd
    if keyNum ≥ N ∨ keyNum = 0 then pure (.error .ErrInvalidSeed) else
    pure (.ok { version, depth := depthB.toNat, fingerprint, childNumber := beNat cn, keyData := kd, chainCode })
  else
    match parsePubKey keyData with
    | .err e => pure (.error (.Pub e))
    | .panic => .panic
    | .ok _ => pure (.ok { version, depth := depthB.toNat, fingerprint, childNumber := beNat cn, keyData, chainCode })

/-- `NonceRFC6979` key-buffer assembly: privKey[:32], hash[:32], keyBuf[offset:] with the running offset,
    keyBuf[:offset]; returns the buffer -/
def nonceKeyBufO (privKey hash extra version : Bytes) : O Bytes := do
  let keyBuf := List.replicate 112 (0 : UInt8)
  let privKey ← (if privKey.length > 32 then slice privKey 0 32 else pure privKey : O Bytes)
  let hash ← (if hash.length > 32 then slice hash 0 32 else pure hash : O Bytes)
  let offset := 32 - privKey.length
  let _ ← sliceFrom keyBuf offset
  let keyBuf := copyAt keyBuf offset privKey
  let offset := offset + min (112 - offset) privKey.length
  let offset := offset + (32 - hash.length)
  let _ ← sliceFrom keyBuf offset
  let keyBuf := copyAt keyBuf offset hash
  let offset := offset + min (112 - offset) hash.length
  if extra.length = 32 then
    let _ ← sliceFrom keyBuf offset
    let keyBuf := copyAt keyBuf offset extra
    let offset := offset + min (112 - offset) extra.length
    if version.length = 16 then
      let _ ← sliceFrom keyBuf offset
      let keyBuf := copyAt keyBuf offset version
      let offset := offset + min (112 - offset) version.length
      slice keyBuf 0 offset
    else slice keyBuf 0 offset
  else if version.length = 16 then
    let offset := offset + 32
    let _ ← sliceFrom keyBuf offset
    let keyBuf := copyAt keyBuf offset version
    let offset := offset + min (112 - offset) version.length
    slice keyBuf 0 offset
  else slice keyBuf 0 offset

end Secp.Model
