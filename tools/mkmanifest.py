#!/usr/bin/env python3
"""Regenerate /verif/MANIFEST.json from tools/props.py (single source of truth)."""
import json, os, sys
sys.path.insert(0, os.path.dirname(os.path.abspath(__file__)))
from props import PROPS, NOT_APPLICABLE, HOOK_COMMITS
V = os.path.dirname(os.path.dirname(os.path.abspath(__file__)))
checks = []
for pid in sorted(PROPS):
    c = PROPS[pid]
    checks.append({
        "property_id": pid,
        "quick_cmd": "./check %s quick" % pid,
        "thorough_cmd": "./check %s thorough" % pid,
        "evidence_file": "/verif/evidence/%s.json" % pid,
        "replay_cmd_template": "./check %s --replay {path}" % pid,
        "engine": "lean/Secp",
        "level_claimed": {"category": c.get("level", "proof"), "text": c["level_text"], "design_ref": c.get("design_ref", "DESIGN.md §7 " + pid)},
        "level_note": c["level_note"],
        "technique": c.get("technique", "Lean 4 theorems about a model of the code + correspondence run tying the model to the code"),
    })
m = {
    "version": 1,
    "setup_cmd": "./setup.sh",
    "hooks": {
        "guard": "verif",
        "enable": "go build -tags verif (files verif_hooks.go in packages secp256k1, schnorr, ecckd)",
        "baseline_off_cmd": "cd /repo && GOFLAGS=-mod=mod go test -json -vet=off -count=1 -timeout 25m ./...",
        "source_commits": HOOK_COMMITS,
        "add_only": True,
    },
    "engines": [
        {"name": "gotr", "path": "tools/gotr", "serves_properties": ["C05", "C06", "C16", "C18", "C17", "C03"], "kind_free_text": "Go translator/fact extractor: regenerates Lean definitions (IR kernels, constants) from /repo's working tree on every run"},
        {"name": "lean/Secp", "path": "lean", "serves_properties": sorted(PROPS), "kind_free_text": "Lean 4 project: Spec (executable mathematics), Model (mirrors of Go control flow), Gen (regenerated), Proofs, Props (property theorems), Driver (line protocol)"},
        {"name": "harness", "path": "harness", "serves_properties": sorted(PROPS), "kind_free_text": "Go harness (-tags verif, replace => /repo): generates operations, runs the real code, output diffed against the Lean driver"},
    ],
    "checks": checks,
    "not_applicable": [{"property_id": k, "reason": v} for k, v in sorted(NOT_APPLICABLE.items()) if k not in PROPS],
    "notes": "All checks: ./check <id> quick|thorough. A check regenerates lean/Secp/Gen from /repo, rebuilds the property's Lean module (kernel re-checks every theorem), audits axioms, builds the harness against /repo with -tags verif and diffs implementation vs Lean model/spec. See DESIGN.md.",
}
json.dump(m, open(os.path.join(V, "MANIFEST.json"), "w"), indent=1)
print("MANIFEST.json: %d checks, %d not_applicable" % (len(checks), len(m["not_applicable"])))
