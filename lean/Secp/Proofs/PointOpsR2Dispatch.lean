/-
  Proofs/PointOpsR2Dispatch — AddNonConst with result≡p2: which path of the 37 runs, as a
  function of the identity tests and the Z tests.
-/
import Secp.Proofs.PointOpsGlue

set_option linter.unusedSimpArgs false
set_option linter.unusedVariables false
namespace Secp.Proofs.PointOps
open Secp.Spec Secp.Model Secp.FOp Secp.Proofs
open Secp.Gen.FormulasC

macro "disp_r2" : tactic =>
  `(tactic| simp [runPaths, execPathWith, stepF, condF, rget, rset, writeBack, AddNonConst_a011, AddNonConst_a011_p0, AddNonConst_a011_p1, AddNonConst_a011_p2, AddNonConst_a011_p3, AddNonConst_a011_p4, AddNonConst_a011_p5, AddNonConst_a011_p6, AddNonConst_a011_p7, AddNonConst_a011_p8, AddNonConst_a011_p9, AddNonConst_a011_p10, AddNonConst_a011_p11, AddNonConst_a011_p12, AddNonConst_a011_p13, AddNonConst_a011_p14, AddNonConst_a011_p15, AddNonConst_a011_p16, AddNonConst_a011_p17, AddNonConst_a011_p18, AddNonConst_a011_p19, AddNonConst_a011_p20, AddNonConst_a011_p21, AddNonConst_a011_p22, AddNonConst_a011_p23, AddNonConst_a011_p24, AddNonConst_a011_p25, AddNonConst_a011_p26, AddNonConst_a011_p27, AddNonConst_a011_p28, AddNonConst_a011_p29, AddNonConst_a011_p30, AddNonConst_a011_p31, AddNonConst_a011_p32, AddNonConst_a011_p33, AddNonConst_a011_p34, AddNonConst_a011_p35, AddNonConst_a011_p36, *])

/-! ### result ≡ p2 -/

theorem disp_r2_qinf (f X1 Y1 Z1 X2 Y2 Z2 : Nat) (h : isInfJ (X1, Y1, Z1) = true) :
    callE (f + 1) 2 [X1, Y1, Z1, X2, Y2, Z2] = some [X1, Y1, Z1, X2, Y2, Z2] := by
  have h' : (X1 = 0 ∧ Y1 = 0) ∨ Z1 = 0 := by simpa [isInfJ] using h
  rw [callE_succ f 2 _ AddNonConst_a011 rfl]
  by_cases hX1 : X1 = 0 <;> by_cases hY1 : Y1 = 0 <;> by_cases hZ1 : Z1 = 0 <;>
    first
    | (exfalso; tauto)
    | (subst_vars; disp_r2)

theorem disp_r2_pinf (f X1 Y1 Z1 X2 Y2 Z2 : Nat) (hq : isInfJ (X1, Y1, Z1) = false)
    (h : isInfJ (X2, Y2, Z2) = true) :
    callE (f + 1) 2 [X1, Y1, Z1, X2, Y2, Z2] = some [X1, Y1, Z1, X1, Y1, Z1] := by
  have h' : (X2 = 0 ∧ Y2 = 0) ∨ Z2 = 0 := by simpa [isInfJ] using h
  obtain ⟨hq1, hq2⟩ := fin_iff.1 hq
  rw [callE_succ f 2 _ AddNonConst_a011 rfl]
  by_cases hX1 : X1 = 0 <;> by_cases hY1 : Y1 = 0 <;>
  by_cases hX2 : X2 = 0 <;> by_cases hY2 : Y2 = 0 <;> by_cases hZ2 : Z2 = 0 <;>
    first
    | (exfalso; tauto)
    | (subst_vars; disp_r2)

set_option hygiene false in
macro "leaf_r2" : tactic =>
  `(tactic| ((try have hy1 := hY1 hX1); (try have hy2 := hY2 hX2); clear hY1 hY2; subst_vars; disp_r2))

theorem disp_r2_fin (f X1 Y1 Z1 X2 Y2 Z2 k a b c : Nat) (hq : isInfJ (X1, Y1, Z1) = false)
    (hp : isInfJ (X2, Y2, Z2) = false)
    (hsel : (Z1 = 1 ∧ Z2 = 1 ∧ k = 14) ∨ (Z1 ≠ 1 ∧ Z1 = Z2 ∧ k = 17) ∨ (Z1 ≠ 1 ∧ Z2 = 1 ∧ k = 20) ∨
      (Z1 ≠ Z2 ∧ Z2 ≠ 1 ∧ k = 11))
    (hc : callE f k [X1, Y1, Z1, X2, Y2, Z2] = some [X1, Y1, Z1, a, b, c]) :
    callE (f + 1) 2 [X1, Y1, Z1, X2, Y2, Z2] = some [X1, Y1, Z1, a, b, c] := by
  obtain ⟨hq1, hq2⟩ := fin_iff.1 hq
  obtain ⟨hp1, hp2⟩ := fin_iff.1 hp
  have hY1 : X1 = 0 → ¬ Y1 = 0 := fun h h' => hq1 ⟨h, h'⟩
  have hY2 : X2 = 0 → ¬ Y2 = 0 := fun h h' => hp1 ⟨h, h'⟩
  clear hq hp hq1 hp1
  rw [callE_succ f 2 _ AddNonConst_a011 rfl]
  rcases hsel with ⟨h1, h2, h3⟩ | ⟨h1, h2, h3⟩ | ⟨h1, h2, h3⟩ | ⟨h1, h2, h3⟩
  · by_cases hX1 : X1 = 0 <;> by_cases hX2 : X2 = 0 <;> leaf_r2
  · have h4 : Z2 ≠ 1 := fun h => h1 (h2.trans h)
    by_cases hX1 : X1 = 0 <;> by_cases hX2 : X2 = 0 <;> leaf_r2
  · by_cases hX1 : X1 = 0 <;> by_cases hX2 : X2 = 0 <;> leaf_r2
  · have h4 : Z2 ≠ Z1 := fun h => h1 h.symm
    by_cases hX1 : X1 = 0 <;> by_cases hX2 : X2 = 0 <;> by_cases hZ11 : Z1 = 1 <;> leaf_r2

end Secp.Proofs.PointOps
