// gotr — translator and fact extractor from /repo's Go source to Lean.
//
// Passes (see DESIGN.md §2.2):
//
//	T1 kernel : straight-line integer functions → deep-embedded IR (Gen/FieldIR, Gen/ScalarIR)
//	T2 formula: chained FieldVal method calls → FOp programs (Gen/Formulas)
//	T3 consts : named constants and literals → Gen/Consts
//	T5 ct     : functions documented constant time → Gen/CT
//	T6 shared : package-level state and writes → Gen/Shared
//	T7 bytes  : guard-style byte parsers (ParseDERSignature) → executable Lean in the Outcome monad (Gen/BytesProg)
//	T8 drivers: value-level glue functions (sign, Verify, RecoverPublicKey, Schnorr, ECDH …) → executable Lean (Gen/Drivers)
//	T2s slice : field arithmetic of every other function (Verify, sign, parsers, loops …) → Gen/Slices
//
// Every pass fails closed: anything outside its subset is an error (exit 1),
// which ./check reports as a broken tie.
package main

import (
	"flag"
	"fmt"
	"go/ast"
	"go/importer"
	"go/parser"
	"go/token"
	"go/types"
	"os"
	"path/filepath"
	"sort"
	"strings"
)

type Pkg struct {
	fset  *token.FileSet
	files []*ast.File
	info  *types.Info
	pkg   *types.Package
	funcs map[string]*ast.FuncDecl // "Recv.Name" or "Name"
	dir   string
}

func loadPkg(dir string, importPath string) (*Pkg, error) {
	fset := token.NewFileSet()
	ents, err := os.ReadDir(dir)
	if err != nil {
		return nil, err
	}
	var files []*ast.File
	for _, e := range ents {
		n := e.Name()
		if e.IsDir() || !strings.HasSuffix(n, ".go") || strings.HasSuffix(n, "_test.go") {
			continue
		}
		f, err := parser.ParseFile(fset, filepath.Join(dir, n), nil, parser.ParseComments)
		if err != nil {
			return nil, err
		}
		// honour build constraints the cheap way: skip files guarded by //go:build verif or ignore
		skip := false
		for _, cg := range f.Comments {
			if cg.Pos() > f.Package {
				break
			}
			for _, c := range cg.List {
				if strings.HasPrefix(c.Text, "//go:build") && (strings.Contains(c.Text, "verif") || strings.Contains(c.Text, "ignore")) {
					skip = true
				}
			}
		}
		if skip {
			continue
		}
		files = append(files, f)
	}
	info := &types.Info{
		Types:      map[ast.Expr]types.TypeAndValue{},
		Defs:       map[*ast.Ident]types.Object{},
		Uses:       map[*ast.Ident]types.Object{},
		Selections: map[*ast.SelectorExpr]*types.Selection{},
	}
	conf := types.Config{Importer: importer.ForCompiler(fset, "source", nil), Error: func(err error) {}}
	pkg, err := conf.Check(importPath, fset, files, info)
	if err != nil && pkg == nil {
		return nil, err
	}
	p := &Pkg{fset: fset, files: files, info: info, pkg: pkg, funcs: map[string]*ast.FuncDecl{}, dir: dir}
	for _, f := range files {
		for _, d := range f.Decls {
			if fd, ok := d.(*ast.FuncDecl); ok {
				p.funcs[funcKey(fd)] = fd
			}
		}
	}
	return p, nil
}

func recvTypeName(fd *ast.FuncDecl) string {
	if fd.Recv == nil || len(fd.Recv.List) == 0 {
		return ""
	}
	t := fd.Recv.List[0].Type
	if s, ok := t.(*ast.StarExpr); ok {
		t = s.X
	}
	if id, ok := t.(*ast.Ident); ok {
		return id.Name
	}
	return "?"
}

func funcKey(fd *ast.FuncDecl) string {
	if r := recvTypeName(fd); r != "" {
		return r + "." + fd.Name.Name
	}
	return fd.Name.Name
}

func (p *Pkg) pos(n ast.Node) string { return p.fset.Position(n.Pos()).String() }

type outFile struct {
	name string
	sb   strings.Builder
}

func main() {
	repo := flag.String("repo", "/repo", "repository root")
	out := flag.String("out", "", "output directory for Gen/*.lean")
	flag.Parse()
	if *out == "" {
		fmt.Fprintln(os.Stderr, "need -out")
		os.Exit(2)
	}
	if abs, err := filepath.Abs(*out); err == nil {
		*out = abs // later passes change the working directory
	}
	if abs, err := filepath.Abs(*repo); err == nil {
		*repo = abs
	}
	root, err := loadPkg(*repo, "github.com/ModChain/secp256k1")
	if err != nil {
		fmt.Fprintln(os.Stderr, "load:", err)
		os.Exit(1)
	}
	var errs []string
	files := map[string]string{}
	// a pass that crashes on a construct it does not expect is a rejected source, not a crashed check
	defer func() {
		if r := recover(); r != nil {
			fmt.Fprintln(os.Stderr, "gotr: translator stopped on a construct outside every pass's subset:", r)
			os.Exit(1)
		}
	}()
	add := func(name, content string, e []string) {
		files[name] = content
		errs = append(errs, e...)
	}
	{
		c, e := passKernels(root)
		for n, s := range c {
			add(n, s, nil)
		}
		errs = append(errs, e...)
	}
	{
		c, e := passConsts(root)
		add("Consts.lean", c, e)
	}
	{
		c, e := passFormulas(root)
		add("Formulas.lean", c, e)
	}
	{
		c, e := passFormulasC(root)
		add("FormulasC.lean", c, e)
	}
	{
		pkgs := []*Pkg{root}
		for _, sub := range []string{"schnorr", "ecckd"} {
			os.Chdir(filepath.Join(*repo, sub))
			sp, err := loadPkg(filepath.Join(*repo, sub), "github.com/ModChain/secp256k1/"+sub)
			if err != nil {
				errs = append(errs, "load "+sub+": "+err.Error())
				continue
			}
			pkgs = append(pkgs, sp)
		}
		c, e := passShared(pkgs)
		add("Shared.lean", c, e)
		c2, e2 := passSlices(pkgs)
		add("Slices.lean", c2, e2)
		c3, e3 := passBytes(pkgs)
		add("BytesProg.lean", c3, e3)
		c4, e4 := passBuilders(pkgs)
		add("BytesBuild.lean", c4, e4)
		c5, e5, w5 := passDrivers(pkgs)
		add("Drivers.lean", c5, e5)
		// functions of pass T8 that left the subset are stubbed (see drivers.go); the list travels with the output
		files["T8Failures.txt"] = strings.Join(w5, "\n")
		for _, w := range w5 {
			fmt.Fprintln(os.Stderr, "gotr: warning:", w)
		}
	}
	{
		c, e := passCT(root)
		add("CTGen.lean", c, e)
	}
	{
		c, e := passTable(root)
		for n, s := range c {
			add(n, s, nil)
		}
		errs = append(errs, e...)
	}
	if len(errs) > 0 {
		sort.Strings(errs)
		for _, e := range errs {
			fmt.Fprintln(os.Stderr, "gotr:", e)
		}
		os.Exit(1)
	}
	for n, s := range files {
		if err := os.WriteFile(filepath.Join(*out, n), []byte(s), 0o644); err != nil {
			fmt.Fprintln(os.Stderr, err)
			os.Exit(1)
		}
	}
}
