import Secp.Proofs.Bip32Bytes
import Secp.Proofs.SpecGroup
import Secp.Proofs.Ecdsa
/-
  Proofs/Bip32Point — point-level lemmas behind `neuter_commutes` (Props/C12): the crypto/elliptic
  adaptor (`adaptorBaseMult`, `adaptorAdd`) computes the specification group law, conditional on `PointSpec`.
-/
namespace Secp.Proofs.Bip32
open Secp.Spec Secp.Model Secp.Proofs Secp.Proofs.SpecGroup

theorem P_lt_256_32 : P < 256 ^ 32 := PubKey.P_lt_pow

/-! ### scalars and coordinates through `big.Int` -/

theorem adaptorScalar_short (b : Bytes) (hl : b.length ≤ 32) (hv : beNat b < N) : adaptorScalar b = beNat b := by
  unfold adaptorScalar scalarSetByteSlice
  rw [if_neg (by omega)]
  simp only [List.take_of_length_le hl]
  rw [if_neg (by omega)]

theorem bigToField_lt {v : Nat} (hv : v < P) : bigToField v = v := by
  unfold bigToField
  rw [minBytes_take32 (Nat.lt_trans hv P_lt_256_32), Nat.mod_eq_of_lt hv]

/-! ### affine points as Jacobian triples -/

theorem seven_const : fmul 7 (fmul (fsq (fmul (fsq 1) 1)) 1) = 7 := by decide +kernel
theorem finv_one : finv 1 = 1 := by decide +kernel
theorem one_lt_P : 1 < P := by decide +kernel

theorem onCurve_y_ne_zero {x y : Nat} (h : OnCurve x y) : y ≠ 0 := PubKey.y_ne_zero h.2.2

theorem fsqrt_seven : fsqrt 7 = none := by decide +kernel

/-- secp256k1 has no point with x = 0 (7 is not a square mod P) -/
theorem onCurve_x_ne_zero {x y : Nat} (h : OnCurve x y) : x ≠ 0 := by
  rintro rfl
  exact fsqrt_none fsqrt_seven ⟨y, h.2.2⟩

theorem wf_affine {x y : Nat} (h : OnCurve x y) : Jac.WF (x, y, 1) := by
  refine ⟨h.1, h.2.1, one_lt_P, Or.inr ?_⟩
  show fsq y = fadd (fmul (fsq x) x) (fmul 7 (fmul (fsq (fmul (fsq 1) 1)) 1))
  rw [seven_const, PubKey.rhs_eq]
  exact h.2.2

theorem toPt_affine {x y : Nat} (h : OnCurve x y) : Jac.toPt (x, y, 1) = some (x, y) := by
  have hy := onCurve_y_ne_zero h
  unfold Jac.toPt
  simp only [Nat.mod_eq_of_lt h.1, Nat.mod_eq_of_lt h.2.1, Nat.mod_eq_of_lt one_lt_P]
  rw [if_neg (by omega), finv_one]
  have e1 : fsq 1 = 1 := by decide +kernel
  have e2 : fmul 1 1 = 1 := by decide +kernel
  rw [e1, e2]
  unfold fmul
  rw [Nat.mul_one, Nat.mul_one, Nat.mod_eq_of_lt h.1, Nat.mod_eq_of_lt h.2.1]

/-! ### the group -/

theorem valid_of_onCurve {x y : Nat} (h : OnCurve x y) : Valid (some (x, y)) := h
theorem onCurve_of_valid {x y : Nat} (h : Valid (some (x, y))) : OnCurve x y := h

theorem smul_G_ne_none {k : Nat} (h0 : 0 < k) (hN : k < N) : smul k G ≠ none := by
  intro h
  have h1 : k • toE G = 0 := by rw [← toE_smul k valid_G, h, toE_none]
  have h2 := addOrderOf_dvd_of_nsmul_eq_zero h1
  rw [order_G] at h2
  exact absurd (Nat.le_of_dvd h0 h2) (by omega)

theorem add_smul_G (a b : Nat) : Pt.add (smul a G) (smul b G) = smul ((a + b) % N) G := by
  rw [smul_mod_N_G]
  apply toE_injective_on_valid (valid_add (valid_smul _ valid_G) (valid_smul _ valid_G)) (valid_smul _ valid_G)
  rw [toE_add (valid_smul _ valid_G) (valid_smul _ valid_G), toE_smul _ valid_G, toE_smul _ valid_G,
    toE_smul _ valid_G, add_nsmul]

/-! ### the adaptor -/

/-- `ScalarBaseMult` on a byte string of at most 32 bytes denoting a scalar in [1, N-1] -/
theorem baseMult_spec (hp : PointSpec) (b : Bytes) (hl : b.length ≤ 32) (h0 : 0 < beNat b) (hN : beNat b < N) :
    ∃ x y, OnCurve x y ∧ smul (beNat b) G = some (x, y) ∧ adaptorBaseMult b = (x, y) := by
  obtain ⟨x, y, -, -, hs, hA⟩ := Ecdsa.nonce_point hp (beNat b) hN (smul_G_ne_none h0 hN)
  refine ⟨x, y, ?_, hs, ?_⟩
  · have := valid_smul (beNat b) valid_G
    rw [hs] at this
    exact this
  · unfold adaptorBaseMult
    rw [adaptorScalar_short b hl hN]
    simp only [hA]

/-- `curve.Add` on two finite curve points whose sum is finite -/
theorem adaptorAdd_spec (hp : PointSpec) {x1 y1 x2 y2 x3 y3 : Nat} (h1 : OnCurve x1 y1) (h2 : OnCurve x2 y2)
    (hs : Pt.add (some (x1, y1)) (some (x2, y2)) = some (x3, y3)) :
    adaptorAdd (x1, y1) (x2, y2) = (x3, y3) := by
  unfold adaptorAdd
  have hy1 := onCurve_y_ne_zero h1
  have hy2 := onCurve_y_ne_zero h2
  rw [if_neg (by simp only [not_and]; intro _; exact hy1), if_neg (by simp only [not_and]; intro _; exact hy2)]
  simp only [bigToField_lt h1.1, bigToField_lt h1.2.1, bigToField_lt h2.1, bigToField_lt h2.2.1]
  obtain ⟨w, t⟩ := hp.add3 _ _ (wf_affine h1) (wf_affine h2)
  rw [toPt_affine h1, toPt_affine h2, hs] at t
  rw [hp.toAffine _ x3 y3 w t]

end Secp.Proofs.Bip32
