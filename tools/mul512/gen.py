#!/usr/bin/env python3
"""Generates lean/Secp/Proofs/Mul512Lemmas.lean: the arithmetic content of mul512Rsh320Round as statements about
plain naturals whose hypotheses are literally the SSA equations `ir_steps` produces for the regenerated kernel
Scalar_mul512Rsh320Round (written once from the trace in tools/mul512/trace.txt, then frozen)."""
import re, sys
trace = open(sys.argv[1]).read()
eqs = {}
for m in re.finditer(r"^e(\d+) : (v\d+ = .*)$", trace, re.M):
    eqs[int(m.group(1))] = m.group(2)
B64 = "18446744073709551615"
def vars_of(ks):
    vs = set()
    for k in ks:
        vs |= set(re.findall(r"v\d+", eqs[k]))
    return sorted(vs, key=lambda s: int(s[1:]))
def lemma(name, ks, bounded, prods, concl, extra_vars=()):
    vs = vars_of(ks)
    for v in extra_vars:
        if v not in vs: vs.append(v)
    vs = sorted(set(vs), key=lambda s: int(s[1:]))
    out = ["set_option maxHeartbeats 4000000 in", "set_option maxRecDepth 100000 in",
           "theorem %s (%s : Nat)" % (name, " ".join(vs))]
    for v in bounded:
        out.append("    (b%s : %s ≤ %s)" % (v[1:], v, B64))
    for v in prods:
        out.append("    (p%s : %s ≤ %s * %s)" % (v[1:], v, B64, B64))
    for k in ks:
        if k in PRODEQ: continue
        out.append("    (e%d : %s)" % (k, eqs[k]))
    out.append("    : %s := by\n  omega\n" % concl)
    return "\n".join(out), vs
PRODEQ = {8, 11, 20, 29, 38, 47, 62, 77, 92, 101, 116, 131, 146, 155, 170, 185}
S = lambda a, b, c, d: "%s + %s * 2^64 + %s * 2^128 + %s * 2^192" % (a, b, c, d)
rows = [
 ("row0", range(8, 38), [], ["v8", "v11", "v20", "v29"],
  "(%s) * 2^64 + v10 = %s ∧ v15 ≤ %s ∧ v24 ≤ %s ∧ v33 ≤ %s ∧ v36 ≤ %s ∧ v10 ≤ %s" % (S("v15", "v24", "v33", "v36"), S("v8", "v11", "v20", "v29"), B64, B64, B64, B64, B64)),
 ("row1", range(38, 92), ["v15", "v24", "v33", "v36"], ["v38", "v47", "v62", "v77"],
  "(%s) * 2^64 + v42 = (%s) + (%s) ∧ v57 ≤ %s ∧ v72 ≤ %s ∧ v87 ≤ %s ∧ v90 ≤ %s ∧ v42 ≤ %s" % (S("v57", "v72", "v87", "v90"), S("v15", "v24", "v33", "v36"), S("v38", "v47", "v62", "v77"), B64, B64, B64, B64, B64)),
 ("row2", range(92, 146), ["v57", "v72", "v87", "v90"], ["v92", "v101", "v116", "v131"],
  "(%s) * 2^64 + v96 = (%s) + (%s) ∧ v111 ≤ %s ∧ v126 ≤ %s ∧ v141 ≤ %s ∧ v144 ≤ %s ∧ v96 ≤ %s" % (S("v111", "v126", "v141", "v144"), S("v57", "v72", "v87", "v90"), S("v92", "v101", "v116", "v131"), B64, B64, B64, B64, B64)),
 ("row3", range(146, 200), ["v111", "v126", "v141", "v144"], ["v146", "v155", "v170", "v185"],
  "(%s) * 2^64 + v150 = (%s) + (%s) ∧ v165 ≤ %s ∧ v180 ≤ %s ∧ v195 ≤ %s ∧ v198 ≤ %s ∧ v150 ≤ %s" % (S("v165", "v180", "v195", "v198"), S("v111", "v126", "v141", "v144"), S("v146", "v155", "v170", "v185"), B64, B64, B64, B64, B64)),
]
out = ["import Secp.Core.IR\n/-\n  Proofs/Mul512Lemmas — arithmetic content of curve.go's mul512Rsh320Round, row by row, as statements about\n  plain naturals whose hypotheses are the SSA equations of the regenerated kernel (tools/mul512/gen.py; frozen).\n  Every proof is `omega` on a small context; the 64x64 products are atoms bounded by (2^64-1)^2.\n-/\nnamespace Secp.Proofs.Mul512Lemmas\n"]
sigs = {}
for name, ks, bounded, prods, concl in rows:
    txt, vs = lemma(name, list(ks), bounded, prods, concl)
    out.append(txt)
    sigs[name] = (vs, bounded, prods, [k for k in ks if k not in PRODEQ])
# final rounding and word split
fin_ks = list(range(200, 218))
txt, vs = lemma("fin", fin_ks, ["v165", "v180", "v195", "v198"], [],
   "v210 + v211 * 2^32 + v212 * 2^64 + v213 * 2^96 + v214 * 2^128 + v215 * 2^160 + v216 * 2^192 + v217 * 2^224 = v180 + v195 * 2^64 + v198 * 2^128 + v165 / 2^63 ∧ v210 < 2^32 ∧ v211 < 2^32 ∧ v212 < 2^32 ∧ v213 < 2^32 ∧ v214 < 2^32 ∧ v215 < 2^32 ∧ v216 < 2^32 ∧ v217 < 2^32")
out.append(txt)
sigs["fin"] = (vs, ["v165", "v180", "v195", "v198"], [], fin_ks)
# combination: from the four row identities to the rounded quotient
out.append("""set_option maxHeartbeats 4000000 in
set_option maxRecDepth 100000 in
theorem combine (R S0 S1 S2 S3 l0 l1 l2 l3 E0 E1 E2 E3 r4 hi : Nat)
    (h0 : S0 * 2^64 + l0 = E0) (h1 : S1 * 2^64 + l1 = S0 + E1) (h2 : S2 * 2^64 + l2 = S1 + E2) (h3 : S3 * 2^64 + l3 = S2 + E3)
    (b0 : l0 ≤ 18446744073709551615) (b1 : l1 ≤ 18446744073709551615) (b2 : l2 ≤ 18446744073709551615) (b3 : l3 ≤ 18446744073709551615)
    (hR : R = E0 + E1 * 2^64 + E2 * 2^128 + E3 * 2^192) (hS : S3 = r4 + hi * 2^64) (br : r4 ≤ 18446744073709551615) :
    (R + 2^319) / 2^320 = hi + r4 / 2^63 := by
  omega
""")
out.append("""theorem digits (x0 x1 x2 x3 x4 x5 x6 x7 d0 d1 d2 d3 : Nat)
    (e0 : d0 = x0 + x1 * 2^32) (e1 : d1 = x2 + x3 * 2^32) (e2 : d2 = x4 + x5 * 2^32) (e3 : d3 = x6 + x7 * 2^32) :
    x0 + x1 * 2^32 + x2 * 2^64 + x3 * 2^96 + x4 * 2^128 + x5 * 2^160 + x6 * 2^192 + x7 * 2^224 = d0 + d1 * 2^64 + d2 * 2^128 + d3 * 2^192 := by
  omega

theorem digit_le (x y d : Nat) (hx : x < 2^32) (hy : y < 2^32) (e : d = x + y * 2^32) : d ≤ 18446744073709551615 := by
  omega
""")
out.append("end Secp.Proofs.Mul512Lemmas\n")
open(sys.argv[2], "w").write("\n".join(out))
import json
json.dump({k: {"vars": v[0], "bounded": v[1], "prods": v[2], "eqs": v[3]} for k, v in sigs.items()}, open(sys.argv[3], "w"))
