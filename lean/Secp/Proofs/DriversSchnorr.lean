import Secp.Gen.Drivers
import Secp.Proofs.Chains
import Secp.Proofs.PubKey
import Mathlib.Tactic.SplitIfs
/-
  Proofs/DriversSchnorr — the regenerated value-level schnorr drivers (Gen/Drivers.lean:
  schnorrSign, schnorrVerify, schnorrSignRFC6979_loop, schnorrSignRFC6979) equal the
  hand-written models of Model/Schnorr.lean.
-/
namespace Secp.Proofs.DriversSchnorr
open Secp.Spec Secp.Model Secp.FOp Secp.Proofs.Chains Secp.Gen.FormulasC

/-- `ToAffine` ends with `Normalize` of X: the first register of the result is reduced,
    whatever the input registers are. -/
theorem toAffineJ_fst_lt (q : Jac) : (toAffineJ q).1 < P := by
  obtain ⟨X, Y, Z⟩ := q
  obtain ⟨callF, hrun⟩ := runNamed_eq "ToAffine" 8 ToAffine [X, Y, Z] [] (by decide) rfl
  have hops : opsOnly tChain = true := by decide +kernel
  generalize hr1 : runOps tChain ([X, Y, Z] ++ List.replicate 13 0) = r1
  have hlen : r1.length = 16 := by rw [← hr1, length_runOps]; rfl
  have hP : 0 < P := by decide +kernel
  unfold toAffineJ
  simp only []
  rw [hrun, show ToAffine.paths = [ToAffine_p0] from rfl]
  simp only [List.findSome?_cons, List.findSome?_nil]
  rw [show ToAffine.nreg - [X, Y, Z].length = 13 from rfl, toAffine_items]
  simp only [exec_append, exec_opsOnly _ _ hops, hr1, Option.bind_some]
  simp [execPathWith, stepF, rget_rset, length_rset, hlen]
  exact Nat.mod_lt _ hP


/-- the 64-byte commitment buffer of `schnorrSign`/`schnorrVerify` after the two writes -/
theorem commitInput_eq (r : Nat) (h : Bytes) (hl : h.length = 32) :
    (((List.replicate 64 (0 : UInt8)).take 0 ++ (be32 r).take 32 ++
        (List.replicate 64 (0 : UInt8)).drop (0 + 32)).take 32 ++
      h.take (min (((List.replicate 64 (0 : UInt8)).take 0 ++ (be32 r).take 32 ++
        (List.replicate 64 (0 : UInt8)).drop (0 + 32)).drop 32).length h.length) ++
      ((List.replicate 64 (0 : UInt8)).take 0 ++ (be32 r).take 32 ++
        (List.replicate 64 (0 : UInt8)).drop (0 + 32)).drop
        (32 + min (((List.replicate 64 (0 : UInt8)).take 0 ++ (be32 r).take 32 ++
        (List.replicate 64 (0 : UInt8)).drop (0 + 32)).drop 32).length h.length)) = be32 r ++ h := by
  have hb : (be32 r).length = 32 := PubKey.be32_length r
  have e1 : (List.replicate 64 (0 : UInt8)).take 0 ++ (be32 r).take 32 ++
      (List.replicate 64 (0 : UInt8)).drop (0 + 32) = be32 r ++ List.replicate 32 (0 : UInt8) := by
    rw [List.take_of_length_le (le_of_eq hb)]
    simp
  rw [e1]
  have e2 : (be32 r ++ List.replicate 32 (0 : UInt8)).drop 32 = List.replicate 32 (0 : UInt8) := by
    rw [List.drop_left' hb]
  have e3 : (be32 r ++ List.replicate 32 (0 : UInt8)).take 32 = be32 r := by
    rw [List.take_left' hb]
  rw [e2, e3, List.length_replicate, hl, Nat.min_self, List.take_of_length_le (le_of_eq hl)]
  rw [List.drop_of_length_le (by simp [hb])]
  simp

set_option linter.unusedSimpArgs false in
theorem schnorrSign_regenerated (B : Bytes → Bytes) (d k : Nat) (h : Bytes) (hl : h.length = 32) :
    Secp.Gen.Drivers.schnorrSign B d k h =
      (match schnorrSignM B d k h with | .ok x => DR.ok x | .error e => DR.err e) := by
  have hx : (toAffineJ (scalarBaseMultNC k)).1 % P = (toAffineJ (scalarBaseMultNC k)).1 :=
    Nat.mod_eq_of_lt (toAffineJ_fst_lt _)
  unfold Secp.Gen.Drivers.schnorrSign schnorrSignM commitScalar
  simp only [commitInput_eq _ h hl, hx]
  cases hov : (scalarSetByteSlice (B (be32 (toAffineJ (scalarBaseMultNC k)).1 ++ h))).2 <;>
    by_cases hy : (toAffineJ (scalarBaseMultNC k)).2.1 % 2 = 1 <;> simp [hov, hy]


theorem schnorrVerify_regenerated (B : Bytes → Bytes) (r s : Nat) (h : Bytes) (Q : Nat × Nat) :
    Secp.Gen.Drivers.schnorrVerify B (r, s) h Q =
      (match schnorrVerifyM B r s h Q with | none => DR.ok () | some e => DR.err e) := by
  unfold Secp.Gen.Drivers.schnorrVerify schnorrVerifyM commitScalar
  by_cases hl : h.length = 32
  swap
  · simp [hl]
  simp only [commitInput_eq _ h hl]
  cases hc : isOnCurveM Q.1 Q.2
  · simp [hl]
  cases hov : (scalarSetByteSlice (B (be32 r ++ h))).2
  swap
  · simp [hl]
  simp only [hl]
  generalize hR : addNC3 (scalarBaseMultNC s)
    (scalarMultNC (scalarSetByteSlice (B (be32 r ++ h))).1 (Q.1, Q.2, 1)) = R
  have hinf : isInfJ R = (((R.1 == 0) && (R.2.1 == 0)) || (R.2.2 == 0)) := rfl
  cases hi : isInfJ R
  · rw [hinf] at hi
    by_cases hy : (toAffineJ R).2.1 % 2 = 1
    · simp [hi, hy]
    · by_cases hr : r = (toAffineJ R).1
      · simp [hi, hy, hr]
      · simp [hi, hy, hr]
  · rw [hinf] at hi
    simp [hi]

/-- the generated package-level byte variable is the model's constant -/
theorem pv_extra_eq : Secp.Gen.Drivers.pv_rfc6979ExtraDataV0 = rfc6979ExtraDataV0 := by decide

theorem schnorrSign_loop_regenerated (B : Bytes → Bytes) (d : Nat) (h : Bytes) (hl : h.length = 32)
    (fuel iter : Nat) (hi : iter + fuel < 2^32) :
    Secp.Gen.Drivers.schnorrSignRFC6979_loop B d h (be32 d) fuel iter =
      (match schnorrSignLoop B d h fuel iter with
        | .ok x => DR.ok x | .error .NoNonce => DR.fuel | .error e => DR.err e) := by
  induction fuel generalizing iter with
  | zero => rfl
  | succ fuel ih =>
    unfold Secp.Gen.Drivers.schnorrSignRFC6979_loop schnorrSignLoop
    rw [pv_extra_eq]
    cases hn : nonceM 256 (be32 d) h rfc6979ExtraDataV0 [] iter with
    | none => rfl
    | some k =>
      simp only [schnorrSign_regenerated B d k h hl]
      have hm : (iter + 1) % 4294967296 = iter + 1 := Nat.mod_eq_of_lt (by omega)
      cases hs : schnorrSignM B d k h with
      | ok sig => rfl
      | error e =>
        simp only [hm]
        exact ih (iter + 1) (by omega)

theorem schnorrSignRFC6979_regenerated (B : Bytes → Bytes) (d : Nat) (h : Bytes) :
    Secp.Gen.Drivers.schnorrSignRFC6979 B d h =
      (match Secp.Model.schnorrSign B d h with
        | .ok x => DR.ok x | .error .NoNonce => DR.fuel | .error e => DR.err e) := by
  unfold Secp.Gen.Drivers.schnorrSignRFC6979 Secp.Model.schnorrSign
  by_cases hl : h.length = 32
  swap
  · simp [hl]
  by_cases hd : d = 0
  · simp [hl, hd]
  have hb : (List.replicate 32 (0 : UInt8)).take 0 ++ (be32 d).take 32 ++
      (List.replicate 32 (0 : UInt8)).drop (0 + 32) = be32 d := by
    rw [List.take_of_length_le (le_of_eq (PubKey.be32_length d))]
    simp
  simp only [hb, hl, hd]
  simpa [hd] using schnorrSign_loop_regenerated B d h hl 16 0 (by norm_num)

/-! ### the same statements with the (redundant) range hypothesis `hx`, for callers that carry it -/

theorem schnorrSign_regenerated_hx (B : Bytes → Bytes) (d k : Nat) (h : Bytes) (hl : h.length = 32)
    (_hx : (toAffineJ (scalarBaseMultNC k)).1 < P) :
    Secp.Gen.Drivers.schnorrSign B d k h =
      (match schnorrSignM B d k h with | .ok x => DR.ok x | .error e => DR.err e) :=
  schnorrSign_regenerated B d k h hl

theorem schnorrSign_loop_regenerated_hx (B : Bytes → Bytes) (d : Nat) (h : Bytes) (hl : h.length = 32)
    (fuel iter : Nat) (hi : iter + fuel < 2^32)
    (_hx : ∀ k, (toAffineJ (scalarBaseMultNC k)).1 < P) :
    Secp.Gen.Drivers.schnorrSignRFC6979_loop B d h (be32 d) fuel iter =
      (match schnorrSignLoop B d h fuel iter with
        | .ok x => DR.ok x | .error .NoNonce => DR.fuel | .error e => DR.err e) :=
  schnorrSign_loop_regenerated B d h hl fuel iter hi

theorem schnorrSignRFC6979_regenerated_hx (B : Bytes → Bytes) (d : Nat) (h : Bytes)
    (_hx : ∀ k, (toAffineJ (scalarBaseMultNC k)).1 < P) :
    Secp.Gen.Drivers.schnorrSignRFC6979 B d h =
      (match Secp.Model.schnorrSign B d h with
        | .ok x => DR.ok x | .error .NoNonce => DR.fuel | .error e => DR.err e) :=
  schnorrSignRFC6979_regenerated B d h

end Secp.Proofs.DriversSchnorr

#print axioms Secp.Proofs.DriversSchnorr.toAffineJ_fst_lt
#print axioms Secp.Proofs.DriversSchnorr.schnorrSign_regenerated
#print axioms Secp.Proofs.DriversSchnorr.schnorrVerify_regenerated
#print axioms Secp.Proofs.DriversSchnorr.schnorrSign_loop_regenerated
#print axioms Secp.Proofs.DriversSchnorr.schnorrSignRFC6979_regenerated
