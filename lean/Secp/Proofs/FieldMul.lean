import Secp.Proofs.IRRun
import Secp.Gen.Bounds
import Secp.Core.Limbs
import Mathlib.Tactic.Ring
/-
  Proofs/FieldMul — C05 for the three non-trivial field kernels: Mul2, SquareVal, Normalize.

  Method (all three): `kernel_steps` + `ir_steps` turn the run of the GENERATED kernel under its
  interval contract (Gen/Bounds) into one named ideal-semantics value per SSA entry, with the
  derived numeric bounds and the fact that the Go semantics `runW` returns the ideal outputs.
  The arithmetic is then discharged by `omega` in phases over small contexts:

  * Mul2 / SquareVal:  phase 1 (20 product columns, in `mul2_core` / `square_core`),
    phases 2+3 (`fold_spec`: first fold of the high ten words by 2^260 ≡ 16·(2^32+977), final
    fold of bits ≥ 256), giving  out.val + q·P = Σ aᵢ·bⱼ·2^(26(i+j));  `ring` bridges to a.val*b.val.
  * Normalize: `norm_pass1` (V1 + m·P = f.val), `norm_mask` (the constant-time mask is 1 iff V1 ≥ P),
    `norm_pass2` (out.val + mask·P = V1 and out.val < P).
-/
namespace Secp.Proofs.FieldMul
open Secp.Spec Secp.IR Secp.Gen Secp.Limbs Secp.Gen.Bounds Secp.Proofs.IRRun

/-! ## Mul2 / SquareVal: folding the 20 column words -/

set_option maxRecDepth 100000 in
/-- phases 2 and 3 of Mul2/SquareVal: folding the 20 column words t0..t19 (v1..v38) to ten limbs -/
theorem fold_spec (v1 v3 v5 v7 v9 v11 v13 v15 v17 v19 v21 v23 v25 v27 v29 v31 v33 v35 v37 v38 : Nat)
    (v39 v40 v41 v42 v43 v44 v45 v46 v47 v48 v49 v50 v51 v52 v53 v54 v55 v56 v57 v58 v59 v60
     v61 v62 v63 v64 v65 v66 v67 v68 v69 v70 v71 : Nat)
    (e39 : v39 = v1 + v21 * 15632)
    (e40 : v40 = v39 % 2 ^ 26)
    (e41 : v41 = v39 / 2 ^ 26 + v3 + v21 * 1024 + v23 * 15632)
    (e42 : v42 = v41 % 2 ^ 26)
    (e43 : v43 = v41 / 2 ^ 26 + v5 + v23 * 1024 + v25 * 15632)
    (e44 : v44 = v43 % 2 ^ 26)
    (e45 : v45 = v43 / 2 ^ 26 + v7 + v25 * 1024 + v27 * 15632)
    (e46 : v46 = v45 % 2 ^ 26)
    (e47 : v47 = v45 / 2 ^ 26 + v9 + v27 * 1024 + v29 * 15632)
    (e48 : v48 = v47 % 2 ^ 26)
    (e49 : v49 = v47 / 2 ^ 26 + v11 + v29 * 1024 + v31 * 15632)
    (e50 : v50 = v49 % 2 ^ 26)
    (e51 : v51 = v49 / 2 ^ 26 + v13 + v31 * 1024 + v33 * 15632)
    (e52 : v52 = v51 % 2 ^ 26)
    (e53 : v53 = v51 / 2 ^ 26 + v15 + v33 * 1024 + v35 * 15632)
    (e54 : v54 = v53 % 2 ^ 26)
    (e55 : v55 = v53 / 2 ^ 26 + v17 + v35 * 1024 + v37 * 15632)
    (e56 : v56 = v55 % 2 ^ 26)
    (e57 : v57 = v55 / 2 ^ 26 + v19 + v37 * 1024 + v38 * 68719492368)
    (e58 : v58 = v57 % 2 ^ 22)
    (e59 : v59 = v57 / 2 ^ 22)
    (e60 : v60 = v40 + v59 * 977)
    (e61 : v61 = v60 % 2 ^ 26 % 2 ^ 32)
    (e62 : v62 = v60 / 2 ^ 26 + v42 + v59 * 64)
    (e63 : v63 = v62 % 2 ^ 26 % 2 ^ 32)
    (e64 : v64 = (v62 / 2 ^ 26 + v44) % 2 ^ 32)
    (e65 : v65 = v46 % 2 ^ 32)
    (e66 : v66 = v48 % 2 ^ 32)
    (e67 : v67 = v50 % 2 ^ 32)
    (e68 : v68 = v52 % 2 ^ 32)
    (e69 : v69 = v54 % 2 ^ 32)
    (e70 : v70 = v56 % 2 ^ 32)
    (e71 : v71 = v58 % 2 ^ 32)
    (h59 : v59 ≤ 274878116944) :
    (v61 + v63 * 2^26 + v64 * 2^52 + v65 * 2^78 + v66 * 2^104 + v67 * 2^130 + v68 * 2^156 + v69 * 2^182
        + v70 * 2^208 + v71 * 2^234)
      + (16 * (v21 + v23 * 2^26 + v25 * 2^52 + v27 * 2^78 + v29 * 2^104 + v31 * 2^130 + v33 * 2^156
                + v35 * 2^182 + v37 * 2^208 + v38 * 2^234) + v59)
        * 115792089237316195423570985008687907853269984665640564039457584007908834671663
    = v1 + v3 * 2^26 + v5 * 2^52 + v7 * 2^78 + v9 * 2^104 + v11 * 2^130 + v13 * 2^156 + v15 * 2^182 + v17 * 2^208 + v19 * 2^234
        + v21 * 2^260 + v23 * 2^286 + v25 * 2^312 + v27 * 2^338 + v29 * 2^364 + v31 * 2^390 + v33 * 2^416 + v35 * 2^442 + v37 * 2^468 + v38 * 2^494 := by
  have ph2 : (v40 + v42 * 2^26 + v44 * 2^52 + v46 * 2^78 + v48 * 2^104 + v50 * 2^130 + v52 * 2^156 + v54 * 2^182
        + v56 * 2^208 + v57 * 2^234)
      + (16 * (v21 + v23 * 2^26 + v25 * 2^52 + v27 * 2^78 + v29 * 2^104 + v31 * 2^130 + v33 * 2^156
                + v35 * 2^182 + v37 * 2^208 + v38 * 2^234))
        * 115792089237316195423570985008687907853269984665640564039457584007908834671663
    = v1 + v3 * 2^26 + v5 * 2^52 + v7 * 2^78 + v9 * 2^104 + v11 * 2^130 + v13 * 2^156 + v15 * 2^182 + v17 * 2^208 + v19 * 2^234
        + v21 * 2^260 + v23 * 2^286 + v25 * 2^312 + v27 * 2^338 + v29 * 2^364 + v31 * 2^390 + v33 * 2^416 + v35 * 2^442 + v37 * 2^468 + v38 * 2^494 := by
    clear e58 e59 e60 e61 e62 e63 e64 e65 e66 e67 e68 e69 e70 e71 h59
    omega
  have ph3 : (v61 + v63 * 2^26 + v64 * 2^52 + v65 * 2^78 + v66 * 2^104 + v67 * 2^130 + v68 * 2^156 + v69 * 2^182
        + v70 * 2^208 + v71 * 2^234) + v59 * 115792089237316195423570985008687907853269984665640564039457584007908834671663
      = (v40 + v42 * 2^26 + v44 * 2^52 + v46 * 2^78 + v48 * 2^104 + v50 * 2^130 + v52 * 2^156 + v54 * 2^182
        + v56 * 2^208 + v57 * 2^234) := by
    clear ph2 e39 e41 e43 e45 e47 e49 e51 e53 e55 e57
    omega
  rw [← ph2, ← ph3]; ring

/-! ## Mul2 / SquareVal on raw limbs -/

set_option maxHeartbeats 4000000 in
set_option maxRecDepth 100000 in
theorem mul2_core (x0 x1 x2 x3 x4 x5 x6 x7 x8 x9 a0 a1 a2 a3 a4 a5 a6 a7 a8 a9 b0 b1 b2 b3 b4 b5 b6 b7 b8 b9 : Nat)
    (hin : Within [x0, x1, x2, x3, x4, x5, x6, x7, x8, x9, a0, a1, a2, a3, a4, a5, a6, a7, a8, a9, b0, b1, b2, b3, b4, b5, b6, b7, b8, b9] Field_Mul2_m8_in) :
    ∃ o0 o1 o2 o3 o4 o5 o6 o7 o8 o9 q : Nat,
      Field_Mul2.runW [x0, x1, x2, x3, x4, x5, x6, x7, x8, x9, a0, a1, a2, a3, a4, a5, a6, a7, a8, a9, b0, b1, b2, b3, b4, b5, b6, b7, b8, b9] = [o0, o1, o2, o3, o4, o5, o6, o7, o8, o9] ∧
      (o0 ≤ 67108863 ∧ o1 ≤ 67108863 ∧ o2 ≤ 67371008 ∧ o3 ≤ 67108863 ∧ o4 ≤ 67108863 ∧ o5 ≤ 67108863 ∧
        o6 ≤ 67108863 ∧ o7 ≤ 67108863 ∧ o8 ≤ 67108863 ∧ o9 ≤ 4194303) ∧
      (o0 + o1 * 2^26 + o2 * 2^52 + o3 * 2^78 + o4 * 2^104 + o5 * 2^130 + o6 * 2^156 + o7 * 2^182 + o8 * 2^208 + o9 * 2^234) + q * 115792089237316195423570985008687907853269984665640564039457584007908834671663 =
      (a0*b0) + (a0*b1 + a1*b0) * 2^26 + (a0*b2 + a1*b1 + a2*b0) * 2^52 + (a0*b3 + a1*b2 + a2*b1 + a3*b0) * 2^78 + (a0*b4 + a1*b3 + a2*b2 + a3*b1 + a4*b0) * 2^104 + (a0*b5 + a1*b4 + a2*b3 + a3*b2 + a4*b1 + a5*b0) * 2^130 + (a0*b6 + a1*b5 + a2*b4 + a3*b3 + a4*b2 + a5*b1 + a6*b0) * 2^156 + (a0*b7 + a1*b6 + a2*b5 + a3*b4 + a4*b3 + a5*b2 + a6*b1 + a7*b0) * 2^182 + (a0*b8 + a1*b7 + a2*b6 + a3*b5 + a4*b4 + a5*b3 + a6*b2 + a7*b1 + a8*b0) * 2^208 + (a0*b9 + a1*b8 + a2*b7 + a3*b6 + a4*b5 + a5*b4 + a6*b3 + a7*b2 + a8*b1 + a9*b0) * 2^234 + (a1*b9 + a2*b8 + a3*b7 + a4*b6 + a5*b5 + a6*b4 + a7*b3 + a8*b2 + a9*b1) * 2^260 + (a2*b9 + a3*b8 + a4*b7 + a5*b6 + a6*b5 + a7*b4 + a8*b3 + a9*b2) * 2^286 + (a3*b9 + a4*b8 + a5*b7 + a6*b6 + a7*b5 + a8*b4 + a9*b3) * 2^312 + (a4*b9 + a5*b8 + a6*b7 + a7*b6 + a8*b5 + a9*b4) * 2^338 + (a5*b9 + a6*b8 + a7*b7 + a8*b6 + a9*b5) * 2^364 + (a6*b9 + a7*b8 + a8*b7 + a9*b6) * 2^390 + (a7*b9 + a8*b8 + a9*b7) * 2^416 + (a8*b9 + a9*b8) * 2^442 + (a9*b9) * 2^468 := by
  have h := kernel_steps Field_Mul2 _ _ _ _ hin Field_Mul2_m8_mid_ok Field_Mul2_m8_out_ok
  simp only [Field_Mul2, List.reverse_cons, List.reverse_nil, List.nil_append, List.cons_append] at h
  ir_steps h
  obtain ⟨hW, hrun⟩ := h.out
  simp only [Within, inIval, Field_Mul2_m8_mid] at hW
  simp only [List.map, evalN, List.getD_cons_succ, List.getD_cons_zero] at hrun
  clear h hin
  obtain ⟨⟨-, h71⟩, ⟨-, h70⟩, ⟨-, h69⟩, ⟨-, h68⟩, ⟨-, h67⟩, ⟨-, h66⟩, ⟨-, h65⟩, ⟨-, h64⟩, ⟨-, h63⟩, -, ⟨-, h61⟩, -, ⟨-, h59⟩, -, -, -, -, -, -, -, -, -, -, -, -, -, -, -, -, -, -, -, -, -, -, -, -, -, -, -, -, -, -, -, -, -, -, -, -, -, -, -, -, -, -, -, -, -, -, -, -, -, -, -, -, -, -, -, -, -, -, -, -⟩ := hW
  have ph1 : v1 + v3 * 2^26 + v5 * 2^52 + v7 * 2^78 + v9 * 2^104 + v11 * 2^130 + v13 * 2^156 + v15 * 2^182 + v17 * 2^208 + v19 * 2^234 + v21 * 2^260 + v23 * 2^286 + v25 * 2^312 + v27 * 2^338 + v29 * 2^364 + v31 * 2^390 + v33 * 2^416 + v35 * 2^442 + v37 * 2^468 + v38 * 2^494 =
      (a0*b0) + (a0*b1 + a1*b0) * 2^26 + (a0*b2 + a1*b1 + a2*b0) * 2^52 + (a0*b3 + a1*b2 + a2*b1 + a3*b0) * 2^78 + (a0*b4 + a1*b3 + a2*b2 + a3*b1 + a4*b0) * 2^104 + (a0*b5 + a1*b4 + a2*b3 + a3*b2 + a4*b1 + a5*b0) * 2^130 + (a0*b6 + a1*b5 + a2*b4 + a3*b3 + a4*b2 + a5*b1 + a6*b0) * 2^156 + (a0*b7 + a1*b6 + a2*b5 + a3*b4 + a4*b3 + a5*b2 + a6*b1 + a7*b0) * 2^182 + (a0*b8 + a1*b7 + a2*b6 + a3*b5 + a4*b4 + a5*b3 + a6*b2 + a7*b1 + a8*b0) * 2^208 + (a0*b9 + a1*b8 + a2*b7 + a3*b6 + a4*b5 + a5*b4 + a6*b3 + a7*b2 + a8*b1 + a9*b0) * 2^234 + (a1*b9 + a2*b8 + a3*b7 + a4*b6 + a5*b5 + a6*b4 + a7*b3 + a8*b2 + a9*b1) * 2^260 + (a2*b9 + a3*b8 + a4*b7 + a5*b6 + a6*b5 + a7*b4 + a8*b3 + a9*b2) * 2^286 + (a3*b9 + a4*b8 + a5*b7 + a6*b6 + a7*b5 + a8*b4 + a9*b3) * 2^312 + (a4*b9 + a5*b8 + a6*b7 + a7*b6 + a8*b5 + a9*b4) * 2^338 + (a5*b9 + a6*b8 + a7*b7 + a8*b6 + a9*b5) * 2^364 + (a6*b9 + a7*b8 + a8*b7 + a9*b6) * 2^390 + (a7*b9 + a8*b8 + a9*b7) * 2^416 + (a8*b9 + a9*b8) * 2^442 + (a9*b9) * 2^468 := by
    clear hrun h61 h63 h64 h65 h66 h67 h68 h69 h70 h71 h59 e39 e40 e41 e42 e43 e44 e45 e46 e47 e48 e49 e50 e51 e52 e53 e54 e55 e56 e57 e58 e59 e60 e61 e62 e63 e64 e65 e66 e67 e68 e69 e70 e71
    omega
  have ph23 := fold_spec v1 v3 v5 v7 v9 v11 v13 v15 v17 v19 v21 v23 v25 v27 v29 v31 v33 v35 v37 v38 v39 v40 v41 v42 v43 v44 v45 v46 v47 v48 v49 v50 v51 v52 v53 v54 v55 v56 v57 v58 v59 v60 v61 v62 v63 v64 v65 v66 v67 v68 v69 v70 v71 e39 e40 e41 e42 e43 e44 e45 e46 e47 e48 e49 e50 e51 e52 e53 e54 e55 e56 e57 e58 e59 e60 e61 e62 e63 e64 e65 e66 e67 e68 e69 e70 e71 h59
  refine ⟨v61, v63, v64, v65, v66, v67, v68, v69, v70, v71, 16 * (v21 + v23 * 2^26 + v25 * 2^52 + v27 * 2^78 + v29 * 2^104 + v31 * 2^130 + v33 * 2^156 + v35 * 2^182 + v37 * 2^208 + v38 * 2^234) + v59, hrun, ⟨h61, h63, h64, h65, h66, h67, h68, h69, h70, h71⟩, ?_⟩
  rw [← ph1]
  exact ph23

set_option maxHeartbeats 4000000 in
set_option maxRecDepth 100000 in
theorem square_core (x0 x1 x2 x3 x4 x5 x6 x7 x8 x9 a0 a1 a2 a3 a4 a5 a6 a7 a8 a9 : Nat)
    (hin : Within [x0, x1, x2, x3, x4, x5, x6, x7, x8, x9, a0, a1, a2, a3, a4, a5, a6, a7, a8, a9] Field_SquareVal_m8_in) :
    ∃ o0 o1 o2 o3 o4 o5 o6 o7 o8 o9 q : Nat,
      Field_SquareVal.runW [x0, x1, x2, x3, x4, x5, x6, x7, x8, x9, a0, a1, a2, a3, a4, a5, a6, a7, a8, a9] = [o0, o1, o2, o3, o4, o5, o6, o7, o8, o9] ∧
      (o0 ≤ 67108863 ∧ o1 ≤ 67108863 ∧ o2 ≤ 67371008 ∧ o3 ≤ 67108863 ∧ o4 ≤ 67108863 ∧ o5 ≤ 67108863 ∧
        o6 ≤ 67108863 ∧ o7 ≤ 67108863 ∧ o8 ≤ 67108863 ∧ o9 ≤ 4194303) ∧
      (o0 + o1 * 2^26 + o2 * 2^52 + o3 * 2^78 + o4 * 2^104 + o5 * 2^130 + o6 * 2^156 + o7 * 2^182 + o8 * 2^208 + o9 * 2^234) + q * 115792089237316195423570985008687907853269984665640564039457584007908834671663 =
      (a0*a0) + (2*a0*a1) * 2^26 + (2*a0*a2 + a1*a1) * 2^52 + (2*a0*a3 + 2*a1*a2) * 2^78 + (2*a0*a4 + 2*a1*a3 + a2*a2) * 2^104 + (2*a0*a5 + 2*a1*a4 + 2*a2*a3) * 2^130 + (2*a0*a6 + 2*a1*a5 + 2*a2*a4 + a3*a3) * 2^156 + (2*a0*a7 + 2*a1*a6 + 2*a2*a5 + 2*a3*a4) * 2^182 + (2*a0*a8 + 2*a1*a7 + 2*a2*a6 + 2*a3*a5 + a4*a4) * 2^208 + (2*a0*a9 + 2*a1*a8 + 2*a2*a7 + 2*a3*a6 + 2*a4*a5) * 2^234 + (2*a1*a9 + 2*a2*a8 + 2*a3*a7 + 2*a4*a6 + a5*a5) * 2^260 + (2*a2*a9 + 2*a3*a8 + 2*a4*a7 + 2*a5*a6) * 2^286 + (2*a3*a9 + 2*a4*a8 + 2*a5*a7 + a6*a6) * 2^312 + (2*a4*a9 + 2*a5*a8 + 2*a6*a7) * 2^338 + (2*a5*a9 + 2*a6*a8 + a7*a7) * 2^364 + (2*a6*a9 + 2*a7*a8) * 2^390 + (2*a7*a9 + a8*a8) * 2^416 + (2*a8*a9) * 2^442 + (a9*a9) * 2^468 := by
  have h := kernel_steps Field_SquareVal _ _ _ _ hin Field_SquareVal_m8_mid_ok Field_SquareVal_m8_out_ok
  simp only [Field_SquareVal, List.reverse_cons, List.reverse_nil, List.nil_append, List.cons_append] at h
  ir_steps h
  obtain ⟨hW, hrun⟩ := h.out
  simp only [Within, inIval, Field_SquareVal_m8_mid] at hW
  simp only [List.map, evalN, List.getD_cons_succ, List.getD_cons_zero] at hrun
  clear h hin
  obtain ⟨⟨-, h71⟩, ⟨-, h70⟩, ⟨-, h69⟩, ⟨-, h68⟩, ⟨-, h67⟩, ⟨-, h66⟩, ⟨-, h65⟩, ⟨-, h64⟩, ⟨-, h63⟩, -, ⟨-, h61⟩, -, ⟨-, h59⟩, -, -, -, -, -, -, -, -, -, -, -, -, -, -, -, -, -, -, -, -, -, -, -, -, -, -, -, -, -, -, -, -, -, -, -, -, -, -, -, -, -, -, -, -, -, -, -, -, -, -, -, -, -, -, -, -, -, -, -, -⟩ := hW
  have ph1 : v1 + v3 * 2^26 + v5 * 2^52 + v7 * 2^78 + v9 * 2^104 + v11 * 2^130 + v13 * 2^156 + v15 * 2^182 + v17 * 2^208 + v19 * 2^234 + v21 * 2^260 + v23 * 2^286 + v25 * 2^312 + v27 * 2^338 + v29 * 2^364 + v31 * 2^390 + v33 * 2^416 + v35 * 2^442 + v37 * 2^468 + v38 * 2^494 =
      (a0*a0) + (2*a0*a1) * 2^26 + (2*a0*a2 + a1*a1) * 2^52 + (2*a0*a3 + 2*a1*a2) * 2^78 + (2*a0*a4 + 2*a1*a3 + a2*a2) * 2^104 + (2*a0*a5 + 2*a1*a4 + 2*a2*a3) * 2^130 + (2*a0*a6 + 2*a1*a5 + 2*a2*a4 + a3*a3) * 2^156 + (2*a0*a7 + 2*a1*a6 + 2*a2*a5 + 2*a3*a4) * 2^182 + (2*a0*a8 + 2*a1*a7 + 2*a2*a6 + 2*a3*a5 + a4*a4) * 2^208 + (2*a0*a9 + 2*a1*a8 + 2*a2*a7 + 2*a3*a6 + 2*a4*a5) * 2^234 + (2*a1*a9 + 2*a2*a8 + 2*a3*a7 + 2*a4*a6 + a5*a5) * 2^260 + (2*a2*a9 + 2*a3*a8 + 2*a4*a7 + 2*a5*a6) * 2^286 + (2*a3*a9 + 2*a4*a8 + 2*a5*a7 + a6*a6) * 2^312 + (2*a4*a9 + 2*a5*a8 + 2*a6*a7) * 2^338 + (2*a5*a9 + 2*a6*a8 + a7*a7) * 2^364 + (2*a6*a9 + 2*a7*a8) * 2^390 + (2*a7*a9 + a8*a8) * 2^416 + (2*a8*a9) * 2^442 + (a9*a9) * 2^468 := by
    clear hrun h61 h63 h64 h65 h66 h67 h68 h69 h70 h71 h59 e39 e40 e41 e42 e43 e44 e45 e46 e47 e48 e49 e50 e51 e52 e53 e54 e55 e56 e57 e58 e59 e60 e61 e62 e63 e64 e65 e66 e67 e68 e69 e70 e71
    omega
  have ph23 := fold_spec v1 v3 v5 v7 v9 v11 v13 v15 v17 v19 v21 v23 v25 v27 v29 v31 v33 v35 v37 v38 v39 v40 v41 v42 v43 v44 v45 v46 v47 v48 v49 v50 v51 v52 v53 v54 v55 v56 v57 v58 v59 v60 v61 v62 v63 v64 v65 v66 v67 v68 v69 v70 v71 e39 e40 e41 e42 e43 e44 e45 e46 e47 e48 e49 e50 e51 e52 e53 e54 e55 e56 e57 e58 e59 e60 e61 e62 e63 e64 e65 e66 e67 e68 e69 e70 e71 h59
  refine ⟨v61, v63, v64, v65, v66, v67, v68, v69, v70, v71, 16 * (v21 + v23 * 2^26 + v25 * 2^52 + v27 * 2^78 + v29 * 2^104 + v31 * 2^130 + v33 * 2^156 + v35 * 2^182 + v37 * 2^208 + v38 * 2^234) + v59, hrun, ⟨h61, h63, h64, h65, h66, h67, h68, h69, h70, h71⟩, ?_⟩
  rw [← ph1]
  exact ph23

/-! ## Mul2 / SquareVal: the C05 statements -/

theorem mod_of_add_mul {X Y q p : Nat} (h : X + q * p = Y) : X % p = Y % p := by
  rw [← h, Nat.add_mul_mod_self_right]

set_option exponentiation.threshold 600 in
theorem mul2_spec (f a b : L10) (hf : f.U32) (ha : a.MagLE 8) (hb : b.MagLE 8) :
    ∃ o : L10, Field_Mul2.runW (f.toList ++ a.toList ++ b.toList) = o.toList ∧ o.MagLE 1 ∧
      o.val % P = (a.val * b.val) % P := by
  obtain ⟨x0, x1, x2, x3, x4, x5, x6, x7, x8, x9⟩ := f
  obtain ⟨a0, a1, a2, a3, a4, a5, a6, a7, a8, a9⟩ := a
  obtain ⟨b0, b1, b2, b3, b4, b5, b6, b7, b8, b9⟩ := b
  simp only [L10.U32] at hf
  simp only [L10.MagLE, Secp.Limbs.LB, Secp.Limbs.LB9] at ha hb
  have hin : Within [x0, x1, x2, x3, x4, x5, x6, x7, x8, x9, a0, a1, a2, a3, a4, a5, a6, a7, a8, a9,
      b0, b1, b2, b3, b4, b5, b6, b7, b8, b9] Field_Mul2_m8_in := by
    simp only [Within, inIval, Field_Mul2_m8_in, Nat.zero_le, true_and, and_true]
    omega
  obtain ⟨o0, o1, o2, o3, o4, o5, o6, o7, o8, o9, q, hrun, hb, hv⟩ := mul2_core _ _ _ _ _ _ _ _ _ _ _ _ _ _ _ _ _ _ _ _ _ _ _ _ _ _ _ _ _ _ hin
  refine ⟨⟨o0, o1, o2, o3, o4, o5, o6, o7, o8, o9⟩, hrun, ?_, ?_⟩
  · simp only [L10.MagLE, Secp.Limbs.LB, Secp.Limbs.LB9]
    omega
  · simp only [L10.val, P]
    rw [mod_of_add_mul hv]
    congr 1
    ring

set_option exponentiation.threshold 600 in
theorem square_spec (f a : L10) (hf : f.U32) (ha : a.MagLE 8) :
    ∃ o : L10, Field_SquareVal.runW (f.toList ++ a.toList) = o.toList ∧ o.MagLE 1 ∧
      o.val % P = (a.val * a.val) % P := by
  obtain ⟨x0, x1, x2, x3, x4, x5, x6, x7, x8, x9⟩ := f
  obtain ⟨a0, a1, a2, a3, a4, a5, a6, a7, a8, a9⟩ := a
  simp only [L10.U32] at hf
  simp only [L10.MagLE, Secp.Limbs.LB, Secp.Limbs.LB9] at ha
  have hin : Within [x0, x1, x2, x3, x4, x5, x6, x7, x8, x9, a0, a1, a2, a3, a4, a5, a6, a7, a8, a9]
      Field_SquareVal_m8_in := by
    simp only [Within, inIval, Field_SquareVal_m8_in, Nat.zero_le, true_and, and_true]
    omega
  obtain ⟨o0, o1, o2, o3, o4, o5, o6, o7, o8, o9, q, hrun, hb, hv⟩ := square_core _ _ _ _ _ _ _ _ _ _ _ _ _ _ _ _ _ _ _ _ hin
  refine ⟨⟨o0, o1, o2, o3, o4, o5, o6, o7, o8, o9⟩, hrun, ?_, ?_⟩
  · simp only [L10.MagLE, Secp.Limbs.LB, Secp.Limbs.LB9]
    omega
  · simp only [L10.val, P]
    rw [mod_of_add_mul hv]
    congr 1
    ring

/-! ## Normalize: lemmas -/

theorem and_mask_iff (M x y : Nat) (hx : x ≤ M) (hy : y ≤ M) : x &&& y = M ↔ x = M ∧ y = M := by
  constructor
  · intro h
    have h1 := Nat.and_le_left (n := x) (m := y)
    have h2 := Nat.and_le_right (n := x) (m := y)
    omega
  · rintro ⟨rfl, rfl⟩; exact Nat.and_self _

theorem and_le_of_le (M x y : Nat) (hx : x ≤ M) : x &&& y ≤ M :=
  Nat.le_trans Nat.and_le_left hx

theorem chain_iff (t2 t3 t4 t5 t6 t7 t8 : Nat) (h2 : t2 ≤ 67108863) (h3 : t3 ≤ 67108863) (h4 : t4 ≤ 67108863)
    (h5 : t5 ≤ 67108863) (h6 : t6 ≤ 67108863) (h7 : t7 ≤ 67108863) (h8 : t8 ≤ 67108863) :
    t8 &&& t7 &&& t6 &&& t5 &&& t4 &&& t3 &&& t2 = 67108863 ↔
      (t8 = 67108863 ∧ t7 = 67108863 ∧ t6 = 67108863 ∧ t5 = 67108863 ∧ t4 = 67108863 ∧ t3 = 67108863 ∧ t2 = 67108863) := by
  have l7 := and_le_of_le _ t8 t7 h8
  have l6 := and_le_of_le _ _ t6 l7
  have l5 := and_le_of_le _ _ t5 l6
  have l4 := and_le_of_le _ _ t4 l5
  have l3 := and_le_of_le _ _ t3 l4
  rw [and_mask_iff _ _ _ l3 h2, and_mask_iff _ _ _ l4 h3, and_mask_iff _ _ _ l5 h4, and_mask_iff _ _ _ l6 h5,
    and_mask_iff _ _ _ l7 h6, and_mask_iff _ _ _ h8 h7]
  tauto

set_option maxRecDepth 100000 in
/-- the "value ≥ P" mask of Normalize -/
theorem norm_mask (t0 t1 t2 t3 t4 t5 t6 t7 t8 t9 v21 v22 v23 v24 v25 v26 : Nat)
    (h0 : t0 ≤ 67108863) (h1 : t1 ≤ 67108863) (h2 : t2 ≤ 67108863) (h3 : t3 ≤ 67108863) (h4 : t4 ≤ 67108863)
    (h5 : t5 ≤ 67108863) (h6 : t6 ≤ 67108863) (h7 : t7 ≤ 67108863) (h8 : t8 ≤ 67108863) (h9 : t9 ≤ 4194367)
    (e21 : v21 = b2n (t9 == 4194303))
    (e22 : v22 = v21 &&& b2n (t8 &&& t7 &&& t6 &&& t5 &&& t4 &&& t3 &&& t2 == 67108863))
    (e23 : v23 = t1 + 64 + (t0 + 977) / 2 ^ 26)
    (e24 : v24 = b2n (decide (67108863 < v23)))
    (e25 : v25 = v22 &&& v24)
    (e26 : v26 = v25 ||| t9 / 2 ^ 22) :
    (v26 = 1 ∧ 115792089237316195423570985008687907853269984665640564039457584007908834671663 ≤
        t0 + t1 * 2^26 + t2 * 2^52 + t3 * 2^78 + t4 * 2^104 + t5 * 2^130 + t6 * 2^156 + t7 * 2^182 + t8 * 2^208 + t9 * 2^234) ∨
    (v26 = 0 ∧ t0 + t1 * 2^26 + t2 * 2^52 + t3 * 2^78 + t4 * 2^104 + t5 * 2^130 + t6 * 2^156 + t7 * 2^182 + t8 * 2^208 + t9 * 2^234
        < 115792089237316195423570985008687907853269984665640564039457584007908834671663) := by
  have hch := chain_iff t2 t3 t4 t5 t6 t7 t8 h2 h3 h4 h5 h6 h7 h8
  generalize t8 &&& t7 &&& t6 &&& t5 &&& t4 &&& t3 &&& t2 = ch at hch e22
  simp only [b2n, beq_iff_eq, decide_eq_true_eq] at e21 e22 e24
  by_cases c9 : t9 = 4194303
  · by_cases cch : ch = 67108863
    · by_cases c23 : 67108863 < v23
      · simp only [c9, cch, c23, if_true] at e21 e22 e24
        subst e21 e22 e24
        simp only [Nat.and_self] at e25
        have hd : t9 / 2 ^ 22 = 0 := by omega
        rw [hd, Nat.or_zero] at e26
        have := hch.1 cch
        left
        omega
      · simp only [c9, cch, c23, if_true, if_false] at e21 e22 e24
        subst e21 e22 e24
        simp only [Nat.and_zero] at e25
        have hd : t9 / 2 ^ 22 = 0 := by omega
        rw [hd, Nat.or_zero] at e26
        have := hch.1 cch
        right
        omega
    · simp only [c9, cch, if_true, if_false, Nat.and_zero] at e21 e22
      subst e22
      simp only [Nat.zero_and] at e25
      have hd : t9 / 2 ^ 22 = 0 := by omega
      rw [hd, Nat.or_zero] at e26
      have hn : ¬ (t8 = 67108863 ∧ t7 = 67108863 ∧ t6 = 67108863 ∧ t5 = 67108863 ∧ t4 = 67108863 ∧ t3 = 67108863 ∧ t2 = 67108863) :=
        fun h => cch (hch.2 h)
      clear hch cch e21 e23 e24
      right
      omega
  · simp only [c9, if_false] at e21
    subst e21
    simp only [Nat.zero_and] at e22
    subst e22
    simp only [Nat.zero_and] at e25
    subst e25
    rw [Nat.zero_or] at e26
    clear hch e23 e24
    omega

set_option maxRecDepth 100000 in
/-- first pass of Normalize: fold bits ≥ 256 once and propagate carries -/
theorem norm_pass1 (x0 x1 x2 x3 x4 x5 x6 x7 x8 x9 v0 v1 v2 v3 v4 v5 v6 v7 v8 v9 v10 v11 v12 v13 v14 v15 v16 v17 v18 v19 v20 : Nat)
    (e0 : v0 = x9 / 2 ^ 22)
    (e1 : v1 = x9 % 2 ^ 22)
    (e2 : v2 = x0 + v0 * 977)
    (e3 : v3 = v2 / 2 ^ 26 + x1 + v0 * 2 ^ 6)
    (e4 : v4 = v2 % 2 ^ 26 % 2 ^ 32)
    (e5 : v5 = v3 / 2 ^ 26 + x2)
    (e6 : v6 = v3 % 2 ^ 26 % 2 ^ 32)
    (e7 : v7 = v5 / 2 ^ 26 + x3)
    (e8 : v8 = v5 % 2 ^ 26 % 2 ^ 32)
    (e9 : v9 = v7 / 2 ^ 26 + x4)
    (e10 : v10 = v7 % 2 ^ 26 % 2 ^ 32)
    (e11 : v11 = v9 / 2 ^ 26 + x5)
    (e12 : v12 = v9 % 2 ^ 26 % 2 ^ 32)
    (e13 : v13 = v11 / 2 ^ 26 + x6)
    (e14 : v14 = v11 % 2 ^ 26 % 2 ^ 32)
    (e15 : v15 = v13 / 2 ^ 26 + x7)
    (e16 : v16 = v13 % 2 ^ 26 % 2 ^ 32)
    (e17 : v17 = v15 / 2 ^ 26 + x8)
    (e18 : v18 = v15 % 2 ^ 26 % 2 ^ 32)
    (e19 : v19 = (v17 / 2 ^ 26 + v1) % 2 ^ 32)
    (e20 : v20 = v17 % 2 ^ 26 % 2 ^ 32)
    (h17 : v17 ≤ 4294967359) :
    v4 + v6 * 2^26 + v8 * 2^52 + v10 * 2^78 + v12 * 2^104 + v14 * 2^130 + v16 * 2^156 + v18 * 2^182 + v20 * 2^208 + v19 * 2^234 + v0 * 115792089237316195423570985008687907853269984665640564039457584007908834671663 =
    x0 + x1 * 2^26 + x2 * 2^52 + x3 * 2^78 + x4 * 2^104 + x5 * 2^130 + x6 * 2^156 + x7 * 2^182 + x8 * 2^208 + x9 * 2^234 := by
  omega

set_option maxRecDepth 100000 in
/-- second pass of Normalize: conditionally subtract P -/
theorem norm_pass2 (t0 t1 t2 t3 t4 t5 t6 t7 t8 t9 v26 v27 v28 v29 v30 v31 v32 v33 v34 v35 v36 v37 v38 v39 v40 v41 v42 v43 v44 v45 v46 : Nat)
    (h0 : t0 ≤ 67108863) (h1 : t1 ≤ 67108863) (h2 : t2 ≤ 67108863) (h3 : t3 ≤ 67108863) (h4 : t4 ≤ 67108863)
    (h5 : t5 ≤ 67108863) (h6 : t6 ≤ 67108863) (h7 : t7 ≤ 67108863) (h8 : t8 ≤ 67108863) (h9 : t9 ≤ 4194367)
    (e27 : v27 = t0 + v26 * 977)
    (e28 : v28 = v27 / 2 ^ 26 + t1 + v26 * 2 ^ 6)
    (e29 : v29 = v27 % 2 ^ 26)
    (e30 : v30 = v28 / 2 ^ 26 + t2)
    (e31 : v31 = v28 % 2 ^ 26)
    (e32 : v32 = v30 / 2 ^ 26 + t3)
    (e33 : v33 = v30 % 2 ^ 26)
    (e34 : v34 = v32 / 2 ^ 26 + t4)
    (e35 : v35 = v32 % 2 ^ 26)
    (e36 : v36 = v34 / 2 ^ 26 + t5)
    (e37 : v37 = v34 % 2 ^ 26)
    (e38 : v38 = v36 / 2 ^ 26 + t6)
    (e39 : v39 = v36 % 2 ^ 26)
    (e40 : v40 = v38 / 2 ^ 26 + t7)
    (e41 : v41 = v38 % 2 ^ 26)
    (e42 : v42 = v40 / 2 ^ 26 + t8)
    (e43 : v43 = v40 % 2 ^ 26)
    (e44 : v44 = v42 / 2 ^ 26 + t9)
    (e45 : v45 = v42 % 2 ^ 26)
    (e46 : v46 = v44 % 2 ^ 22)
    (hm : (v26 = 1 ∧ 115792089237316195423570985008687907853269984665640564039457584007908834671663 ≤ t0 + t1 * 2^26 + t2 * 2^52 + t3 * 2^78 + t4 * 2^104 + t5 * 2^130 + t6 * 2^156 + t7 * 2^182 + t8 * 2^208 + t9 * 2^234) ∨
          (v26 = 0 ∧ t0 + t1 * 2^26 + t2 * 2^52 + t3 * 2^78 + t4 * 2^104 + t5 * 2^130 + t6 * 2^156 + t7 * 2^182 + t8 * 2^208 + t9 * 2^234 < 115792089237316195423570985008687907853269984665640564039457584007908834671663)) :
    v29 + v31 * 2^26 + v33 * 2^52 + v35 * 2^78 + v37 * 2^104 + v39 * 2^130 + v41 * 2^156 + v43 * 2^182 + v45 * 2^208 + v46 * 2^234 + v26 * 115792089237316195423570985008687907853269984665640564039457584007908834671663 =
      t0 + t1 * 2^26 + t2 * 2^52 + t3 * 2^78 + t4 * 2^104 + t5 * 2^130 + t6 * 2^156 + t7 * 2^182 + t8 * 2^208 + t9 * 2^234 ∧
    v29 + v31 * 2^26 + v33 * 2^52 + v35 * 2^78 + v37 * 2^104 + v39 * 2^130 + v41 * 2^156 + v43 * 2^182 + v45 * 2^208 + v46 * 2^234 < 115792089237316195423570985008687907853269984665640564039457584007908834671663 := by
  have hw : v29 + v31 * 2^26 + v33 * 2^52 + v35 * 2^78 + v37 * 2^104 + v39 * 2^130 + v41 * 2^156 + v43 * 2^182 + v45 * 2^208 + v44 * 2^234 =
      t0 + t1 * 2^26 + t2 * 2^52 + t3 * 2^78 + t4 * 2^104 + t5 * 2^130 + t6 * 2^156 + t7 * 2^182 + t8 * 2^208 + t9 * 2^234 + v26 * 4294968273 := by
    clear hm e46 h0 h1 h2 h3 h4 h5 h6 h7 h8 h9
    omega
  have b29 : v29 < 2^26 := by omega
  have b31 : v31 < 2^26 := by omega
  have b33 : v33 < 2^26 := by omega
  have b35 : v35 < 2^26 := by omega
  have b37 : v37 < 2^26 := by omega
  have b39 : v39 < 2^26 := by omega
  have b41 : v41 < 2^26 := by omega
  have b43 : v43 < 2^26 := by omega
  have b45 : v45 < 2^26 := by omega
  clear e27 e28 e29 e30 e31 e32 e33 e34 e35 e36 e37 e38 e39 e40 e41 e42 e43 e44 e45
  rcases hm with ⟨rfl, hm⟩ | ⟨rfl, hm⟩
  · omega
  · omega

/-! ## Normalize: the C05 statement -/

theorem tight_of_bounds (o0 o1 o2 o3 o4 o5 o6 o7 o8 o9 : Nat) (h0 : o0 ≤ 67108863) (h1 : o1 ≤ 67108863)
    (h2 : o2 ≤ 67108863) (h3 : o3 ≤ 67108863) (h4 : o4 ≤ 67108863) (h5 : o5 ≤ 67108863) (h6 : o6 ≤ 67108863)
    (h7 : o7 ≤ 67108863) (h8 : o8 ≤ 67108863) (h9 : o9 ≤ 4194303) :
    (⟨o0, o1, o2, o3, o4, o5, o6, o7, o8, o9⟩ : L10).Tight := by
  simp only [L10.Tight]
  omega

set_option maxHeartbeats 4000000 in
set_option maxRecDepth 100000 in
theorem normalize_spec (f : L10) (hf : f.U32) :
    ∃ o : L10, Field_Normalize.runW f.toList = o.toList ∧ o.Normalized ∧ o.val = f.val % P := by
  obtain ⟨x0, x1, x2, x3, x4, x5, x6, x7, x8, x9⟩ := f
  simp only [L10.U32] at hf
  have hin : Within [x0, x1, x2, x3, x4, x5, x6, x7, x8, x9] Field_Normalize_full_in := by
    simp only [Within, inIval, Field_Normalize_full_in, Nat.zero_le, true_and, and_true]
    omega
  have h := kernel_steps Field_Normalize _ _ _ _ hin Field_Normalize_full_mid_ok Field_Normalize_full_out_ok
  simp only [Field_Normalize, List.reverse_cons, List.reverse_nil, List.nil_append, List.cons_append] at h
  ir_steps h
  obtain ⟨hW, hrun⟩ := h.out
  simp only [Within, inIval, Field_Normalize_full_mid] at hW
  simp only [List.map, evalN, List.getD_cons_succ, List.getD_cons_zero] at hrun
  clear h hin
  obtain ⟨⟨-, h46⟩, ⟨-, h45⟩, -, ⟨-, h43⟩, -, ⟨-, h41⟩, -, ⟨-, h39⟩, -, ⟨-, h37⟩, -, ⟨-, h35⟩, -, ⟨-, h33⟩, -, ⟨-, h31⟩, -, ⟨-, h29⟩, -, -, -, -, -, -, -, -, ⟨-, h20⟩, ⟨-, h19⟩, ⟨-, h18⟩, ⟨-, h17⟩, ⟨-, h16⟩, -, ⟨-, h14⟩, -, ⟨-, h12⟩, -, ⟨-, h10⟩, -, ⟨-, h8⟩, -, ⟨-, h6⟩, -, ⟨-, h4⟩, -, -, -, -, -⟩ := hW
  have p1 := norm_pass1 x0 x1 x2 x3 x4 x5 x6 x7 x8 x9 v0 v1 v2 v3 v4 v5 v6 v7 v8 v9 v10 v11 v12 v13 v14 v15 v16 v17 v18 v19 v20 e0 e1 e2 e3 e4 e5 e6 e7 e8 e9 e10 e11 e12 e13 e14 e15 e16 e17 e18 e19 e20 h17
  have hm := norm_mask v4 v6 v8 v10 v12 v14 v16 v18 v20 v19 v21 v22 v23 v24 v25 v26 h4 h6 h8 h10 h12 h14 h16 h18 h20 h19 e21 e22 e23 e24 e25 e26
  obtain ⟨p2, plt⟩ := norm_pass2 v4 v6 v8 v10 v12 v14 v16 v18 v20 v19 v26 v27 v28 v29 v30 v31 v32 v33 v34 v35 v36 v37 v38 v39 v40 v41 v42 v43 v44 v45 v46 h4 h6 h8 h10 h12 h14 h16 h18 h20 h19 e27 e28 e29 e30 e31 e32 e33 e34 e35 e36 e37 e38 e39 e40 e41 e42 e43 e44 e45 e46 hm
  refine ⟨⟨v29, v31, v33, v35, v37, v39, v41, v43, v45, v46⟩, hrun, ⟨?_, ?_⟩, ?_⟩
  · exact tight_of_bounds _ _ _ _ _ _ _ _ _ _ h29 h31 h33 h35 h37 h39 h41 h43 h45 h46
  · simp only [L10.val, P]
    exact plt
  · simp only [L10.val, P]
    have hv : x0 + x1 * 2^26 + x2 * 2^52 + x3 * 2^78 + x4 * 2^104 + x5 * 2^130 + x6 * 2^156 + x7 * 2^182 + x8 * 2^208 + x9 * 2^234 =
        (v29 + v31 * 2^26 + v33 * 2^52 + v35 * 2^78 + v37 * 2^104 + v39 * 2^130 + v41 * 2^156 + v43 * 2^182 + v45 * 2^208 + v46 * 2^234) + (v26 + v0) * 115792089237316195423570985008687907853269984665640564039457584007908834671663 := by
      rw [← p1, ← p2]; ring
    rw [hv, Nat.add_mul_mod_self_right, Nat.mod_eq_of_lt plt]

end Secp.Proofs.FieldMul
