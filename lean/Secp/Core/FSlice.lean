import Secp.Core.FOp
/-
  Core/FSlice — sliced field programs (tools/gotr pass T2s).

  The point formulas of curve.go are extracted completely (T2, `FPath`).  The REST of the library
  that touches field values — Verify, sign, RecoverPublicKey, ParsePubKey and the serialisers, the
  prelude and loops of ScalarMultNonConst / ScalarBaseMultNonConst, ECDH, the crypto/elliptic
  adaptor, Schnorr, ecckd — mixes field arithmetic with scalars, hashes and byte buffers.  T2s keeps
  the field arithmetic of every path and slices the rest away; `absS` runs the same abstract
  interpretation (magnitude bound, normalised?) as `absPath`, extended by

    chk a m nrm    a method that reads limbs as a canonical value (PutBytes, Bytes, IsOddBit,
                   IsGtOrEqPrimeMinusOrder …) or a class invariant (a returned PublicKey):
                   register a must have magnitude ≤ m and be normalised when nrm
    havoc d m nrm  d is overwritten from outside the field layer (SetBytes / SetByteSlice, table)
    callC i regs   call of a routine that has its own verified contract: every listed point
                   register must be normalised; the written point becomes normalised
    loopBegin / loopEnd / loopBreak
                   one symbolic iteration: the state at loopEnd must be covered by the state at the
                   head (then every number of iterations is), and execution continues from the head
                   state; loopBreak leaves the loop with the current state

  Core-only.
-/
namespace Secp.FOp

inductive SItem where
  | p (it : PItem)
  | chk (a m : Nat) (nrm : Bool)
  | havoc (d m : Nat) (nrm : Bool)
  | callC (c : Nat) (args : List Nat)
  | loopBegin
  | loopEnd
  | loopBreak
  deriving Repr, DecidableEq, Inhabited

/-- contract of a called routine over its argument registers (aliasing already resolved by the
    variant): `pre[i] = some (m, nrm)` — argument i must have magnitude ≤ m and be normalised when nrm
    (`none`: no requirement, the register is only written); `post` — abstract value of the listed
    arguments after the call.  Every contract is justified by a theorem about the callee
    (`Secp.Props.C16.contracts_justified`). -/
structure Contract where
  name : String
  pre : List (Option (Nat × Bool))
  post : List (Nat × AV)
  deriving Repr, DecidableEq, Inhabited

structure SEntry where
  name : String
  nin : Nat
  σ0 : AState
  paths : List (List SItem)
  deriving Repr, Inhabited

/-- abstract value `a` is covered by `b`: every concrete value described by a is described by b -/
def avLE : Option AV → Option AV → Bool
  | _, none => true
  | none, some _ => false
  | some (m, n), some (m', n') => decide (m ≤ m') && (!n' || n)

/-- σ is covered by σh on every register of σh -/
def stLE (σ σh : AState) : Bool :=
  (List.range σh.length).all fun i => avLE (aget σ i) (aget σh i)

/-- the abstract value `v` meets the requirement `(m, nrm)` -/
def meets (v : Option AV) : Option (Nat × Bool) → Bool
  | none => true
  | some (m, nrm) => match v with
      | some (mv, nv) => decide (mv ≤ m) && (!nrm || nv)
      | none => false

def preOK (σ : AState) : List Nat → List (Option (Nat × Bool)) → Bool
  | [], [] => true
  | a :: as, r :: rs => meets (aget σ a) r && preOK σ as rs
  | _, _ => false

def applyPost (σ : AState) (args : List Nat) : List (Nat × AV) → AState
  | [] => σ
  | (i, av) :: rest => applyPost (aset σ (args.getD i 0) av) args rest

def postInRange (n : Nat) (post : List (Nat × AV)) : Bool := post.all fun (i, av) => decide (i < n) && decide (av.1 ≤ maxMag)

/-- the abstract interpreter for sliced paths; `stack` holds the loop-head states -/
def absS (cs : List Contract) : List SItem → AState → List AState → Option AState
  | [], σ, _ => some σ
  | .p (.op o) :: rest, σ, st => match stepA σ o with
      | none => none
      | some σ' => absS cs rest σ' st
  | .p (.assume c _) :: rest, σ, st => if condA σ c then absS cs rest σ st else none
  | .p (.call _ _) :: _, _, _ => none
  | .chk a m nrm :: rest, σ, st =>
      match aget σ a with
      | some (ma, na) => if ma ≤ m ∧ (nrm = true → na = true) then absS cs rest σ st else none
      | none => none
  | .havoc d m nrm :: rest, σ, st => if m ≤ maxMag then absS cs rest (aset σ d (m, nrm)) st else none
  | .callC c args :: rest, σ, st =>
      match cs[c]? with
      | none => none
      | some k =>
        if preOK σ args k.pre ∧ postInRange args.length k.post then
          absS cs rest (applyPost σ args k.post) st
        else none
  | .loopBegin :: rest, σ, st => absS cs rest σ (σ :: st)
  | .loopEnd :: rest, σ, st =>
      match st with
      | [] => none
      | σh :: st' => if stLE σ σh then absS cs rest σh st' else none
  | .loopBreak :: rest, σ, st =>
      match st with
      | [] => none
      | _ :: st' => absS cs rest σ st'

/-- index of the first item at which a path fails (diagnostics for the replay file) -/
def absSDiag (cs : List Contract) : List SItem → AState → List AState → Nat → Option Nat
  | [], _, _, _ => none
  | it :: rest, σ, st, k =>
    match it with
    | .p (.op o) => (match stepA σ o with
        | none => some k
        | some σ' => absSDiag cs rest σ' st (k + 1))
    | .p (.assume c _) => if condA σ c then absSDiag cs rest σ st (k + 1) else some k
    | .p (.call _ _) => some k
    | .chk a m nrm => (match aget σ a with
        | some (ma, na) => if ma ≤ m ∧ (nrm = true → na = true) then absSDiag cs rest σ st (k + 1) else some k
        | none => some k)
    | .havoc d m nrm => if m ≤ maxMag then absSDiag cs rest (aset σ d (m, nrm)) st (k + 1) else some k
    | .callC c args => (match cs[c]? with
        | none => some k
        | some kk =>
          if preOK σ args kk.pre ∧ postInRange args.length kk.post then
            absSDiag cs rest (applyPost σ args kk.post) st (k + 1)
          else some k)
    | .loopBegin => absSDiag cs rest σ (σ :: st) (k + 1)
    | .loopEnd => (match st with
        | [] => some k
        | σh :: st' => if stLE σ σh then absSDiag cs rest σh st' (k + 1) else some k)
    | .loopBreak => (match st with
        | [] => some k
        | _ :: st' => absSDiag cs rest σ st' (k + 1))

def SEntry.ok (cs : List Contract) (e : SEntry) : Bool :=
  e.paths.all fun p => (absS cs p e.σ0 []).isSome

/-- (entry name, path index, item index) of every failing path -/
def SEntry.failures (cs : List Contract) (e : SEntry) : List (String × Nat × Nat) :=
  (e.paths.zipIdx).filterMap fun (p, i) =>
    match absSDiag cs p e.σ0 [] 0 with
    | none => none
    | some k => some (e.name, i, k)

/-- all paths pass and end with the listed registers covered by the claimed abstract values -/
def SEntry.post (cs : List Contract) (e : SEntry) (post : List (Nat × AV)) : Bool :=
  e.paths.all fun p =>
    match absS cs p e.σ0 [] with
    | none => false
    | some σ => post.all fun (i, av) => avLE (aget σ i) (some av)

/-- the same for a completely extracted T2 entry -/
def Entry.absPost (e : Entry) (σ0 : AState) (post : List (Nat × AV)) : Bool :=
  e.paths.all fun p =>
    match absPath p.items σ0 with
    | none => false
    | some σ => post.all fun (i, av) => avLE (aget σ i) (some av)

def Contract.σ0 (c : Contract) : AState := c.pre.map fun r => r.map fun (m, nrm) => (m, nrm)

/-- the loop-free, call-free fragment: a sliced path without markers and calls is an ordinary `FPath`
    body once `havoc` is read as "copy from a fresh input register" and `chk` is dropped -/
def SItem.plain : SItem → Bool
  | .p (.op _) => true
  | .p (.assume _ _) => true
  | .chk _ _ _ => true
  | _ => false

end Secp.FOp
