module verifharness

go 1.21.3

require github.com/ModChain/secp256k1 v0.0.0

require (
	github.com/ModChain/base58 v1.0.0
	github.com/ModChain/blake256 v1.0.0
	golang.org/x/crypto v0.19.0
)

replace github.com/ModChain/secp256k1 => /repo
