import Secp.Model.Ecdsa
import Secp.Spec.Ecdsa
import Secp.Spec.Sec1
import Secp.Model.PubKey
/-
  Model/PointSpec — the contract between the protocol layer (ECDSA, Schnorr, ECDH, BIP32) and the
  point-arithmetic layer.  `PointSpec` states, in terms of the executable specification
  `Secp.Spec` (affine group law on ℕ), what C03 (scalar multiplication) and C04 (addition /
  doubling / ToAffine) establish about the models that run the REGENERATED formula programs.
  Protocol theorems take `PointSpec` as a hypothesis; `Secp.Props.C03/C04` discharge its fields.
-/
namespace Secp.Model
open Secp.Spec

/-- a Jacobian triple with canonical coordinates that is the identity (in any encoding the code
    recognises) or satisfies the projective curve equation Y² = X³ + 7·Z⁶ -/
def Jac.WF (q : Jac) : Prop :=
  q.1 < P ∧ q.2.1 < P ∧ q.2.2 < P ∧
  (isInfJ q = true ∨ fsq q.2.1 = fadd (fmul (fsq q.1) q.1) (fmul 7 (fmul (fsq (fmul (fsq q.2.2) q.2.2)) 1)))

/-- what C04 establishes about the regenerated point routines, as used by the scalar-multiplication
    loops: addition into the first operand (`AddNonConst(&q, p, &q)`), in-place doubling, addition with a
    distinct result, ToAffine, and the DecompressY program -/
structure PointOps : Prop where
  add : ∀ q p, Jac.WF q → Jac.WF p → Jac.WF (addNC q p) ∧ Jac.toPt (addNC q p) = Pt.add (Jac.toPt q) (Jac.toPt p)
  dbl : ∀ q, Jac.WF q → Jac.WF (dblNC q) ∧ Jac.toPt (dblNC q) = Pt.dbl (Jac.toPt q)
  add3 : ∀ a b, Jac.WF a → Jac.WF b →
    Jac.WF (addNC3 a b) ∧ Jac.toPt (addNC3 a b) = Pt.add (Jac.toPt a) (Jac.toPt b)
  toAffine : ∀ q x y, Jac.WF q → Jac.toPt q = some (x, y) → toAffineJ q = (x, y, 1)
  decompress : ∀ x odd, x < P → decompressYJ x odd = decompressY x odd

/-- every affine point of the curve is a multiple of G (the group is cyclic of prime order N, cofactor 1) -/
def Cyclic : Prop := ∀ x y, OnCurve x y → ∃ m, smul m G = some (x, y)

structure PointSpec : Prop where
  /-- base-point multiplication (C03) -/
  sbmul : ∀ k, k < N → Jac.WF (scalarBaseMultNC k) ∧ Jac.toPt (scalarBaseMultNC k) = smul k G
  /-- variable-point multiplication on an affine input (C03) -/
  smulA : ∀ k x y, k < N → OnCurve x y →
    Jac.WF (scalarMultNC k (x, y, 1)) ∧ Jac.toPt (scalarMultNC k (x, y, 1)) = smul k (some (x, y))
  /-- addition with distinct result object (C04) -/
  add3 : ∀ a b, Jac.WF a → Jac.WF b →
    Jac.WF (addNC3 a b) ∧ Jac.toPt (addNC3 a b) = Pt.add (Jac.toPt a) (Jac.toPt b)
  /-- ToAffine of a finite point yields its affine coordinates with Z = 1 (C04/C05) -/
  toAffine : ∀ q x y, Jac.WF q → Jac.toPt q = some (x, y) → toAffineJ q = (x, y, 1)
  /-- the generated DecompressY program computes the square-root candidate test (C05) -/
  decompress : ∀ x odd, x < P → decompressYJ x odd = decompressY x odd

end Secp.Model
