import Secp.Model.PubKeyRules
import Secp.Proofs.FieldBridge
import Mathlib.Data.List.Induction
import Mathlib.Algebra.Ring.Commute
import Mathlib.Tactic.Ring
import Mathlib.Tactic.SplitIfs
/-
  Proofs/PubKey — lemmas behind Props/C08 (public-key parsing / serialisation).
-/
namespace Secp.Proofs.PubKey
open Secp.Spec Secp.Model Secp.Proofs

/-- `OnCurve` is a closed conjunction of `Nat` comparisons; the non-vacuity example in
    Props/C08 checks it by `decide +kernel` -/
instance instDecidableOnCurve (x y : Nat) : Decidable (OnCurve x y) := by
  unfold OnCurve; infer_instance

/-! ### big-endian bytes -/

theorem beBytes_length (len n : Nat) : (beBytes len n).length = len := by
  induction len generalizing n with
  | zero => rfl
  | succ k ih => simp [beBytes, ih]

theorem be32_length (n : Nat) : (be32 n).length = 32 := beBytes_length 32 n

theorem beNat_concat (a : Bytes) (x : UInt8) : beNat (a ++ [x]) = beNat a * 256 + x.toNat := by
  simp [beNat, List.foldl_append]

theorem beNat_beBytes (len n : Nat) : beNat (beBytes len n) = n % 256 ^ len := by
  induction len generalizing n with
  | zero => simp [beBytes, beNat, Nat.mod_one]
  | succ k ih =>
    rw [beBytes, beNat_concat, ih, UInt8.toNat_ofNat']
    have h : n % 256 % 2 ^ 8 = n % 256 := Nat.mod_eq_of_lt (Nat.mod_lt _ (by decide))
    rw [h, Nat.pow_succ', Nat.mod_mul]
    omega

theorem P_lt_pow : P < 256 ^ 32 := by decide +kernel

theorem beNat_be32 {v : Nat} (h : v < P) : beNat (be32 v) = v := by
  unfold be32
  rw [beNat_beBytes]
  exact Nat.mod_eq_of_lt (Nat.lt_trans h P_lt_pow)

theorem beBytes_beNat (b : Bytes) : beBytes b.length (beNat b) = b := by
  induction b using List.reverseRecOn with
  | nil => rfl
  | append_singleton a x ih =>
    rw [List.length_append, List.length_singleton, beBytes, beNat_concat]
    have hx : x.toNat < 256 := x.toNat_lt
    have h1 : (beNat a * 256 + x.toNat) / 256 = beNat a := by omega
    have h2 : (beNat a * 256 + x.toNat) % 256 = x.toNat := by omega
    rw [h1, h2, ih, UInt8.ofNat_toNat]

theorem be32_beNat {b : Bytes} (h : b.length = 32) : be32 (beNat b) = b := by
  have := beBytes_beNat b
  rw [h] at this
  exact this

/-! ### the curve equation -/

theorem P_odd : P % 2 = 1 := by decide +kernel

/-- the model's right-hand side `x³ + 7` -/
theorem rhs_eq (x : Nat) : fadd (fmul (fsq x) x) 7 = (x * x * x + 7) % P := by
  apply eq_of_cast_eq_P (fadd_lt _ _) (Nat.mod_lt _ P_pos)
  rw [fadd_cast, fmul_cast, fsq_cast, ZMod.natCast_mod]
  push_cast
  ring

theorem isOnCurveM_iff (x y : Nat) :
    isOnCurveM x y = true ↔ (y * y) % P = (x * x * x + 7) % P := by
  unfold isOnCurveM
  rw [rhs_eq, beq_iff_eq]
  rfl

/-- no point of the curve has `y = 0` (−7 is not a cube mod P) -/
theorem rhs_ne_zero (x : Nat) : (x * x * x + 7) % P ≠ 0 := by
  intro h
  apply neg7_not_cube
  refine ⟨(x : ZMod P), ?_⟩
  have h0 : ((x * x * x + 7 : Nat) : ZMod P) = ((0 : Nat) : ZMod P) := by
    rw [← mod_P_eq_iff, h, Nat.zero_mod]
  push_cast at h0
  rw [eq_neg_iff_add_eq_zero, ← h0]
  ring

theorem y_ne_zero {x y : Nat} (h : (y * y) % P = (x * x * x + 7) % P) : y ≠ 0 := by
  rintro rfl
  exact rhs_ne_zero x (by rw [← h]; rfl)

/-- negation of a non-zero canonical value -/
theorem fneg_eq {c : Nat} (h0 : c ≠ 0) (hc : c < P) : fneg c = P - c := by
  unfold fneg
  rw [Nat.mod_eq_of_lt hc, Nat.mod_eq_of_lt (by omega)]

theorem fneg_parity {c : Nat} (h0 : c ≠ 0) (hc : c < P) : (fneg c) % 2 ≠ c % 2 := by
  rw [fneg_eq h0 hc]
  have := P_odd
  omega

/-- the two square roots -/
theorem root_cases {y c : Nat} (hy : y < P) (hc : c < P) (h : (y * y) % P = (c * c) % P) :
    y = c ∨ y = fneg c := by
  have h1 : (y : ZMod P) * (y : ZMod P) = (c : ZMod P) * (c : ZMod P) := by
    rw [← Nat.cast_mul, ← Nat.cast_mul]
    exact (mod_P_eq_iff _ _).1 h
  rcases mul_self_eq_mul_self_iff.1 h1 with h2 | h2
  · exact Or.inl (eq_of_cast_eq_P hy hc h2)
  · right
    apply eq_of_cast_eq_P hy (fneg_lt c)
    rw [fneg_cast]
    exact h2

theorem fneg_sq (c : Nat) : (fneg c * fneg c) % P = (c * c) % P := by
  rw [mod_P_eq_iff]
  push_cast
  rw [fneg_cast]
  ring

/-! ### `decompressY` -/

theorem par_iff (n : Nat) (odd : Bool) :
    ((n % 2 == 1) = odd) ↔ n % 2 = (if odd then 1 else 0) := by
  cases odd <;> simp

theorem pick_iff {c a : Nat} (y : Nat) (odd : Bool) (hc : c < P) (hcc : (c * c) % P = a)
    (ha0 : a ≠ 0) :
    (if ((c % 2 == 1) != odd) = true then fneg c else c) = y ↔
      (y < P ∧ (y * y) % P = a ∧ (y % 2 == 1) = odd) := by
  have hc0 : c ≠ 0 := by
    rintro rfl
    exact ha0 (by rw [← hcc]; rfl)
  have hpar := fneg_parity hc0 hc
  have hcm := Nat.mod_two_eq_zero_or_one c
  have hfm := Nat.mod_two_eq_zero_or_one (fneg c)
  by_cases hcond : ((c % 2 == 1) != odd) = true
  · rw [if_pos hcond]
    have hne : ¬ ((c % 2 == 1) = odd) := by
      rw [bne_iff_ne] at hcond; exact hcond
    rw [par_iff] at hne
    constructor
    · rintro rfl
      refine ⟨fneg_lt c, by rw [fneg_sq, hcc], ?_⟩
      rw [par_iff]
      cases odd
      · rw [if_neg Bool.false_ne_true] at hne ⊢; omega
      · rw [if_pos rfl] at hne ⊢; omega
    · rintro ⟨hy, hyy, hp⟩
      rw [par_iff] at hp
      rcases root_cases hy hc (hyy.trans hcc.symm) with rfl | rfl
      · exact absurd hp hne
      · rfl
  · rw [if_neg hcond]
    have he : (c % 2 == 1) = odd := by
      rw [bne_iff_ne, Ne, not_not] at hcond; exact hcond
    constructor
    · rintro rfl
      exact ⟨hc, hcc, he⟩
    · rintro ⟨hy, hyy, hp⟩
      rcases root_cases hy hc (hyy.trans hcc.symm) with rfl | rfl
      · rfl
      · exfalso
        rw [par_iff] at he hp
        cases odd
        · rw [if_neg Bool.false_ne_true] at he hp; omega
        · rw [if_pos rfl] at he hp; omega

theorem decompressY_iff (x y : Nat) (odd : Bool) :
    decompressY x odd = some y ↔
      (y < P ∧ (y * y) % P = (x * x * x + 7) % P ∧ (y % 2 == 1) = odd) := by
  unfold decompressY
  simp only [rhs_eq]
  generalize ha : (x * x * x + 7) % P = a
  have ha0 : a ≠ 0 := ha ▸ rhs_ne_zero x
  have haP : a % P = a := by rw [← ha, Nat.mod_mod]
  by_cases hsq : fsq (fsqrtCand a) = a
  · rw [if_pos (by rw [beq_iff_eq]; exact hsq), Option.some_inj]
    exact pick_iff y odd (fsqrtCand_lt a) hsq ha0
  · rw [if_neg (by rw [beq_iff_eq]; exact hsq)]
    constructor
    · intro h; exact absurd h (by simp)
    · rintro ⟨_, hyy, _⟩
      exfalso
      apply hsq
      have := (fsqrtCand_spec a).2 ⟨(y : ZMod P), by
        rw [← Nat.cast_mul]; exact ((mod_P_eq_iff _ _).1 (hyy.trans haP.symm)).symm⟩
      rw [this, haP]

theorem decompressY_none_iff (x : Nat) (odd : Bool) :
    decompressY x odd = none ↔ ¬ ∃ y, y < P ∧ (y * y) % P = (x * x * x + 7) % P := by
  constructor
  · rintro h ⟨y, hy, hyy⟩
    have h1 := (decompressY_iff x y (y % 2 == 1)).2 ⟨hy, hyy, rfl⟩
    have h2 := (decompressY_iff x (fneg y) (fneg y % 2 == 1)).2
      ⟨fneg_lt y, by rw [fneg_sq, hyy], rfl⟩
    have hy0 := y_ne_zero hyy
    have hp := fneg_parity hy0 hy
    have e1 := Nat.mod_two_eq_zero_or_one y
    have e2 := Nat.mod_two_eq_zero_or_one (fneg y)
    cases odd
    · rcases e1 with e | e
      · rw [e] at h1; rw [show ((0:Nat) == 1) = false from rfl, h] at h1; cases h1
      · have e' : fneg y % 2 = 0 := by omega
        rw [e'] at h2; rw [show ((0:Nat) == 1) = false from rfl, h] at h2; cases h2
    · rcases e1 with e | e
      · have e' : fneg y % 2 = 1 := by omega
        rw [e'] at h2; rw [show ((1:Nat) == 1) = true from rfl, h] at h2; cases h2
      · rw [e] at h1; rw [show ((1:Nat) == 1) = true from rfl, h] at h1; cases h1
  · intro h
    cases hd : decompressY x odd with
    | none => rfl
    | some y =>
      obtain ⟨hy, hyy, _⟩ := (decompressY_iff x y odd).1 hd
      exact absurd ⟨y, hy, hyy⟩ h

/-! ### `parsePubKey` unfolded on the two accepted lengths -/

theorem parse65_eq (f : UInt8) (t : Bytes) (ht : t.length = 64) :
    parsePubKey (f :: t) =
      if f ≠ 0x04 ∧ f ≠ 0x06 ∧ f ≠ 0x07 then .err .ErrPubKeyInvalidFormat else
      if beNat (t.take 32) ≥ P then .err .ErrPubKeyXTooBig else
      if beNat (t.drop 32) ≥ P then .err .ErrPubKeyYTooBig else
      if (f = 0x06 ∨ f = 0x07) ∧ ((beNat (t.drop 32) % 2 == 1) != (f == 0x07)) then
        .err .ErrPubKeyMismatchedOddness else
      if ¬ isOnCurveM (beNat (t.take 32)) (beNat (t.drop 32)) then .err .ErrPubKeyNotOnCurve else
      .ok (beNat (t.take 32), beNat (t.drop 32)) := by
  simp [parsePubKey, idx, slice, sliceFrom, fieldSetBytes32, ht]

theorem parse33_eq (f : UInt8) (t : Bytes) (ht : t.length = 32) :
    parsePubKey (f :: t) =
      if f ≠ 0x02 ∧ f ≠ 0x03 then .err .ErrPubKeyInvalidFormat else
      if beNat t ≥ P then .err .ErrPubKeyXTooBig else
      match decompressY (beNat t) (f == 0x03) with
      | none => .err .ErrPubKeyNotOnCurve
      | some y => .ok (beNat t, y) := by
  have h1 : List.take 32 t = t := List.take_of_length_le (by omega)
  have h2 : (f :: t).length = 33 := by rw [List.length_cons, ht]
  unfold parsePubKey
  rw [if_neg (by rw [h2]; decide), if_pos h2]
  simp [idx, slice, fieldSetBytes32, ht, h1]
  split_ifs
  · rfl
  · rfl
  · cases decompressY (beNat t) (f == 3) <;> rfl

theorem parse_other (b : Bytes) (h1 : b.length ≠ 65) (h2 : b.length ≠ 33) :
    parsePubKey b = .err .ErrPubKeyInvalidLen := by
  simp [parsePubKey, h1, h2]

theorem exists_cons {b : Bytes} {n : Nat} (h : b.length = n + 1) :
    ∃ f t, b = f :: t ∧ t.length = n := by
  cases b with
  | nil => simp at h
  | cons f t => exact ⟨f, t, rfl, by simpa using h⟩

/-! ### valid encodings are accepted -/

theorem parse65_of (f : UInt8) (x y : Nat) (h : OnCurve x y)
    (hf : f = 0x04 ∨ (f = 0x06 ∧ y % 2 = 0) ∨ (f = 0x07 ∧ y % 2 = 1)) :
    parsePubKey (f :: be32 x ++ be32 y) = .ok (x, y) := by
  obtain ⟨hx, hy, hc⟩ := h
  have hon : ¬ ¬ (isOnCurveM x y = true) := not_not.2 ((isOnCurveM_iff x y).2 hc)
  have hlen : (be32 x ++ be32 y).length = 64 := by
    rw [List.length_append, be32_length, be32_length]
  rw [List.cons_append, parse65_eq _ _ hlen, List.take_left' (be32_length x),
    List.drop_left' (be32_length x), beNat_be32 hx, beNat_be32 hy,
    if_neg (Nat.not_le.2 hx), if_neg (Nat.not_le.2 hy), if_neg hon]
  rcases hf with rfl | ⟨rfl, hp⟩ | ⟨rfl, hp⟩
  · rfl
  · rw [hp]; rfl
  · rw [hp]; rfl

theorem parse33_of (x y : Nat) (h : OnCurve x y) :
    parsePubKey ((if y % 2 = 1 then (0x03 : UInt8) else 0x02) :: be32 x) = .ok (x, y) := by
  obtain ⟨hx, hy, hc⟩ := h
  rw [parse33_eq _ _ (be32_length x), beNat_be32 hx, if_neg (Nat.not_le.2 hx)]
  by_cases hp : y % 2 = 1
  · have hd : decompressY x ((0x03 : UInt8) == 0x03) = some y :=
      (decompressY_iff x y _).2 ⟨hy, hc, by rw [hp]; rfl⟩
    rw [if_pos hp, hd]
    rfl
  · have hp0 : y % 2 = 0 := by omega
    have hd : decompressY x ((0x02 : UInt8) == 0x03) = some y :=
      (decompressY_iff x y _).2 ⟨hy, hc, by rw [hp0]; rfl⟩
    rw [if_neg hp, hd]
    rfl

theorem parse_serialize_compressed (x y : Nat) (h : OnCurve x y) :
    parsePubKey (serializeCompressed x y) = .ok (x, y) := parse33_of x y h

theorem parse_serialize_uncompressed (x y : Nat) (h : OnCurve x y) :
    parsePubKey (serializeUncompressed x y) = .ok (x, y) := parse65_of _ x y h (Or.inl rfl)

theorem parse_of_valid (b : Bytes) (x y : Nat) (h : ValidSEC1 b x y) :
    parsePubKey b = .ok (x, y) := by
  obtain ⟨hc, rfl | rfl | rfl⟩ := h
  · exact parse65_of _ x y hc (Or.inl rfl)
  · apply parse65_of _ x y hc
    by_cases hp : y % 2 = 1
    · rw [if_pos hp]; exact Or.inr (Or.inr ⟨rfl, hp⟩)
    · rw [if_neg hp]; exact Or.inr (Or.inl ⟨rfl, by omega⟩)
  · exact parse33_of x y hc

/-! ### accepted inputs are valid encodings -/

theorem parse65_ok {f : UInt8} {t : Bytes} {x y : Nat} (ht : t.length = 64)
    (h : parsePubKey (f :: t) = .ok (x, y)) :
    x = beNat (t.take 32) ∧ y = beNat (t.drop 32) ∧ OnCurve x y ∧
      (f = 0x04 ∨ (f = 0x06 ∧ y % 2 = 0) ∨ (f = 0x07 ∧ y % 2 = 1)) := by
  rw [parse65_eq f t ht] at h
  split_ifs at h with h1 h2 h3 h4 h5
  injection h with h
  injection h with hx hy
  subst hx hy
  have hon := (isOnCurveM_iff _ _).1 h5
  refine ⟨rfl, rfl, ⟨Nat.not_le.1 h2, Nat.not_le.1 h3, hon⟩, ?_⟩
  by_cases a4 : f = 0x04
  · exact Or.inl a4
  by_cases a6 : f = 0x06
  · subst a6
    refine Or.inr (Or.inl ⟨rfl, ?_⟩)
    by_contra hne
    have : beNat (List.drop 32 t) % 2 = 1 := by omega
    apply h4
    rw [this]
    exact ⟨Or.inl rfl, rfl⟩
  by_cases a7 : f = 0x07
  · subst a7
    refine Or.inr (Or.inr ⟨rfl, ?_⟩)
    by_contra hne
    have : beNat (List.drop 32 t) % 2 = 0 := by omega
    apply h4
    rw [this]
    exact ⟨Or.inr rfl, rfl⟩
  exact absurd ⟨a4, a6, a7⟩ h1

theorem parse33_ok {f : UInt8} {t : Bytes} {x y : Nat} (ht : t.length = 32)
    (h : parsePubKey (f :: t) = .ok (x, y)) :
    x = beNat t ∧ x < P ∧ (f = 0x02 ∨ f = 0x03) ∧ decompressY x (f == 0x03) = some y := by
  rw [parse33_eq f t ht] at h
  split_ifs at h with h1 h2
  cases hd : decompressY (beNat t) (f == 0x03) with
  | none => rw [hd] at h; cases h
  | some y' =>
    rw [hd] at h
    injection h with h
    injection h with hx hy
    subst hx hy
    refine ⟨rfl, Nat.not_le.1 h2, ?_, hd⟩
    by_cases a2 : f = 0x02
    · exact Or.inl a2
    by_cases a3 : f = 0x03
    · exact Or.inr a3
    exact absurd ⟨a2, a3⟩ h1

theorem valid_of_parse (b : Bytes) (x y : Nat) (h : parsePubKey b = .ok (x, y)) :
    ValidSEC1 b x y := by
  by_cases h65 : b.length = 65
  · obtain ⟨f, t, rfl, ht⟩ := exists_cons h65
    obtain ⟨hx, hy, hc, hf⟩ := parse65_ok ht h
    have ex : be32 x = t.take 32 := by
      rw [hx]; exact be32_beNat (by rw [List.length_take, ht]; rfl)
    have ey : be32 y = t.drop 32 := by
      rw [hy]; exact be32_beNat (by rw [List.length_drop, ht])
    have et : be32 x ++ be32 y = t := by rw [ex, ey, List.take_append_drop]
    refine ⟨hc, ?_⟩
    rcases hf with rfl | ⟨rfl, hp⟩ | ⟨rfl, hp⟩
    · left; rw [List.cons_append, et]
    · right; left
      rw [if_neg (by omega), List.cons_append, et]
    · right; left
      rw [if_pos hp, List.cons_append, et]
  by_cases h33 : b.length = 33
  · obtain ⟨f, t, rfl, ht⟩ := exists_cons h33
    obtain ⟨hx, hxP, hf, hd⟩ := parse33_ok ht h
    obtain ⟨hy, hc, hp⟩ := (decompressY_iff x y _).1 hd
    have ex : be32 x = t := by rw [hx]; exact be32_beNat ht
    refine ⟨⟨hxP, hy, hc⟩, Or.inr (Or.inr ?_)⟩
    rw [ex]
    rw [par_iff] at hp
    rcases hf with rfl | rfl
    · rw [if_neg (by decide)] at hp
      rw [if_neg (by omega)]
    · rw [if_pos (by decide)] at hp
      rw [if_pos hp]
  · rw [parse_other b h65 h33] at h
    cases h

theorem parse_iff (b : Bytes) (x y : Nat) : parsePubKey b = .ok (x, y) ↔ ValidSEC1 b x y :=
  ⟨valid_of_parse b x y, parse_of_valid b x y⟩

/-! ### no panic, sound errors -/

theorem parsePubKey_no_panic (b : Bytes) : parsePubKey b ≠ .panic := by
  by_cases h65 : b.length = 65
  · obtain ⟨f, t, rfl, ht⟩ := exists_cons h65
    rw [parse65_eq f t ht]
    split_ifs <;> (intro h; cases h)
  by_cases h33 : b.length = 33
  · obtain ⟨f, t, rfl, ht⟩ := exists_cons h33
    rw [parse33_eq f t ht]
    split_ifs
    · (intro h; cases h)
    · (intro h; cases h)
    · cases decompressY (beNat t) (f == 0x03) <;> (intro h; cases h)
  · rw [parse_other b h65 h33]
    (intro h; cases h)

theorem parse_err_sound (b : Bytes) (e : PubErr) (h : parsePubKey b = .err e) :
    PubViolates b e := by
  by_cases h65 : b.length = 65
  · obtain ⟨f, t, rfl, ht⟩ := exists_cons h65
    rw [parse65_eq f t ht] at h
    have h0 : (f :: t)[0]? = some f := rfl
    have hX : ((f :: t).take 33).drop 1 = t.take 32 := rfl
    have hY : (f :: t).drop 33 = t.drop 32 := rfl
    split_ifs at h with h1 h2 h3 h4 h5
    · injection h with h; subst h
      refine Or.inl ⟨h65, ?_, ?_, ?_⟩ <;> rw [h0, Ne, Option.some_inj]
      · exact h1.1
      · exact h1.2.1
      · exact h1.2.2
    · injection h with h; subst h
      show beNat (((f :: t).take 33).drop 1) ≥ P
      rw [hX]; exact h2
    · injection h with h; subst h
      show _ ∧ beNat ((f :: t).drop 33) ≥ P
      rw [hY]; exact ⟨h65, h3⟩
    · injection h with h; subst h
      show _ ∧ (_ ∨ _)
      rw [hY, h0, Option.some_inj, Option.some_inj]
      refine ⟨h65, ?_⟩
      obtain ⟨hf, hp⟩ := h4
      have e2 := Nat.mod_two_eq_zero_or_one (beNat (List.drop 32 t))
      rcases hf with rfl | rfl
      · left
        refine ⟨rfl, ?_⟩
        rcases e2 with e | e
        · rw [e] at hp; exact absurd hp (by decide)
        · exact e
      · right
        refine ⟨rfl, ?_⟩
        rcases e2 with e | e
        · exact e
        · rw [e] at hp; exact absurd hp (by decide)
    · injection h with h; subst h
      refine Or.inl ⟨h65, ?_⟩
      rw [hX, hY]
      rintro ⟨_, _, hc⟩
      exact h5 ((isOnCurveM_iff _ _).2 hc)
  by_cases h33 : b.length = 33
  · obtain ⟨f, t, rfl, ht⟩ := exists_cons h33
    rw [parse33_eq f t ht] at h
    have h0 : (f :: t)[0]? = some f := rfl
    have hX : ((f :: t).take 33).drop 1 = t := by
      show t.take 32 = t
      exact List.take_of_length_le (by omega)
    split_ifs at h with h1 h2
    · injection h with h; subst h
      refine Or.inr ⟨h33, ?_, ?_⟩ <;> rw [h0, Ne, Option.some_inj]
      · exact h1.1
      · exact h1.2
    · injection h with h; subst h
      show beNat (((f :: t).take 33).drop 1) ≥ P
      rw [hX]; exact h2
    · cases hd : decompressY (beNat t) (f == 0x03) with
      | some y' => rw [hd] at h; cases h
      | none =>
        rw [hd] at h
        injection h with h; subst h
        refine Or.inr ⟨h33, ?_⟩
        rw [hX]
        rintro ⟨y, _, hy, hc⟩
        exact (decompressY_none_iff _ _).1 hd ⟨y, hy, hc⟩
  · rw [parse_other b h65 h33] at h
    injection h with h; subst h
    exact ⟨h33, h65⟩

/-! ### canonical round trips -/

theorem tag_ne {y : Nat} {a b c : UInt8} (ha : a ≠ c) (hb : b ≠ c) {t : Bytes}
    (h : ((if y % 2 = 1 then a else b) :: t)[0]? = some c) : False := by
  have h' : some (if y % 2 = 1 then a else b) = some c := h
  rw [Option.some_inj] at h'
  split_ifs at h'
  · exact ha h'
  · exact hb h'

theorem serialize_parse_compressed (b : Bytes) (x y : Nat) (hb : b.length = 33)
    (h : parsePubKey b = .ok (x, y)) : serializeCompressed x y = b := by
  obtain ⟨_, rfl | rfl | rfl⟩ := valid_of_parse b x y h
  · rw [List.cons_append, List.length_cons, List.length_append, be32_length, be32_length] at hb
    cases hb
  · rw [List.cons_append, List.length_cons, List.length_append, be32_length, be32_length] at hb
    cases hb
  · rfl

theorem serialize_parse_uncompressed (b : Bytes) (x y : Nat) (hb : b[0]? = some 0x04)
    (h : parsePubKey b = .ok (x, y)) : serializeUncompressed x y = b := by
  obtain ⟨_, rfl | rfl | rfl⟩ := valid_of_parse b x y h
  · rfl
  · exact (tag_ne (by decide) (by decide) hb).elim
  · exact (tag_ne (by decide) (by decide) hb).elim

theorem serialize_parse_hybrid (b : Bytes) (x y : Nat)
    (hb : b[0]? = some 0x06 ∨ b[0]? = some 0x07)
    (h : parsePubKey b = .ok (x, y)) :
    serializeUncompressed x y = (0x04 : UInt8) :: b.drop 1 := by
  obtain ⟨_, rfl | rfl | rfl⟩ := valid_of_parse b x y h
  · rcases hb with hb | hb <;> exact absurd (Option.some_inj.1 hb) (by decide)
  · rfl
  · rcases hb with hb | hb <;> exact (tag_ne (by decide) (by decide) hb).elim

/-! ### Schnorr (BIP-340 style) wrapper -/

theorem schnorr_eq (f : UInt8) (t : Bytes) (ht : t.length = 32) :
    schnorrParsePubKey false (f :: t) =
      if f &&& 0xFE ≠ 0x02 then .err .SchnorrWrongType else parsePubKey (f :: t) := by
  simp [schnorrParsePubKey, idx, ht]

theorem schnorr_badsize (b : Bytes) (h : b.length ≠ 33) :
    schnorrParsePubKey false b = .err .SchnorrBadSize := by
  simp [schnorrParsePubKey, h]

theorem schnorr_parse_iff (b : Bytes) (x y : Nat) :
    schnorrParsePubKey false b = .ok (x, y) ↔ (b.length = 33 ∧ ValidSEC1 b x y) := by
  by_cases h33 : b.length = 33
  · obtain ⟨f, t, rfl, ht⟩ := exists_cons h33
    rw [schnorr_eq f t ht]
    constructor
    · intro h
      split_ifs at h
      exact ⟨h33, valid_of_parse _ x y h⟩
    · rintro ⟨_, hv⟩
      have hp := parse_of_valid _ x y hv
      obtain ⟨_, _, hf, _⟩ := parse33_ok ht hp
      rw [hp]
      rcases hf with rfl | rfl
      · rw [if_neg (by decide)]
      · rw [if_neg (by decide)]
  · rw [schnorr_badsize b h33]
    constructor
    · intro h; cases h
    · rintro ⟨h, _⟩; exact absurd h h33

end Secp.Proofs.PubKey
