/-
  Proofs/PointOpsGlue — from the polynomial description of a routine's outputs to the statement
  about `Jac.WF` / `Jac.toPt` / `Pt.add` / `Pt.dbl`; the contracts the add routines and
  DoubleNonConst satisfy, and the generic theorem combining them.
-/
import Secp.Proofs.PointOpsBase
import Secp.Proofs.PointOpsField

namespace Secp.Proofs.PointOps
open Secp.Spec Secp.Model Secp.FOp Secp.Proofs Secp.Proofs.SpecGroup

theorem cast_eq_zero_iff_of_lt {a : Nat} (ha : a < P) : (a : F) = 0 ↔ a = 0 := by
  constructor
  · intro h
    have h0 : (0 : Nat) < P := P_pos
    exact eq_of_cast_eq_P ha h0 (by rw [h, Nat.cast_zero])
  · rintro rfl; exact Nat.cast_zero

theorem cast_eq_zero_iff_mod (a : Nat) : (a : F) = 0 ↔ a % P = 0 := by
  rw [← Nat.cast_zero, ← mod_P_eq_iff, Nat.zero_mod]

theorem cast_eq_iff_of_lt {a b : Nat} (ha : a < P) (hb : b < P) : (a : F) = (b : F) ↔ a = b :=
  ⟨eq_of_cast_eq_P ha hb, fun h => by rw [h]⟩

theorem cast_eq_one_of_eq {a : Nat} (h : a = 1) : (a : F) = 1 := by rw [h, Nat.cast_one]

/-- the triple `q` (with `Z ≠ 0`) represents the affine point `(x, y)` -/
structure Rep (q : Jac) (x y : Nat) : Prop where
  hz : (q.2.2 : F) ≠ 0
  hx : (q.1 : F) = (x : F) * (q.2.2 : F) ^ 2
  hy : (q.2.1 : F) = (y : F) * (q.2.2 : F) ^ 3

def Bnd (q : Jac) : Prop := q.1 < P ∧ q.2.1 < P ∧ q.2.2 < P

theorem Bnd_of_WF {q : Jac} (h : Jac.WF q) : Bnd q := ⟨h.1, h.2.1, h.2.2.1⟩

theorem toPt_of_inf {q : Jac} (h : isInfJ q = true) : Jac.toPt q = none := by
  obtain ⟨X, Y, Z⟩ := q
  have h' : (X = 0 ∧ Y = 0) ∨ Z = 0 := by simpa [isInfJ] using h
  unfold Jac.toPt
  rw [if_pos]
  rcases h' with ⟨rfl, rfl⟩ | rfl
  · exact Or.inr ⟨Nat.zero_mod _, Nat.zero_mod _⟩
  · exact Or.inl (Nat.zero_mod _)

theorem WF_of_inf {q : Jac} (hb : Bnd q) (h : isInfJ q = true) : Jac.WF q :=
  ⟨hb.1, hb.2.1, hb.2.2, Or.inl h⟩

theorem WF_zero : Jac.WF (0, 0, 0) := WF_of_inf ⟨P_pos, P_pos, P_pos⟩ rfl

theorem toPt_zero : Jac.toPt (0, 0, 0) = none := toPt_of_inf rfl

theorem fin_iff {X Y Z : Nat} : isInfJ (X, Y, Z) = false ↔ ¬ (X = 0 ∧ Y = 0) ∧ Z ≠ 0 := by
  simp [isInfJ]

/-- the curve equation of `Jac.WF`, in the field -/
theorem WF_curve_cast (X Y Z : Nat) :
    fsq Y = fadd (fmul (fsq X) X) (fmul 7 (fmul (fsq (fmul (fsq Z) Z)) 1)) ↔
      (Y : F) ^ 2 = (X : F) ^ 3 + 7 * (Z : F) ^ 6 := by
  rw [← cast_eq_iff_of_lt (fsq_lt _) (fadd_lt _ _)]
  simp only [fsq_cast_pow, fadd_cast, fmul_cast, Nat.cast_ofNat, Nat.cast_one]
  constructor <;> intro h <;> linear_combination h

theorem rep_of_WF {q : Jac} (hwf : Jac.WF q) (hfin : isInfJ q = false) :
    ∃ x y, Jac.toPt q = some (x, y) ∧ Valid (some (x, y)) ∧ Rep q x y := by
  obtain ⟨X, Y, Z⟩ := q
  obtain ⟨hX, hY, hZ, hc⟩ := hwf
  simp only at hX hY hZ hc
  rcases hc with hinf | hc
  · rw [hfin] at hinf; exact absurd hinf (by simp)
  obtain ⟨hxy, hz⟩ := fin_iff.1 hfin
  have hzF : (Z : F) ≠ 0 := fun h => hz ((cast_eq_zero_iff_of_lt hZ).1 h)
  have hc' := (WF_curve_cast X Y Z).1 hc
  have hcond : ¬ (Z % P = 0 ∨ (X % P = 0 ∧ Y % P = 0)) := by
    rw [Nat.mod_eq_of_lt hX, Nat.mod_eq_of_lt hY, Nat.mod_eq_of_lt hZ]
    rintro (h | h)
    · exact hz h
    · exact hxy h
  refine ⟨fmul X (fsq (finv Z)), fmul Y (fmul (fsq (finv Z)) (finv Z)), ?_, ⟨fmul_lt _ _, fmul_lt _ _, ?_⟩, ⟨hzF, ?_, ?_⟩⟩
  · show (if Z % P = 0 ∨ (X % P = 0 ∧ Y % P = 0) then none else _) = _
    rw [if_neg hcond]
  · rw [curve_cast]
    simp only [fmul_cast, fsq_cast_pow, finv_cast]
    field_simp
    linear_combination hc'
  · simp only [fmul_cast, fsq_cast_pow, finv_cast]
    field_simp
  · simp only [fmul_cast, fsq_cast_pow, finv_cast]
    field_simp

theorem wf_toPt_of_rep {q : Jac} {x y : Nat} (hb : Bnd q) (hv : Valid (some (x, y))) (hr : Rep q x y) :
    Jac.WF q ∧ Jac.toPt q = some (x, y) := by
  obtain ⟨X, Y, Z⟩ := q
  obtain ⟨hX, hY, hZ⟩ := hb
  obtain ⟨hz, hx, hy⟩ := hr
  simp only at hX hY hZ hz hx hy
  have hcv := (curve_cast x y).1 hv.2.2
  have hy0 := y_ne_zero hcv
  refine ⟨⟨hX, hY, hZ, Or.inr ?_⟩, ?_⟩
  · show fsq Y = fadd (fmul (fsq X) X) (fmul 7 (fmul (fsq (fmul (fsq Z) Z)) 1))
    rw [WF_curve_cast, hx, hy]
    linear_combination (Z : F) ^ 6 * hcv
  · have hcond : ¬ (Z % P = 0 ∨ (X % P = 0 ∧ Y % P = 0)) := by
      rintro (h | ⟨_, h⟩)
      · exact hz ((cast_eq_zero_iff_mod Z).2 h)
      · have h1 := (cast_eq_zero_iff_mod Y).2 h
        rw [hy] at h1
        rcases mul_eq_zero.1 h1 with h2 | h2
        · exact hy0 h2
        · exact hz (pow_eq_zero_iff (by norm_num) |>.1 h2)
    show (if Z % P = 0 ∨ (X % P = 0 ∧ Y % P = 0) then none else _) = _
    rw [if_neg hcond]
    have e1 : fmul X (fsq (finv Z)) = x := by
      apply eq_of_cast_eq_P (fmul_lt _ _) hv.1
      simp only [fmul_cast, fsq_cast_pow, finv_cast, hx]
      field_simp
    have e2 : fmul Y (fmul (fsq (finv Z)) (finv Z)) = y := by
      apply eq_of_cast_eq_P (fmul_lt _ _) hv.2.1
      simp only [fmul_cast, fsq_cast_pow, finv_cast, hy]
      field_simp
    simp only [e1, e2]

/-! ### correctness statements -/

def AddOK (q p r : Jac) : Prop := Jac.WF r ∧ Jac.toPt r = Pt.add (Jac.toPt q) (Jac.toPt p)
def DblOK (q r : Jac) : Prop := Jac.WF r ∧ Jac.toPt r = Pt.dbl (Jac.toPt q)

theorem dbl_ok_zero {q : Jac} (hq : Jac.WF q) (h : q.2.1 = 0 ∨ q.2.2 = 0) : DblOK q (0, 0, 0) := by
  refine ⟨WF_zero, ?_⟩
  rw [toPt_zero]
  cases hfin : isInfJ q with
  | true => rw [toPt_of_inf hfin]; rfl
  | false =>
    obtain ⟨x, y, hpt, hv, hr⟩ := rep_of_WF hq hfin
    obtain ⟨X, Y, Z⟩ := q
    obtain ⟨hxy, hz⟩ := fin_iff.1 hfin
    simp only at h
    rcases h with h | h
    · exfalso
      have h1 := hr.hy
      simp only [h, Nat.cast_zero] at h1
      rcases mul_eq_zero.1 h1.symm with h2 | h2
      · exact y_ne_zero ((curve_cast x y).1 hv.2.2) h2
      · exact hr.hz (pow_eq_zero_iff (by norm_num) |>.1 h2)
    · exact absurd h hz

theorem dbl_ok_poly {X Y Z X3 Y3 Z3 : Nat} (hq : Jac.WF (X, Y, Z)) (hY : Y ≠ 0) (hZ : Z ≠ 0)
    (h3 : Bnd (X3, Y3, Z3))
    (eX : (X3 : F) = dbX X Y) (eY : (Y3 : F) = dbY X Y) (eZ : (Z3 : F) = dbZ Y Z) :
    DblOK (X, Y, Z) (X3, Y3, Z3) := by
  have hfin : isInfJ (X, Y, Z) = false := fin_iff.2 ⟨fun h => hY h.2, hZ⟩
  obtain ⟨x, y, hpt, hv, hr⟩ := rep_of_WF hq hfin
  obtain ⟨hz, hx, hy⟩ := hr
  simp only at hz hx hy
  have hy0 := y_ne_zero ((curve_cast x y).1 hv.2.2)
  have hd := dbl_tangent x y Z hy0 hz
  rw [← hx, ← hy, ← eX, ← eY, ← eZ] at hd
  have hv3 := valid_dbl hv
  rw [dbl_some x y hv.y_mod_ne] at hv3
  unfold DblOK
  rw [hpt, dbl_some x y hv.y_mod_ne]
  refine wf_toPt_of_rep h3 hv3 ⟨hd.1, ?_, ?_⟩
  · rw [hd.2.1]
    simp only [tgX, fsub_cast, fsq_cast_pow, fmul_cast, finv_cast, Nat.cast_ofNat]
  · rw [hd.2.2]
    simp only [tgY, tgX, fsub_cast, fsq_cast_pow, fmul_cast, finv_cast, Nat.cast_ofNat]

/-! ### contracts -/

/-- what a DoubleNonConst variant does, `DRun q r` meaning "run on `q` it returns `r`" -/
def DblContract (DRun : Jac → Jac → Prop) : Prop :=
  ∀ q, Jac.WF q → ∃ r, DRun q r ∧ DblOK q r

/-- what an add routine variant does on operands with nonzero Z satisfying its precondition `Pre Z1 Z2`,
    as a polynomial statement; `Run q p r` means "run on `q`, `p` it returns `r`" -/
structure AddContract (Pre : Nat → Nat → Prop) (Run : Jac → Jac → Jac → Prop)
    (DRun : Jac → Jac → Prop) : Prop where
  ne : ∀ X1 Y1 Z1 X2 Y2 Z2 : Nat, Bnd (X1, Y1, Z1) → Bnd (X2, Y2, Z2) → Z1 ≠ 0 → Z2 ≠ 0 → Pre Z1 Z2 →
    (X1 : F) * (Z2 : F) ^ 2 ≠ (X2 : F) * (Z1 : F) ^ 2 →
    ∃ X3 Y3 Z3, Run (X1, Y1, Z1) (X2, Y2, Z2) (X3, Y3, Z3) ∧ Bnd (X3, Y3, Z3) ∧
      ChordRep X1 Y1 Z1 X2 Y2 Z2 X3 Y3 Z3
  eq_ne : ∀ X1 Y1 Z1 X2 Y2 Z2 : Nat, Bnd (X1, Y1, Z1) → Bnd (X2, Y2, Z2) → Z1 ≠ 0 → Z2 ≠ 0 → Pre Z1 Z2 →
    (X1 : F) * (Z2 : F) ^ 2 = (X2 : F) * (Z1 : F) ^ 2 → (Y1 : F) * (Z2 : F) ^ 3 ≠ (Y2 : F) * (Z1 : F) ^ 3 →
    Run (X1, Y1, Z1) (X2, Y2, Z2) (0, 0, 0)
  eq_eq : ∀ X1 Y1 Z1 X2 Y2 Z2 : Nat, Bnd (X1, Y1, Z1) → Bnd (X2, Y2, Z2) → Z1 ≠ 0 → Z2 ≠ 0 → Pre Z1 Z2 →
    (X1 : F) * (Z2 : F) ^ 2 = (X2 : F) * (Z1 : F) ^ 2 → (Y1 : F) * (Z2 : F) ^ 3 = (Y2 : F) * (Z1 : F) ^ 3 →
    ∀ r, DRun (X1, Y1, Z1) r → Run (X1, Y1, Z1) (X2, Y2, Z2) r

/-- entry `i` run as `(&q, &p, &q)` with call-depth budget `f` returns `r` (and leaves `p` unchanged) -/
def RunA (f i : Nat) (q p r : Jac) : Prop :=
  callE f i [q.1, q.2.1, q.2.2, p.1, p.2.1, p.2.2] = some [r.1, r.2.1, r.2.2, p.1, p.2.1, p.2.2]

/-- entry `i` run as `(&q, &p, &r)` with call-depth budget `f` returns `r`, whatever `r` held before,
    and leaves `q`, `p` unchanged -/
def RunP (f i : Nat) (q p r : Jac) : Prop :=
  ∀ r6 r7 r8, callE f i [q.1, q.2.1, q.2.2, p.1, p.2.1, p.2.2, r6, r7, r8] =
    some [q.1, q.2.1, q.2.2, p.1, p.2.1, p.2.2, r.1, r.2.1, r.2.2]

theorem add_of_contract {Pre : Nat → Nat → Prop} {Run : Jac → Jac → Jac → Prop} {DRun : Jac → Jac → Prop}
    (hA : AddContract Pre Run DRun) (hD : DblContract DRun) (q p : Jac)
    (hq : Jac.WF q) (hp : Jac.WF p) (hqf : isInfJ q = false) (hpf : isInfJ p = false)
    (hpre : Pre q.2.2 p.2.2) : ∃ r, Run q p r ∧ AddOK q p r := by
  obtain ⟨x1, y1, hpt1, hv1, hr1⟩ := rep_of_WF hq hqf
  obtain ⟨x2, y2, hpt2, hv2, hr2⟩ := rep_of_WF hp hpf
  have hb1 := Bnd_of_WF hq
  have hb2 := Bnd_of_WF hp
  obtain ⟨X1, Y1, Z1⟩ := q
  obtain ⟨X2, Y2, Z2⟩ := p
  have hz1 : Z1 ≠ 0 := (fin_iff.1 hqf).2
  have hz2 : Z2 ≠ 0 := (fin_iff.1 hpf).2
  obtain ⟨hZ1, hX1, hY1⟩ := hr1
  obtain ⟨hZ2, hX2, hY2⟩ := hr2
  simp only at hpre hZ1 hX1 hY1 hZ2 hX2 hY2
  have hU : (X1 : F) * (Z2 : F) ^ 2 = (X2 : F) * (Z1 : F) ^ 2 ↔ (x1 : F) = x2 := by
    rw [hX1, hX2]
    constructor
    · intro h
      have h3 : ((x1 : F) - x2) * ((Z1 : F) ^ 2 * (Z2 : F) ^ 2) = 0 := by linear_combination h
      rcases mul_eq_zero.1 h3 with h4 | h4
      · exact sub_eq_zero.1 h4
      · exact absurd h4 (mul_ne_zero (pow_ne_zero _ hZ1) (pow_ne_zero _ hZ2))
    · intro h; rw [h]; ring
  have hS : (Y1 : F) * (Z2 : F) ^ 3 = (Y2 : F) * (Z1 : F) ^ 3 ↔ (y1 : F) = y2 := by
    rw [hY1, hY2]
    constructor
    · intro h
      have h3 : ((y1 : F) - y2) * ((Z1 : F) ^ 3 * (Z2 : F) ^ 3) = 0 := by linear_combination h
      rcases mul_eq_zero.1 h3 with h4 | h4
      · exact sub_eq_zero.1 h4
      · exact absurd h4 (mul_ne_zero (pow_ne_zero _ hZ1) (pow_ne_zero _ hZ2))
    · intro h; rw [h]; ring
  unfold AddOK
  rw [hpt1, hpt2]
  by_cases hx : (x1 : F) = x2
  · have hxm : x1 % P = x2 % P := (mod_P_eq_iff _ _).2 hx
    by_cases hy : (y1 : F) = y2
    · have hym : y1 % P = y2 % P := (mod_P_eq_iff _ _).2 hy
      obtain ⟨r, hrun, hwf, hdbl⟩ := hD (X1, Y1, Z1) hq
      refine ⟨r, hA.eq_eq X1 Y1 Z1 X2 Y2 Z2 hb1 hb2 hz1 hz2 hpre (hU.2 hx) (hS.2 hy) r hrun, hwf, ?_⟩
      rw [hdbl, hpt1]
      simp only [Pt.add, if_pos hxm, if_pos hym]
    · have hym : ¬ y1 % P = y2 % P := fun h => hy ((mod_P_eq_iff _ _).1 h)
      refine ⟨(0, 0, 0), hA.eq_ne X1 Y1 Z1 X2 Y2 Z2 hb1 hb2 hz1 hz2 hpre (hU.2 hx) (fun h => hy (hS.1 h)),
        WF_zero, ?_⟩
      rw [toPt_zero]
      simp only [Pt.add, if_pos hxm, if_neg hym]
  · have hxm : x1 % P ≠ x2 % P := fun h => hx ((mod_P_eq_iff _ _).1 h)
    obtain ⟨X3, Y3, Z3, hrun, hb3, hch⟩ :=
      hA.ne X1 Y1 Z1 X2 Y2 Z2 hb1 hb2 hz1 hz2 hpre (fun h => hx (hU.1 h))
    obtain ⟨hz3, hx3, hy3⟩ := hch x1 y1 x2 y2 hX1 hY1 hX2 hY2 hZ1 hZ2 hx
    have hv3 := valid_add hv1 hv2
    rw [add_some_ne x1 y1 x2 y2 hxm] at hv3
    rw [add_some_ne x1 y1 x2 y2 hxm]
    refine ⟨(X3, Y3, Z3), hrun, wf_toPt_of_rep hb3 hv3 ⟨hz3, ?_, ?_⟩⟩
    · rw [hx3]
      simp only [chX, fsub_cast, fsq_cast_pow, fmul_cast, finv_cast]
    · rw [hy3]
      simp only [chY, chX, fsub_cast, fsq_cast_pow, fmul_cast, finv_cast]

end Secp.Proofs.PointOps
