/-
  Proofs/PointOpsAddZZ — addZ1EqualsZ2 (zadd-2007-m), plain and result≡p1.
-/
import Secp.Proofs.PointOpsDbl

set_option linter.unusedSimpArgs false
namespace Secp.Proofs.PointOps
open Secp.Spec Secp.Model Secp.FOp Secp.Proofs
open Secp.Gen.FormulasC

theorem addZZ_U_iff {X1 X2 Z : Nat} (h1 : X1 < P) (h2 : X2 < P) (hz : (Z : F) ≠ 0) :
    X1 = X2 ↔ (X1 : F) * (Z : F) ^ 2 = (X2 : F) * (Z : F) ^ 2 := by
  rw [← cast_eq_iff_of_lt h1 h2]
  exact (mul_left_inj' (pow_ne_zero 2 hz)).symm

theorem addZZ_S_iff {Y1 Y2 Z : Nat} (h1 : Y1 < P) (h2 : Y2 < P) (hz : (Z : F) ≠ 0) :
    Y1 = Y2 ↔ (Y1 : F) * (Z : F) ^ 3 = (Y2 : F) * (Z : F) ^ 3 := by
  rw [← cast_eq_iff_of_lt h1 h2]
  exact (mul_left_inj' (pow_ne_zero 3 hz)).symm

theorem addZ1EqualsZ2_a010_contract (f : Nat) :
    AddContract (fun Z1 Z2 => Z1 = Z2) (RunA (f + 1) 16) (DRunA f) where
  ne := by
    intro X1 Y1 Z1 X2 Y2 Z2 hb1 hb2 hz1 hz2 hpre hne
    subst hpre
    have hzF : (Z1 : F) ≠ 0 := fun h => hz1 ((cast_eq_zero_iff_of_lt hb1.2.2).1 h)
    rw [Ne, ← addZZ_U_iff hb1.1 hb2.1 hzF] at hne
    refine ⟨?X3, ?Y3, ?Z3, ?run, ⟨?b1, ?b2, ?b3⟩, ?ch⟩
    case run =>
      show callE (f + 1) 16 [X1, Y1, Z1, X2, Y2, Z1] = some [_, _, _, X2, Y2, Z1]
      rw [callE_succ f 16 _ addZ1EqualsZ2_a010 rfl]
      exec_simp [addZ1EqualsZ2_a010, addZ1EqualsZ2_a010_p0, addZ1EqualsZ2_a010_p1, addZ1EqualsZ2_a010_p2, hne]
      and_intros <;> rfl
    case b1 => exact Nat.mod_lt _ P_pos
    case b2 => exact Nat.mod_lt _ P_pos
    case b3 => exact Nat.mod_lt _ P_pos
    case ch =>
      convert chordRep_addZ (X1 : F) Y1 Z1 X2 Y2 using 1
      all_goals cast_simp
      all_goals simp only [azX, azY, azZ]
      all_goals ring
  eq_ne := by
    intro X1 Y1 Z1 X2 Y2 Z2 hb1 hb2 hz1 hz2 hpre hU hS
    subst hpre
    have hzF : (Z1 : F) ≠ 0 := fun h => hz1 ((cast_eq_zero_iff_of_lt hb1.2.2).1 h)
    rw [Ne] at hS
    rw [← addZZ_U_iff hb1.1 hb2.1 hzF] at hU
    rw [← addZZ_S_iff hb1.2.1 hb2.2.1 hzF] at hS
    dsimp only at hU hS
    show callE (f + 1) 16 [X1, Y1, Z1, X2, Y2, Z1] = some [0, 0, 0, X2, Y2, Z1]
    rw [callE_succ f 16 _ addZ1EqualsZ2_a010 rfl]
    exec_simp [addZ1EqualsZ2_a010, addZ1EqualsZ2_a010_p0, addZ1EqualsZ2_a010_p1, addZ1EqualsZ2_a010_p2, hS, hU]
  eq_eq := by
    intro X1 Y1 Z1 X2 Y2 Z2 hb1 hb2 hz1 hz2 hpre hU hS r hr
    subst hpre
    have hzF : (Z1 : F) ≠ 0 := fun h => hz1 ((cast_eq_zero_iff_of_lt hb1.2.2).1 h)
    rw [← addZZ_U_iff hb1.1 hb2.1 hzF] at hU
    rw [← addZZ_S_iff hb1.2.1 hb2.2.1 hzF] at hS
    obtain ⟨a, b, c⟩ := r
    have hr' : callE f 5 [X1, Y1, Z1] = some [a, b, c] := hr
    show callE (f + 1) 16 [X1, Y1, Z1, X2, Y2, Z1] = some [a, b, c, X2, Y2, Z1]
    rw [callE_succ f 16 _ addZ1EqualsZ2_a010 rfl]
    subst hU hS
    exec_simp [addZ1EqualsZ2_a010, addZ1EqualsZ2_a010_p0, addZ1EqualsZ2_a010_p1, addZ1EqualsZ2_a010_p2, hr']

theorem addZ1EqualsZ2_contract (f : Nat) :
    AddContract (fun Z1 Z2 => Z1 = Z2) (RunP (f + 1) 15) (DRunP f) where
  ne := by
    intro X1 Y1 Z1 X2 Y2 Z2 hb1 hb2 hz1 hz2 hpre hne
    subst hpre
    have hzF : (Z1 : F) ≠ 0 := fun h => hz1 ((cast_eq_zero_iff_of_lt hb1.2.2).1 h)
    rw [Ne, ← addZZ_U_iff hb1.1 hb2.1 hzF] at hne
    refine ⟨?X3, ?Y3, ?Z3, fun r6 r7 r8 => ?run, ⟨?b1, ?b2, ?b3⟩, ?ch⟩
    case run =>
      show callE (f + 1) 15 [X1, Y1, Z1, X2, Y2, Z1, r6, r7, r8] =
        some [X1, Y1, Z1, X2, Y2, Z1, _, _, _]
      rw [callE_succ f 15 _ addZ1EqualsZ2 rfl]
      exec_simp [addZ1EqualsZ2, addZ1EqualsZ2_p0, addZ1EqualsZ2_p1, addZ1EqualsZ2_p2, hne]
      and_intros <;> rfl
    case b1 => exact Nat.mod_lt _ P_pos
    case b2 => exact Nat.mod_lt _ P_pos
    case b3 => exact Nat.mod_lt _ P_pos
    case ch =>
      convert chordRep_addZ (X1 : F) Y1 Z1 X2 Y2 using 1
      all_goals cast_simp
      all_goals simp only [azX, azY, azZ]
      all_goals ring
  eq_ne := by
    intro X1 Y1 Z1 X2 Y2 Z2 hb1 hb2 hz1 hz2 hpre hU hS r6 r7 r8
    subst hpre
    have hzF : (Z1 : F) ≠ 0 := fun h => hz1 ((cast_eq_zero_iff_of_lt hb1.2.2).1 h)
    rw [Ne] at hS
    rw [← addZZ_U_iff hb1.1 hb2.1 hzF] at hU
    rw [← addZZ_S_iff hb1.2.1 hb2.2.1 hzF] at hS
    dsimp only at hU hS
    show callE (f + 1) 15 [X1, Y1, Z1, X2, Y2, Z1, r6, r7, r8] =
      some [X1, Y1, Z1, X2, Y2, Z1, 0, 0, 0]
    rw [callE_succ f 15 _ addZ1EqualsZ2 rfl]
    exec_simp [addZ1EqualsZ2, addZ1EqualsZ2_p0, addZ1EqualsZ2_p1, addZ1EqualsZ2_p2, hS, hU]
  eq_eq := by
    intro X1 Y1 Z1 X2 Y2 Z2 hb1 hb2 hz1 hz2 hpre hU hS r hr r6 r7 r8
    subst hpre
    have hzF : (Z1 : F) ≠ 0 := fun h => hz1 ((cast_eq_zero_iff_of_lt hb1.2.2).1 h)
    rw [← addZZ_U_iff hb1.1 hb2.1 hzF] at hU
    rw [← addZZ_S_iff hb1.2.1 hb2.2.1 hzF] at hS
    obtain ⟨a, b, c⟩ := r
    have hr' : callE f 4 [X1, Y1, Z1, r6, r7, r8] = some [X1, Y1, Z1, a, b, c] := hr r6 r7 r8
    show callE (f + 1) 15 [X1, Y1, Z1, X2, Y2, Z1, r6, r7, r8] =
      some [X1, Y1, Z1, X2, Y2, Z1, a, b, c]
    rw [callE_succ f 15 _ addZ1EqualsZ2 rfl]
    subst hU hS
    exec_simp [addZ1EqualsZ2, addZ1EqualsZ2_p0, addZ1EqualsZ2_p1, addZ1EqualsZ2_p2, hr']

end Secp.Proofs.PointOps
