//go:build verif

package main

import (
	"math/big"
	"strconv"
	"strings"

	secp "github.com/ModChain/secp256k1"
)

func scalarFromHex(s string) *secp.ModNScalar {
	var k secp.ModNScalar
	k.SetByteSlice(unhx(s))
	return &k
}

func init() {
	// smul <k> <X Y Z> : ScalarMultNonConst, Jacobian result
	opImpl["smul"] = func(a []string) string {
		k := scalarFromHex(a[0])
		p := jacFrom(a[1:4])
		var r secp.JacobianPoint
		secp.ScalarMultNonConst(k, &p, &r)
		// the result object may hold anything beforehand and may be the operand itself
		junk := secp.VerifBytePoints()[3][77]
		pc := p
		secp.ScalarMultNonConst(k, &pc, &junk)
		inplace := p
		secp.ScalarMultNonConst(k, &inplace, &inplace)
		if jacHex(&junk) != jacHex(&r) || jacHex(&inplace) != jacHex(&r) {
			return "DEPENDS-ON-RESULT-OBJECT fresh=" + jacHex(&r) + " reused=" + jacHex(&junk) + " inplace=" + jacHex(&inplace)
		}
		if jacHex(&pc) != jacHex(&p) {
			return "OPERAND-MODIFIED"
		}
		return jacHex(&r)
	}
	opImpl["sbmul"] = func(a []string) string {
		k := scalarFromHex(a[0])
		var r secp.JacobianPoint
		secp.ScalarBaseMultNonConst(k, &r)
		junk := secp.VerifBytePoints()[5][9]
		secp.ScalarBaseMultNonConst(k, &junk)
		if jacHex(&junk) != jacHex(&r) {
			return "DEPENDS-ON-RESULT-OBJECT fresh=" + jacHex(&r) + " reused=" + jacHex(&junk)
		}
		return jacHex(&r)
	}
	opImpl["naf"] = func(a []string) string {
		pos, neg := secp.VerifNAF(unhx(a[0]))
		return hx(pos) + " " + hx(neg)
	}
	opImpl["splitk"] = func(a []string) string {
		k1, k2 := secp.VerifSplitK(scalarFromHex(a[0]))
		return scalarHex(&k1) + " " + scalarHex(&k2)
	}
	opImpl["mul512rsh320"] = func(a []string) string {
		r := secp.VerifMul512Rsh320Round(scalarFromHex(a[0]), scalarFromHex(a[1]))
		return scalarHex(&r)
	}
	opImpl["tablept"] = func(a []string) string {
		i, _ := strconv.Atoi(a[0])
		j, _ := strconv.Atoi(a[1])
		t := secp.VerifBytePoints()
		p := t[i][j]
		return jacHex(&p)
	}
	opImpl["pubkey"] = func(a []string) string {
		k := secp.NewPrivateKey(scalarFromHex(a[0]))
		return pubXY(k.PubKey())
	}
	generators["C03"] = genC03
}

func (h *H) cornerScalars() []*big.Int {
	one := big.NewInt(1)
	lambda, _ := new(big.Int).SetString("5363ad4cc05c30e0a5261c028812645a122e22ea20816678df02967c1b23bd72", 16)
	half := new(big.Int).Rsh(curveN, 1)
	p128 := new(big.Int).Lsh(one, 128)
	out := []*big.Int{
		big.NewInt(0), big.NewInt(1), big.NewInt(2), big.NewInt(3),
		new(big.Int).Sub(curveN, one), new(big.Int).Sub(curveN, big.NewInt(2)),
		lambda, new(big.Int).Sub(curveN, lambda), new(big.Int).Add(lambda, one),
		half, new(big.Int).Add(half, one), new(big.Int).Sub(half, one),
		new(big.Int).Sub(p128, one), p128, new(big.Int).Add(p128, one),
		new(big.Int).Lsh(one, 255), new(big.Int).Lsh(one, 127), new(big.Int).Lsh(one, 129),
		big.NewInt(255), big.NewInt(256), big.NewInt(0xffff), big.NewInt(0x10000),
	}
	// scalars whose halves are zero / maximal: k = k1 + k2*lambda with chosen small halves
	for _, k1 := range []int64{0, 1, -1} {
		for _, k2 := range []int64{0, 1, -1} {
			v := new(big.Int).Mul(big.NewInt(k2), lambda)
			v.Add(v, big.NewInt(k1))
			v.Mod(v, curveN)
			out = append(out, v)
		}
	}
	hmax := new(big.Int).Sub(p128, one)
	v := new(big.Int).Mul(hmax, lambda)
	v.Add(v, hmax)
	out = append(out, v.Mod(v, curveN))
	return out
}

func genC03(h *H) {
	corners := h.cornerScalars()
	gx, gy := new(big.Int).Set(secp.Params().Gx), new(big.Int).Set(secp.Params().Gy)
	one := big.NewInt(1)
	G := strings.Join(jacOf(gx, gy, one), " ")
	// corner scalars: base mult, variable mult on G (Z=1 and scaled) and on a random point
	x1, y1 := h.affinePoint()
	zr := h.randZ(3)
	for _, k := range corners {
		ks := hx(be32(k))
		h.do("corner-base", "sbmul", ks)
		h.do("corner-pubkey", "pubkey", ks)
		h.do("corner-var-G", "smul", ks, G)
		if h.budget > 1 || k.BitLen() < 130 {
			h.do("corner-var-P", "smul", ks, strings.Join(jacOf(x1, y1, zr), " "))
		}
		h.do("corner-splitk", "splitk", ks)
		h.do("corner-naf", "naf", hx(k.Bytes()))
	}
	h.do("identity", "smul", hx(be32(big.NewInt(5))), hx(be32(big.NewInt(0)))+" "+hx(be32(big.NewInt(0)))+" "+hx(be32(big.NewInt(0))))
	h.do("identity", "smul", hx(be32(big.NewInt(5))), hx(be32(big.NewInt(0)))+" "+hx(be32(big.NewInt(0)))+" "+hx(be32(big.NewInt(1))))
	// random
	n := 10 * h.budget
	for i := 0; i < n; i++ {
		k := h.randScalarInt()
		k.Mod(k, curveN)
		ks := hx(be32(k))
		x, y := h.affinePoint()
		h.do("random-base", "sbmul", ks)
		h.do("random-var", "smul", ks, strings.Join(jacOf(x, y, h.randZ(h.rng.Intn(4))), " "))
	}
	for i := 0; i < 60*h.budget; i++ {
		k := h.randScalarInt()
		k.Mod(k, curveN)
		h.do("random-splitk", "splitk", hx(be32(k)))
		h.do("random-naf", "naf", hx(h.randBytes(1+h.rng.Intn(32))))
		a, b := h.randScalarInt(), h.randScalarInt()
		h.do("random-mul512", "mul512rsh320", hx(be32(a.Mod(a, curveN))), hx(be32(b.Mod(b, curveN))))
		h.do("random-kernel", "kern", append([]string{"Scalar_mul512Rsh320Round"}, wordsDec(a, b)...)...)
	}
	// word patterns: 64-bit digits whose two 32-bit words sum to 2^32 or to 2^32-1, are 0 / 1 / all-ones, with the
	// other digits zero or random (a zero-digit shortcut, a word test with + instead of |, a skipped window)
	for it := 0; it < 6*h.budget; it++ {
		words := make([]uint32, 8)
		for d := 0; d < 4; d++ {
			var hi, lo uint32
			switch h.rng.Intn(6) {
			case 0:
				hi = h.rng.Uint32() | 1
				lo = -hi // hi + lo = 2^32
			case 1:
				hi = h.rng.Uint32()
				lo = ^hi // hi + lo = 2^32 - 1
			case 2:
				hi, lo = 0, 0
			case 3:
				hi, lo = []uint32{0, 1, 0xffffffff}[h.rng.Intn(3)], []uint32{0, 1, 0xffffffff}[h.rng.Intn(3)]
			default:
				hi, lo = h.rng.Uint32(), h.rng.Uint32()
			}
			words[2*d+1], words[2*d] = hi, lo
		}
		k := new(big.Int)
		for i := 7; i >= 0; i-- {
			k.Lsh(k, 32)
			k.Or(k, new(big.Int).SetUint64(uint64(words[i])))
		}
		k.Mod(k, curveN)
		ks := hx(be32(k))
		h.do("word-pattern-base", "sbmul", ks)
		h.do("word-pattern-pubkey", "pubkey", ks)
		if it < 2*h.budget {
			h.do("word-pattern-var", "smul", ks, G)
		}
	}
	// rounding boundaries of mul512Rsh320Round inside splitK: scalars k with k*z mod 2^(320+64j) within a few
	// units of the top (the rounding increment carries through j 64-bit digits: 2^-64, 2^-128 … at random),
	// and just above a multiple (no carry), for both estimate constants z
	for _, zs := range []string{"3086d221a7d46bcde86c90e49284eb153daa8a1471e8ca7f", "e4437ed6010e88286f547fa90abfe4c4221208ac9df506c6"} {
		z, _ := new(big.Int).SetString(zs, 16)
		for _, sh := range []uint{384, 448, 383, 320} {
			top := new(big.Int).Lsh(one, sh)
			maxM := new(big.Int).Div(new(big.Int).Mul(z, curveN), top)
			ms := []*big.Int{big.NewInt(1), big.NewInt(2), new(big.Int).Set(maxM)}
			for i := 0; i < 2*h.budget; i++ {
				if maxM.Sign() > 0 {
					ms = append(ms, new(big.Int).Add(one, new(big.Int).Rand(h.rng, maxM)))
				}
			}
			for _, M := range ms {
				if M.Sign() == 0 {
					continue
				}
				k0 := new(big.Int).Div(new(big.Int).Mul(M, top), z)
				for _, j := range []int64{-1, 0, 1} {
					k := new(big.Int).Add(k0, big.NewInt(j))
					if k.Sign() <= 0 || k.Cmp(curveN) >= 0 {
						continue
					}
					ks := hx(be32(k))
					h.do("round-splitk", "splitk", ks)
					h.do("round-mul512", "mul512rsh320", ks, hx(be32(z)))
					// the same pair through the REGENERATED kernel of mul512Rsh320Round (tools/gotr T1)
					h.do("round-kernel", "kern", append([]string{"Scalar_mul512Rsh320Round"}, wordsDec(k, z)...)...)
					if sh == 384 || sh == 448 {
						h.do("round-var-G", "smul", ks, G)
						h.do("round-base", "sbmul", ks)
					}
				}
			}
		}
	}
	// naf carry patterns
	for _, pat := range [][]byte{{0xff}, {0xff, 0xff}, {0x55, 0x55}, {0xaa, 0xaa}, {0x00, 0x01}, {0x80}, {0x7f, 0xff, 0xff}, {0xc0}, {0x03}, {}, {0x00}} {
		h.do("naf-pattern", "naf", hx(pat))
	}
	all := bytesRepeat(0xff, 32)
	h.do("naf-pattern", "naf", hx(all))
	// the table as decoded by the real code: sampled in quick, complete in thorough
	step := 37
	if h.budget > 1 {
		step = 1
	}
	for idx := 0; idx < 32*256; idx += step {
		h.do("table", "tablept", strconv.Itoa(idx/256), strconv.Itoa(idx%256))
	}
	// every table row×column exercised through the API (thorough): k with a single non-zero byte
	if h.budget > 1 {
		for i := 0; i < 32; i++ {
			for _, j := range []int{1, 2, 127, 128, 255, 1 + h.rng.Intn(254)} {
				b := make([]byte, 32)
				b[i] = byte(j)
				h.do("table-api", "sbmul", hx(b))
			}
		}
	}
}

// wordsDec: the 8+8 little-endian 32-bit words of two scalars, in decimal (kern op argument format)
func wordsDec(a, b *big.Int) []string {
	var out []string
	for _, v := range []*big.Int{a, b} {
		t := new(big.Int).Set(v)
		m := big.NewInt(1 << 32)
		for i := 0; i < 8; i++ {
			out = append(out, new(big.Int).Mod(t, m).String())
			t.Rsh(t, 32)
		}
	}
	return out
}

func bytesRepeat(b byte, n int) []byte {
	o := make([]byte, n)
	for i := range o {
		o[i] = b
	}
	return o
}
