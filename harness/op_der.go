//go:build verif

package main

import (
	"math/big"

	secp "github.com/ModChain/secp256k1"
)

func scalarHex(s *secp.ModNScalar) string { b := s.Bytes(); return hx(b[:]) }

func init() {
	opImpl["der_parse"] = func(a []string) string {
		b := unhx(a[0])
		return withArgsCheck([][]byte{b}, func() string {
			sig, err := secp.ParseDERSignature(b)
			if err != nil {
				return "err " + errKind(err)
			}
			r, s := sig.R(), sig.S()
			if m := sigObjectStable(sig, bytesRepeat(0x5a, 32)); m != "" {
				return "ok " + scalarHex(&r) + " " + scalarHex(&s) + " " + m
			}
			return "ok " + scalarHex(&r) + " " + scalarHex(&s)
		})
	}
	opImpl["der_serialize"] = func(a []string) string {
		var r, s secp.ModNScalar
		r.SetByteSlice(unhx(a[0]))
		s.SetByteSlice(unhx(a[1]))
		if m := sigObjectStable(secp.NewSignature(&r, &s), bytesRepeat(0x5a, 32)); m != "" {
			return m
		}
		sig := secp.NewSignature(&r, &s)
		out := hx(sig.Serialize())
		if m := sigObjectStable(sig, bytesRepeat(0x5a, 32)); m != "" {
			return m
		}
		return out
	}
	generators["C09"] = genC09
}

func derEncodeRaw(r, s []byte) []byte {
	b := []byte{0x30, byte(4 + len(r) + len(s)), 0x02, byte(len(r))}
	b = append(b, r...)
	b = append(b, 0x02, byte(len(s)))
	return append(b, s...)
}

func minimalInt(v *big.Int) []byte {
	b := v.Bytes()
	if len(b) == 0 {
		return []byte{0}
	}
	if b[0]&0x80 != 0 {
		b = append([]byte{0}, b...)
	}
	return b
}

// derTruncFix: every proper prefix of a valid encoding with the SEQUENCE length byte rewritten to match
// (and, for a second variant, the length byte of the integer the cut falls into rewritten too): inputs on
// which a parser that indexes before its length checks walks off the end
func derTruncFix(base []byte) [][]byte {
	var out [][]byte
	rl := int(base[3])
	for c := 2; c < len(base); c++ {
		m := append([]byte{}, base[:c]...)
		m[1] = byte(c - 2)
		out = append(out, m)
		m2 := append([]byte{}, m...)
		if c > 4 && c <= 4+rl { // cut inside R
			m2[3] = byte(c - 4)
			out = append(out, m2)
		} else if c > 6+rl { // cut inside S
			m2[5+rl] = byte(c - 6 - rl)
			out = append(out, m2)
		}
	}
	return out
}

func genC09(h *H) {
	// 1. boundary r,s pairs, canonical encodings
	bs := h.boundaryInts()
	var bases [][]byte
	for _, r := range bs {
		for _, s := range []*big.Int{bs[1], bs[7], bs[8], bs[11], bs[12], bs[19], bs[20]} {
			enc := derEncodeRaw(minimalInt(r), minimalInt(s))
			h.do("boundary-pair", "der_parse", hx(enc))
			enc2 := derEncodeRaw(minimalInt(s), minimalInt(r))
			h.do("boundary-pair", "der_parse", hx(enc2))
		}
	}
	// 2. random valid encodings and round trips
	n := 40 * h.budget
	for i := 0; i < n; i++ {
		r, s := h.randScalarInt(), h.randScalarInt()
		enc := derEncodeRaw(minimalInt(r), minimalInt(s))
		h.do("random-canonical", "der_parse", hx(enc))
		h.do("serialize", "der_serialize", hx(be32(new(big.Int).Mod(r, curveN))), hx(be32(new(big.Int).Mod(s, curveN))))
		if i < 6*h.budget {
			bases = append(bases, enc)
		}
	}
	// every minimal length 1..32 with the top byte just below / at / above the sign boundary, as r and as s
	// (the canonicalisation walks the leading zero bytes one at a time and must keep a 0x00 in front of a high bit)
	for l := 1; l <= 32; l++ {
		for _, top := range []byte{0x01, 0x7f, 0x80, 0xff} {
			v := h.randBytes(l)
			v[0] = top
			if h.rng.Intn(3) == 0 {
				for i := 1; i < l; i++ {
					v[i] = 0
				}
			}
			vi := new(big.Int).SetBytes(v)
			if vi.Cmp(curveN) >= 0 {
				continue
			}
			h.do("serialize-short", "der_serialize", hx(be32(vi)), hx(be32(big.NewInt(int64(1+h.rng.Intn(100))))))
			h.do("serialize-short", "der_serialize", hx(be32(big.NewInt(int64(1+h.rng.Intn(100))))), hx(be32(vi)))
		}
	}
	// serialise at the boundaries (low-s flip)
	for _, r := range bs {
		for _, s := range bs {
			if r.BitLen() <= 256 && s.BitLen() <= 256 {
				h.do("serialize-boundary", "der_serialize", hx(be32(r)), hx(be32(s)))
			}
		}
	}
	// a few fixed bases so the mutation stage always covers padded and 33-byte integers
	hi := new(big.Int).Sub(curveN, big.NewInt(1))
	bases = append(bases,
		derEncodeRaw(minimalInt(hi), minimalInt(big.NewInt(1))),
		derEncodeRaw(minimalInt(big.NewInt(1)), minimalInt(hi)),
		derEncodeRaw(minimalInt(big.NewInt(0x80)), minimalInt(big.NewInt(0x7f))),
		derEncodeRaw([]byte{1}, []byte{1}),
	)
	// 3. structure-aware mutation of every base: delete / insert / flip each byte, every value of the length bytes
	for _, base := range bases {
		for i := range base {
			del := append(append([]byte{}, base[:i]...), base[i+1:]...)
			h.do("mut-delete", "der_parse", hx(del))
			for _, v := range []byte{0x00, 0x80, 0xff, 0x02, 0x30} {
				ins := append(append(append([]byte{}, base[:i]...), v), base[i:]...)
				h.do("mut-insert", "der_parse", hx(ins))
			}
			for bit := 0; bit < 8; bit++ {
				fl := append([]byte{}, base...)
				fl[i] ^= 1 << bit
				h.do("mut-flip", "der_parse", hx(fl))
			}
		}
		rl := int(base[3])
		lenPos := []int{1, 3, 5 + rl}
		step := 1
		if h.budget == 1 {
			step = 3
		}
		for _, p := range lenPos {
			for v := 0; v < 256; v += step {
				m := append([]byte{}, base...)
				m[p] = byte(v)
				h.do("mut-length", "der_parse", hx(m))
			}
		}
		for _, m := range derTruncFix(base) {
			h.do("mut-trunc-fix", "der_parse", hx(m))
		}
		// appended / truncated
		for k := 1; k <= 3; k++ {
			h.do("mut-append", "der_parse", hx(append(append([]byte{}, base...), make([]byte, k)...)))
			if len(base) > k {
				h.do("mut-truncate", "der_parse", hx(base[:len(base)-k]))
			}
		}
	}
	// 4. non-minimal / negative / oversized integers built directly
	special := [][2][]byte{
		{{0x00, 0x01}, {0x01}}, {{0x01}, {0x00, 0x01}}, {{0x00, 0x80}, {0x01}}, {{0x80}, {0x01}}, {{0x01}, {0x80}},
		{{0x00}, {0x01}}, {{0x01}, {0x00}}, {{}, {0x01}}, {{0x01}, {}},
		{append([]byte{0x00}, be32(curveN)...), {0x01}}, {{0x01}, append([]byte{0x00}, be32(curveN)...)},
		{append([]byte{0x01}, make([]byte, 32)...), {0x01}}, {{0x01}, append([]byte{0x01}, make([]byte, 32)...)},
		{append([]byte{0x00, 0x00}, be32(new(big.Int).Sub(curveN, big.NewInt(1)))...), {0x01}},
	}
	for _, sp := range special {
		h.do("special-int", "der_parse", hx(derEncodeRaw(sp[0], sp[1])))
	}
	// 5. all lengths 0..80 with random and with structured prefixes
	for l := 0; l <= 80; l++ {
		h.do("len-random", "der_parse", hx(h.randBytes(l)))
		b := h.randBytes(l)
		if l > 0 {
			b[0] = 0x30
		}
		if l > 1 {
			b[1] = byte(l - 2)
		}
		if l > 2 {
			b[2] = 0x02
		}
		h.do("len-structured", "der_parse", hx(b))
	}
}
