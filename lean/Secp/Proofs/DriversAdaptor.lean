import Secp.Gen.Drivers
import Secp.Model.Adaptor
import Secp.Proofs.Chains
import Secp.Proofs.PubKey
import Secp.Proofs.Bip32Bytes
import Secp.Proofs.Adaptor
import Secp.Proofs.DriversSchnorr
import Mathlib.Tactic.SplitIfs
/-
  Proofs/DriversAdaptor — the regenerated crypto/elliptic adaptor (Gen/Drivers.lean:
  bigAffineToJacobian, jacobianToBigAffine, moduloReduce, KoblitzCurve.IsOnCurve/Add/Double/
  ScalarMult/ScalarBaseMult, PublicKey.X/Y) equals the hand-written models of
  Model/Bip32.lean and Model/Adaptor.lean.
-/
set_option maxRecDepth 100000
namespace Secp.Proofs.DriversAdaptor
open Secp.Spec Secp.Model Secp.FOp Secp.Proofs.Chains Secp.Gen.FormulasC


/-! ### ToAffine normalises Y as well -/

/-- `ToAffine` ends with `Normalize` of X and of Y: the second register of the result is reduced,
    whatever the input registers are. -/
theorem toAffineJ_snd_lt (q : Jac) : (toAffineJ q).2.1 < P := by
  obtain ⟨X, Y, Z⟩ := q
  obtain ⟨callF, hrun⟩ := runNamed_eq "ToAffine" 8 ToAffine [X, Y, Z] [] (by decide) rfl
  have hops : opsOnly tChain = true := by decide +kernel
  generalize hr1 : runOps tChain ([X, Y, Z] ++ List.replicate 13 0) = r1
  have hlen : r1.length = 16 := by rw [← hr1, length_runOps]; rfl
  have hP : 0 < P := by decide +kernel
  unfold toAffineJ
  simp only []
  rw [hrun, show ToAffine.paths = [ToAffine_p0] from rfl]
  simp only [List.findSome?_cons, List.findSome?_nil]
  rw [show ToAffine.nreg - [X, Y, Z].length = 13 from rfl, toAffine_items]
  simp only [exec_append, exec_opsOnly _ _ hops, hr1, Option.bind_some]
  simp [execPathWith, stepF, rget_rset, length_rset, hlen]
  exact Nat.mod_lt _ hP

theorem toAffineJ_fst_lt (q : Jac) : (toAffineJ q).1 < P := DriversSchnorr.toAffineJ_fst_lt q

/-! ### the two conversions -/

theorem jacobianToBigAffine_regenerated (q : Jac) : Secp.Gen.Drivers.jacobianToBigAffine q = jacToBig q := by
  unfold Secp.Gen.Drivers.jacobianToBigAffine jacToBig
  simp only []
  rw [Bip32.beNat_be32_lt (Nat.lt_trans (toAffineJ_fst_lt q) PubKey.P_lt_pow),
    Bip32.beNat_be32_lt (Nat.lt_trans (toAffineJ_snd_lt q) PubKey.P_lt_pow)]

/-- the raw coordinate conversion of `bigAffineToJacobian` (no reduction) is the model's `bigToField`
    reduced: `bigToField v = raw v % P` by definition -/
theorem bigToField_eq_raw_mod (v : Nat) : bigToField v = beNat ((minBytes v).take 32) % P := rfl

theorem raw_of_lt {v : Nat} (hv : v < P) : beNat ((minBytes v).take 32) = v :=
  Bip32.minBytes_take32 (Nat.lt_trans hv PubKey.P_lt_pow)

theorem bigAffineToJacobian_regenerated (x y : Nat) (r : Jac) (hx : x < P) (hy : y < P) :
    Secp.Gen.Drivers.bigAffineToJacobian x y r = (bigToField x, bigToField y, 1) := by
  unfold Secp.Gen.Drivers.bigAffineToJacobian
  simp only [raw_of_lt hx, raw_of_lt hy, Adaptor.bigToField_of_lt hx, Adaptor.bigToField_of_lt hy]

theorem moduloReduce_regenerated (k : Bytes) :
    Secp.Gen.Drivers.moduloReduce k = (if k.length > 32 then minBytes (beNat k % N) else k) := by
  unfold Secp.Gen.Drivers.moduloReduce
  by_cases h : k.length > 32 <;> simp [h]

theorem adaptorScalar_regenerated (k : Bytes) :
    (scalarSetByteSlice (Secp.Gen.Drivers.moduloReduce k)).1 = adaptorScalar k := by
  rw [moduloReduce_regenerated]; rfl

/-! ### IsOnCurve -/

/-- `isOnCurveM` only multiplies, squares and adds: it cannot tell a value from its residue -/
theorem isOnCurveM_mod (a b : Nat) : isOnCurveM (a % P) (b % P) = isOnCurveM a b := by
  unfold isOnCurveM fsq fmul fadd
  rw [← Nat.mul_mod b b P, ← Nat.mul_mod a a P, Nat.mul_mod_mod]

theorem isOnCurve_regenerated (x y : Nat) : Secp.Gen.Drivers.adaptorIsOnCurveGen x y = adaptorIsOnCurve x y := by
  unfold Secp.Gen.Drivers.adaptorIsOnCurveGen Secp.Gen.Drivers.bigAffineToJacobian adaptorIsOnCurve
  simp only [bigToField_eq_raw_mod, isOnCurveM_mod]

/-! ### Add -/

theorem add_regenerated (x1 y1 x2 y2 : Nat) (h1 : x1 < P) (h2 : y1 < P) (h3 : x2 < P) (h4 : y2 < P) :
    Secp.Gen.Drivers.adaptorAddGen x1 y1 x2 y2 = adaptorAdd (x1, y1) (x2, y2) := by
  unfold Secp.Gen.Drivers.adaptorAddGen adaptorAdd
  simp only [bigAffineToJacobian_regenerated _ _ _ h1 h2, bigAffineToJacobian_regenerated _ _ _ h3 h4,
    jacobianToBigAffine_regenerated]
  by_cases a : x1 = 0 <;> by_cases b : y1 = 0 <;> by_cases c : x2 = 0 <;> by_cases d : y2 = 0 <;>
    simp [a, b, c, d, jacToBig]

/-- every one of the four range hypotheses of `add_regenerated` is necessary: the generated code hands
    the RAW value to `AddNonConst`, whose `IsZero`/`Equals` tests look at the raw value, the model the
    reduced one (raw P is "not zero", raw P+3 is "not equal" to 3). -/
theorem add_needs_x1 :
    Secp.Gen.Drivers.adaptorAddGen (P + 3) 7 3 7 ≠ adaptorAdd (P + 3, 7) (3, 7) := by decide +kernel
theorem add_needs_y1 : Secp.Gen.Drivers.adaptorAddGen 0 P 3 7 ≠ adaptorAdd (0, P) (3, 7) := by decide +kernel
theorem add_needs_x2 :
    Secp.Gen.Drivers.adaptorAddGen 3 7 (P + 3) 7 ≠ adaptorAdd (3, 7) (P + 3, 7) := by decide +kernel
theorem add_needs_y2 : Secp.Gen.Drivers.adaptorAddGen 3 7 0 P ≠ adaptorAdd (3, 7) (0, P) := by decide +kernel

/-! ### Double

  No range hypothesis is needed: `curve.Double` only tests `y1.Sign() == 0` on the big integer and
  `Y.IsZero()` on the raw field value; when the raw Y is a non-zero multiple of P the generic
  formula runs and produces Z3 = 2·Y ≡ 0, which `ToAffine` maps to (0, 0), the same answer as the
  model's early exit on the reduced value. -/

theorem fsq_mod (a : Nat) : fsq (a % P) = fsq a := by
  unfold fsq; rw [← Nat.mul_mod]
theorem fadd_mod_right (a b : Nat) : fadd a (b % P) = fadd a b := by
  unfold fadd; rw [Nat.add_mod_mod]
theorem fmul_mod_left (a b : Nat) : fmul (a % P) b = fmul a b := by
  unfold fmul; rw [Nat.mod_mul_mod]

theorem dX3_mod (x y : Nat) : Adaptor.dX3 (x % P) (y % P) = Adaptor.dX3 x y := by
  simp only [Adaptor.dX3, Adaptor.dS, Adaptor.dM, fsq_mod, fadd_mod_right]
theorem dY3_mod (x y : Nat) : Adaptor.dY3 (x % P) (y % P) = Adaptor.dY3 x y := by
  simp only [Adaptor.dY3, Adaptor.dX3, Adaptor.dS, Adaptor.dM, fsq_mod, fadd_mod_right]
theorem dZ3_mod (y : Nat) : Adaptor.dZ3 (y % P) = Adaptor.dZ3 y := by
  simp only [Adaptor.dZ3, fmul_mod_left]

/-- `DoubleNonConst` on a point with Y = 0: the result is set to (0, 0, 0) -/
theorem dnc_run_zero (x : Nat) :
    runNamed "DoubleNonConst" [x, 0, 1, 0, 0, 0] [] = some ([x, 0, 1, 0, 0, 0], none) := by
  unfold runNamed
  rw [Adaptor.idx_dnc, show (8 : Nat) = 7 + 1 from rfl, runEntryC]
  simp only [show allEntries[4]? = some DoubleNonConst from rfl]
  simp [DoubleNonConst, DoubleNonConst_p0, execPathWith, condF, stepF, rget, rset]

theorem jacToBig_Z0 (a b : Nat) : jacToBig (a, b, 0) = (0, 0) := by
  unfold jacToBig
  rw [toAffine_run_of_Z a b 0 (by decide +kernel)]
  simp [Adaptor.finv_zero, fmul, fsq]

theorem double_regenerated' (x y : Nat) :
    Secp.Gen.Drivers.adaptorDoubleGen x y = adaptorDouble (x, y) := by
  unfold Secp.Gen.Drivers.adaptorDoubleGen adaptorDouble dblNC3 Secp.Gen.Drivers.bigAffineToJacobian
  simp only [jacobianToBigAffine_regenerated, bigToField_eq_raw_mod]
  by_cases b : y = 0
  · simp [b]
  simp only [b, beq_iff_eq, if_false]
  rw [if_neg (by simp)]
  generalize beNat ((minBytes x).take 32) = X
  generalize beNat ((minBytes y).take 32) = Y
  by_cases hY : Y = 0
  · subst hY
    simp only [Nat.zero_mod, dnc_run_zero]
    simp [rget]
  by_cases hYP : Y % P = 0
  · rw [Adaptor.dnc_run _ _ hY, hYP, dnc_run_zero]
    have hz : Adaptor.dZ3 Y % P = 0 := by
      unfold Adaptor.dZ3 fmul
      rw [Nat.mod_mod, Nat.mul_mod, hYP, Nat.zero_mul, Nat.zero_mod]
    simp only [rget, List.getD_cons_succ, List.getD_cons_zero, hz, jacToBig_Z0]
  · rw [Adaptor.dnc_run _ _ hY, Adaptor.dnc_run _ _ hYP, dX3_mod, dY3_mod, dZ3_mod]
    rfl

/-- the statement with the (redundant) range hypotheses -/
theorem double_regenerated (x y : Nat) (_hx : x < P) (_hy : y < P) :
    Secp.Gen.Drivers.adaptorDoubleGen x y = adaptorDouble (x, y) := double_regenerated' x y

/-! ### ScalarMult, ScalarBaseMult -/

theorem scalarMult_regenerated (x y : Nat) (k : Bytes) (hx : x < P) (hy : y < P) :
    Secp.Gen.Drivers.adaptorScalarMultGen x y k = adaptorScalarMult (x, y) k := by
  unfold Secp.Gen.Drivers.adaptorScalarMultGen adaptorScalarMult
  simp only [bigAffineToJacobian_regenerated _ _ _ hx hy, jacobianToBigAffine_regenerated,
    adaptorScalar_regenerated]

/-- `hx` of `scalarMult_regenerated` is necessary: with raw X = P the first addition of the loop
    compares the raw X of the accumulator (a copy of the point) with the normalised β·X of the
    endomorphism image (`Equals` on raw values), the model compares 0 with 0. -/
theorem scalarMult_needs_x :
    Secp.Gen.Drivers.adaptorScalarMultGen P 5 (be32 (0x9e3779b97f4a7c15f39cc0605cedc834 + 2^200 + 1)) ≠
      adaptorScalarMult (P, 5) (be32 (0x9e3779b97f4a7c15f39cc0605cedc834 + 2^200 + 1)) := by decide +kernel

theorem scalarBaseMult_regenerated (k : Bytes) : Secp.Gen.Drivers.adaptorScalarBaseMultGen k = adaptorBaseMult k := by
  unfold Secp.Gen.Drivers.adaptorScalarBaseMultGen adaptorBaseMult
  simp only [jacobianToBigAffine_regenerated, adaptorScalar_regenerated]
  rfl

/-! ### PublicKey.X, PublicKey.Y -/

theorem pubKeyX_regenerated (p : Nat × Nat) (h : p.1 < 2^256) : Secp.Gen.Drivers.pubKeyX p = p.1 := by
  unfold Secp.Gen.Drivers.pubKeyX
  simp only []
  rw [Der.beNat_be32, Nat.mod_eq_of_lt h]

theorem pubKeyY_regenerated (p : Nat × Nat) (h : p.2 < 2^256) : Secp.Gen.Drivers.pubKeyY p = p.2 := by
  unfold Secp.Gen.Drivers.pubKeyY
  simp only []
  rw [Der.beNat_be32, Nat.mod_eq_of_lt h]

end Secp.Proofs.DriversAdaptor

#print axioms Secp.Proofs.DriversAdaptor.toAffineJ_snd_lt
#print axioms Secp.Proofs.DriversAdaptor.jacobianToBigAffine_regenerated
#print axioms Secp.Proofs.DriversAdaptor.isOnCurve_regenerated
#print axioms Secp.Proofs.DriversAdaptor.add_regenerated
#print axioms Secp.Proofs.DriversAdaptor.double_regenerated'
#print axioms Secp.Proofs.DriversAdaptor.double_regenerated
#print axioms Secp.Proofs.DriversAdaptor.scalarMult_regenerated
#print axioms Secp.Proofs.DriversAdaptor.scalarBaseMult_regenerated
#print axioms Secp.Proofs.DriversAdaptor.pubKeyX_regenerated
#print axioms Secp.Proofs.DriversAdaptor.pubKeyY_regenerated
#print axioms Secp.Proofs.DriversAdaptor.add_needs_y1
#print axioms Secp.Proofs.DriversAdaptor.scalarMult_needs_x
