/-
  Core/IR — deep embedding of the straight-line integer kernels that
  tools/gotr (pass T1) extracts from field.go / modnscalar.go.

  * `evalW`  : Go semantics — every arithmetic node wraps at its static width,
               shifts and masks are the bit operations.
  * `evalN`  : ideal semantics on ℕ — no wrapping, shifts and masks are
               `/ 2^k`, `* 2^k`, `% 2^k`.
  * `bnd`    : interval analysis; `none` as soon as an `add/sub/mul/shl/not`
               might leave its width or a `sub` might go negative.
  `Secp.Proofs.IRSound.bound_sound` shows: if `bnd` succeeds, `evalW = evalN`
  and the results lie in the computed intervals.  So "this kernel never wraps
  for inputs in these bounds" is `by decide` on the *regenerated* program.

  Core-only: the driver executes `Kernel.runW` directly.
-/
namespace Secp.IR

inductive Expr where
  | var (i : Nat)                      -- de Bruijn style: i-th most recently defined value (0 = newest)
  | const (n : Nat)
  | add (w : Nat) (a b : Expr)
  | sub (w : Nat) (a b : Expr)
  | mul (w : Nat) (a b : Expr)
  | shr (a : Expr) (k : Nat)
  | shl (w : Nat) (a : Expr) (k : Nat)
  | low (k : Nat) (a : Expr)          -- a & (2^k - 1)
  | and (a b : Expr)
  | or (a b : Expr)
  | xor (a b : Expr)
  | not (w : Nat) (a : Expr)          -- ^a at width w
  | neg (w : Nat) (a : Expr)          -- -a at width w
  | conv (w : Nat) (a : Expr)         -- narrowing conversion to width w
  | eq (a b : Expr)                   -- a == b as 0/1
  | ne (a b : Expr)
  | ctEq (a b : Expr)                 -- constantTimeEq   (pinned by CT_Eq_lit)
  | ctNe (a b : Expr)                 -- constantTimeNotEq
  | ctLt (a b : Expr)                 -- constantTimeLess
  | ctLe (a b : Expr)                 -- constantTimeLessOrEq
  | ctMin (a b : Expr)                -- constantTimeMin
  | accAdd (a b : Expr)               -- accumulator96.Add on the 96-bit value (pinned by Acc96_Add_lit)
  deriving Repr, DecidableEq, Inhabited

structure Kernel where
  name : String
  inW : List Nat          -- bit width of each input
  aliasSafe : Bool        -- no parameter slot is read after the same receiver slot was written
  body : List Expr        -- SSA: each entry may refer to earlier entries and inputs by relative index
  outs : List Expr
  deriving Repr, Inhabited

def b2n (b : Bool) : Nat := if b then 1 else 0

/-- Go semantics -/
def evalW (env : List Nat) : Expr → Nat
  | .var i => env.getD i 0
  | .const n => n
  | .add w a b => (evalW env a + evalW env b) % 2 ^ w
  | .sub w a b => (evalW env a + 2 ^ w - evalW env b % 2 ^ w) % 2 ^ w
  | .mul w a b => (evalW env a * evalW env b) % 2 ^ w
  | .shr a k => evalW env a >>> k
  | .shl w a k => (evalW env a <<< k) % 2 ^ w
  | .low k a => evalW env a &&& (2 ^ k - 1)
  | .and a b => evalW env a &&& evalW env b
  | .or a b => evalW env a ||| evalW env b
  | .xor a b => evalW env a ^^^ evalW env b
  | .not w a => 2 ^ w - 1 - evalW env a % 2 ^ w
  | .neg w a => (2 ^ w - evalW env a % 2 ^ w) % 2 ^ w
  | .conv w a => evalW env a % 2 ^ w
  | .eq a b => b2n (evalW env a == evalW env b)
  | .ne a b => b2n (evalW env a != evalW env b)
  | .ctEq a b => b2n (evalW env a == evalW env b)
  | .ctNe a b => b2n (evalW env a != evalW env b)
  | .ctLt a b => b2n (decide (evalW env a < evalW env b))
  | .ctLe a b => b2n (decide (evalW env a ≤ evalW env b))
  | .ctMin a b => min (evalW env a) (evalW env b)
  | .accAdd a b => (evalW env a + evalW env b) % 2 ^ 96

/-- ideal semantics -/
def evalN (env : List Nat) : Expr → Nat
  | .var i => env.getD i 0
  | .const n => n
  | .add _ a b => evalN env a + evalN env b
  | .sub _ a b => evalN env a - evalN env b
  | .mul _ a b => evalN env a * evalN env b
  | .shr a k => evalN env a / 2 ^ k
  | .shl _ a k => evalN env a * 2 ^ k
  | .low k a => evalN env a % 2 ^ k
  | .and a b => evalN env a &&& evalN env b
  | .or a b => evalN env a ||| evalN env b
  | .xor a b => evalN env a ^^^ evalN env b
  | .not w a => 2 ^ w - 1 - evalN env a
  | .neg w a => (2 ^ w - evalN env a % 2 ^ w) % 2 ^ w
  | .conv w a => evalN env a % 2 ^ w
  | .eq a b => b2n (evalN env a == evalN env b)
  | .ne a b => b2n (evalN env a != evalN env b)
  | .ctEq a b => b2n (evalN env a == evalN env b)
  | .ctNe a b => b2n (evalN env a != evalN env b)
  | .ctLt a b => b2n (decide (evalN env a < evalN env b))
  | .ctLe a b => b2n (decide (evalN env a ≤ evalN env b))
  | .ctMin a b => min (evalN env a) (evalN env b)
  | .accAdd a b => evalN env a + evalN env b

/-- run the SSA body: each entry is pushed on the front of the environment
    (so `.var 0` is the value just defined; the inputs sit at the bottom, last input first) -/
def runBody (ev : List Nat → Expr → Nat) : List Expr → List Nat → List Nat
  | [], env => env
  | e :: rest, env => runBody ev rest (ev env e :: env)

def Kernel.runW (k : Kernel) (inputs : List Nat) : List Nat :=
  let env := runBody evalW k.body inputs.reverse
  k.outs.map (evalW env)

def Kernel.runN (k : Kernel) (inputs : List Nat) : List Nat :=
  let env := runBody evalN k.body inputs.reverse
  k.outs.map (evalN env)

/-- number of bits needed for n (0 for 0) -/
def bits (n : Nat) : Nat := if n = 0 then 0 else n.log2 + 1

abbrev Ival := Nat × Nat   -- inclusive [lo, hi]

/-- interval analysis of one expression; `none` = may wrap / underflow / unsupported -/
def bnd (β : List Ival) : Expr → Option Ival
  | .var i => β[i]?
  | .const n => some (n, n)
  | .add w a b => do
      let (la, ha) ← bnd β a
      let (lb, hb) ← bnd β b
      if ha + hb < 2 ^ w then some (la + lb, ha + hb) else none
  | .sub w a b => do
      let (la, ha) ← bnd β a
      let (lb, hb) ← bnd β b
      if hb ≤ la ∧ ha < 2 ^ w then some (la - hb, ha - lb) else none
  | .mul w a b => do
      let (la, ha) ← bnd β a
      let (lb, hb) ← bnd β b
      if ha * hb < 2 ^ w then some (la * lb, ha * hb) else none
  | .shr a k => do
      let (la, ha) ← bnd β a
      some (la / 2 ^ k, ha / 2 ^ k)
  | .shl w a k => do
      let (la, ha) ← bnd β a
      if ha * 2 ^ k < 2 ^ w then some (la * 2 ^ k, ha * 2 ^ k) else none
  | .low k a => do
      let (la, ha) ← bnd β a
      if ha < 2 ^ k then some (la, ha) else some (0, 2 ^ k - 1)
  | .and a b => do
      let (_, ha) ← bnd β a
      let (_, hb) ← bnd β b
      some (0, min ha hb)
  | .or a b => do
      let (_, ha) ← bnd β a
      let (_, hb) ← bnd β b
      some (0, 2 ^ (max (bits ha) (bits hb)) - 1)
  | .xor a b => do
      let (_, ha) ← bnd β a
      let (_, hb) ← bnd β b
      some (0, 2 ^ (max (bits ha) (bits hb)) - 1)
  | .not w a => do
      let (la, ha) ← bnd β a
      if ha < 2 ^ w then some (2 ^ w - 1 - ha, 2 ^ w - 1 - la) else none
  | .neg _ _ => none
  | .conv w a => do
      let (la, ha) ← bnd β a
      if ha < 2 ^ w then some (la, ha) else some (0, 2 ^ w - 1)
  | .eq a b => do let _ ← bnd β a; let _ ← bnd β b; some (0, 1)
  | .ne a b => do let _ ← bnd β a; let _ ← bnd β b; some (0, 1)
  | .ctEq a b => do
      let (_, ha) ← bnd β a
      let (_, hb) ← bnd β b
      if ha < 2 ^ 32 ∧ hb < 2 ^ 32 then some (0, 1) else none
  | .ctNe a b => do
      let (_, ha) ← bnd β a
      let (_, hb) ← bnd β b
      if ha < 2 ^ 32 ∧ hb < 2 ^ 32 then some (0, 1) else none
  | .ctLt a b => do
      let (_, ha) ← bnd β a
      let (_, hb) ← bnd β b
      if ha < 2 ^ 32 ∧ hb < 2 ^ 32 then some (0, 1) else none
  | .ctLe a b => do
      let (_, ha) ← bnd β a
      let (_, hb) ← bnd β b
      if ha < 2 ^ 32 ∧ hb < 2 ^ 32 then some (0, 1) else none
  | .ctMin a b => do
      let (la, ha) ← bnd β a
      let (lb, hb) ← bnd β b
      if ha < 2 ^ 32 ∧ hb < 2 ^ 32 then some (min la lb, min ha hb) else none
  | .accAdd a b => do
      let (la, ha) ← bnd β a
      let (lb, hb) ← bnd β b
      -- accumulator96.Add is exact when the high word of v plus a carry fits 32 bits and the sum fits 96 bits
      if ha + hb < 2 ^ 96 ∧ hb < 2 ^ 64 - 2 ^ 32 then some (la + lb, ha + hb) else none

def bndBody : List Expr → List Ival → Option (List Ival)
  | [], β => some β
  | e :: rest, β => do
      let r ← bnd β e
      bndBody rest (r :: β)

/-- bounds of the outputs, given bounds of the inputs (in input order) -/
def Kernel.check (k : Kernel) (βin : List Ival) : Option (List Ival) := do
  let β ← bndBody k.body βin.reverse
  k.outs.mapM (bnd β)

/-- default input bounds: the full range of each input's type -/
def Kernel.fullRange (k : Kernel) : List Ival := k.inW.map fun w => (0, 2 ^ w - 1)

/-- value v lies in interval b -/
def inIval (v : Nat) (b : Ival) : Prop := b.1 ≤ v ∧ v ≤ b.2

/-- pointwise membership, same length -/
def Within : List Nat → List Ival → Prop
  | [], [] => True
  | v :: vs, b :: bs => inIval v b ∧ Within vs bs
  | _, _ => False

end Secp.IR
