package main

// T2s: sliced field programs.
//
// Every function of the three packages whose body touches FieldVal / JacobianPoint / PublicKey
// values OUTSIDE the routines already extracted by T1 (field.go kernels) and T2 (point formulas)
// is symbolically executed here: Verify, sign, RecoverPublicKey, ParsePubKey, the serialisers,
// ScalarMultNonConst / ScalarBaseMultNonConst (prelude and loops), ECDH, the crypto/elliptic
// adaptor, Schnorr sign / verify / parse, ecckd helpers.  Everything that is not field
// arithmetic (scalars, hashes, byte buffers, big.Int, errors) is sliced away: a condition that
// does not involve a field predicate forks the path without an assumption, so the set of paths
// over-approximates the real control flow.  What is kept, per path:
//
//   .p (.op …) / .p (.assume …)   FieldVal method calls and field predicates, as in T2
//   .chk a m nrm                   precondition of a method that READS limbs (PutBytes, Bytes,
//                                  IsOddBit, IsGtOrEqPrimeMinusOrder, …): magnitude ≤ m, normalised
//   .havoc d m nrm                 d receives bytes from outside (SetBytes/SetByteSlice, table entry)
//   .callC i [regs]                call of a routine with a verified contract (AddNonConst,
//                                  DoubleNonConst, ScalarMultNonConst, ScalarBaseMultNonConst)
//   .loopBegin / .loopEnd          one symbolic iteration of a loop body; the abstract state at the
//                                  end must be covered by the state at the head
//
// Fail closed: a construct that mentions a field-bearing type and is not understood is an error.

import (
	"fmt"
	"go/ast"
	"go/token"
	"go/types"
	"sort"
	"strings"
)

type sbind struct {
	kind   string // reg | obj | bool | ubool | sbytes | tuple | opaque
	reg    int
	fields map[string]*sbind
	order  []string
	bval   bool
	elems  []*sbind
}

var opaqueB = &sbind{kind: "opaque"}

type sitem struct {
	fitem
	skind string // "" (plain fitem) | chk | havoc | callc | lb | le | brk
	nrm   bool
	mag   int
	cidx  int
}

func (it sitem) lean() string {
	switch it.skind {
	case "":
		return ".p (" + it.fitem.lean() + ")"
	case "chk":
		return fmt.Sprintf(".chk %d %d %v", it.a, it.mag, it.nrm)
	case "havoc":
		return fmt.Sprintf(".havoc %d %d %v", it.d, it.mag, it.nrm)
	case "callc":
		rs := make([]string, len(it.regs))
		for i, r := range it.regs {
			rs[i] = fmt.Sprint(r)
		}
		return fmt.Sprintf(".callC %d [%s]", it.cidx, strings.Join(rs, ", "))
	case "lb":
		return ".loopBegin"
	case "le":
		return ".loopEnd"
	case "brk":
		return ".loopBreak"
	}
	panic("sitem")
}

type sfork struct {
	items    []sitem
	nreg     int
	env      map[types.Object]*sbind
	returned bool
	rets     *sbind
	brk      bool
	cont     bool
	dead     bool // panic(...)
}

func (f *sfork) clone() *sfork {
	n := &sfork{nreg: f.nreg, returned: f.returned, rets: f.rets, brk: f.brk, cont: f.cont, dead: f.dead}
	n.items = append([]sitem(nil), f.items...)
	n.env = make(map[types.Object]*sbind, len(f.env))
	for k, v := range f.env {
		n.env[k] = v
	}
	return n
}

func (f *sfork) fresh() int    { f.nreg++; return f.nreg - 1 }
func (f *sfork) emit(it sitem) { f.items = append(f.items, it) }
func (f *sfork) op(it fitem)   { it.kind = "op"; f.items = append(f.items, sitem{fitem: it}) }
func (f *sfork) stopped() bool { return f.returned || f.brk || f.cont || f.dead }

type sres struct {
	f *sfork
	b *sbind
}

type sfunc struct {
	p  *Pkg
	fd *ast.FuncDecl
}

type contract struct {
	name   string // Lean name of the verified entry
	fnKey  string // pkgpath.funcKey ("-" for an aliasing variant, selected by name)
	ptArgs []int  // indices (among call args) of the JacobianPoint arguments, in order
	npts   int    // number of DISTINCT points passed (3 registers each)
	out    int    // index among the distinct points of the one that is written
	pre    string // Lean: List (Option (Nat × Bool)); derived from npts when empty
	post   string // Lean: List (Nat × AV)
}

func (c contract) lean() string {
	pre, post := c.pre, c.post
	if pre == "" {
		var ps, qs []string
		for i := 0; i < 3*c.npts; i++ {
			ps = append(ps, "some (1, true)")
		}
		for i := 0; i < 3; i++ {
			qs = append(qs, fmt.Sprintf("(%d, (1, true))", 3*c.out+i))
		}
		pre, post = "["+strings.Join(ps, ", ")+"]", "["+strings.Join(qs, ", ")+"]"
	}
	return fmt.Sprintf("⟨%q, %s, %s⟩", c.name, pre, post)
}

type sw struct {
	pkgs       []*Pkg
	index      map[string]sfunc
	contracts  []contract
	err        error
	depth      int
	entry      string
	globals    map[string]*sbind // package-level FieldVal variables (root package), by name
	bigInRange bool              // adaptor contract: *big.Int coordinates are in [0, P)
}

type frame struct {
	p *Pkg
}

func (w *sw) fail(p *Pkg, n ast.Node, format string, a ...any) {
	if w.err == nil {
		pos := ""
		if n != nil && p != nil {
			pos = p.pos(n)
		}
		w.err = fmt.Errorf("slice %s: %s: %s", w.entry, pos, fmt.Sprintf(format, a...))
	}
}

// ---- types

func named(t types.Type) (*types.Named, bool) {
	for {
		if p, ok := t.(*types.Pointer); ok {
			t = p.Elem()
			continue
		}
		break
	}
	n, ok := t.(*types.Named)
	return n, ok
}

const rootPath = "github.com/ModChain/secp256k1"

func isFieldVal(t types.Type) bool {
	n, ok := named(t)
	return ok && n.Obj().Name() == "FieldVal" && n.Obj().Pkg() != nil && n.Obj().Pkg().Path() == rootPath
}

// fieldy: the type contains a FieldVal somewhere (through pointers, structs, arrays, slices)
func fieldy(t types.Type) bool { return fieldyD(t, 0) }
func fieldyD(t types.Type, d int) bool {
	if t == nil || d > 6 {
		return false
	}
	if isFieldVal(t) {
		return true
	}
	switch x := t.(type) {
	case *types.Pointer:
		return fieldyD(x.Elem(), d+1)
	case *types.Named:
		if x.Obj().Pkg() == nil || !strings.HasPrefix(x.Obj().Pkg().Path(), rootPath) {
			return false
		}
		return fieldyD(x.Underlying(), d+1)
	case *types.Struct:
		for i := 0; i < x.NumFields(); i++ {
			if fieldyD(x.Field(i).Type(), d+1) {
				return true
			}
		}
	case *types.Array:
		return fieldyD(x.Elem(), d+1)
	case *types.Slice:
		return fieldyD(x.Elem(), d+1)
	case *types.Tuple:
		for i := 0; i < x.Len(); i++ {
			if fieldyD(x.At(i).Type(), d+1) {
				return true
			}
		}
	}
	return false
}

func isBool(t types.Type) bool {
	b, ok := t.Underlying().(*types.Basic)
	return ok && b.Kind() == types.Bool || ok && b.Kind() == types.UntypedBool
}

func isScalarT(t types.Type) bool {
	n, ok := named(t)
	return ok && n.Obj().Name() == "ModNScalar"
}

// mentions: does the expression (or statement) involve a field-bearing value anywhere?
func (w *sw) mentions(p *Pkg, n ast.Node) bool {
	found := false
	ast.Inspect(n, func(x ast.Node) bool {
		if found {
			return false
		}
		if _, ok := x.(*ast.FuncLit); ok {
			return false
		}
		if e, ok := x.(ast.Expr); ok {
			if tv, ok := p.info.Types[e]; ok && fieldy(tv.Type) {
				found = true
			}
			if id, ok := e.(*ast.Ident); ok {
				if o := p.info.Uses[id]; o != nil && fieldy(o.Type()) {
					if _, isType := o.(*types.TypeName); !isType {
						found = true
					}
				}
			}
		}
		return true
	})
	return found
}

// allocate a fresh object of a field-bearing type: FieldVal → register, struct → obj of its field-bearing members
func (w *sw) alloc(f *sfork, t types.Type, zero bool) *sbind {
	if p, ok := t.(*types.Pointer); ok {
		t = p.Elem()
	}
	if isFieldVal(t) {
		r := f.fresh()
		if zero {
			f.op(fitem{op: "zero", d: r})
		}
		return &sbind{kind: "reg", reg: r}
	}
	if st, ok := t.Underlying().(*types.Struct); ok && fieldy(t) {
		o := &sbind{kind: "obj", fields: map[string]*sbind{}}
		for i := 0; i < st.NumFields(); i++ {
			fl := st.Field(i)
			if _, isPtr := fl.Type().(*types.Pointer); isPtr {
				continue
			}
			if fieldy(fl.Type()) {
				if _, isArr := fl.Type().Underlying().(*types.Array); isArr {
					continue
				}
				o.fields[fl.Name()] = w.alloc(f, fl.Type(), zero)
				o.order = append(o.order, fl.Name())
			}
		}
		return o
	}
	return opaqueB
}

// bindable: FieldVal, or a struct (possibly behind pointers) that directly holds field values — the types
// `alloc` gives registers to.  Containers (tables) stay opaque; their entries are bound when indexed.
func bindable(t types.Type) bool {
	for {
		if p, ok := t.(*types.Pointer); ok {
			t = p.Elem()
			continue
		}
		break
	}
	if isFieldVal(t) {
		return true
	}
	if _, ok := t.(*types.Named); !ok {
		return false
	}
	_, isStruct := t.Underlying().(*types.Struct)
	return isStruct && fieldy(t)
}

func regsOf(b *sbind) []int {
	switch b.kind {
	case "reg":
		return []int{b.reg}
	case "obj":
		var out []int
		for _, n := range b.order {
			out = append(out, regsOf(b.fields[n])...)
		}
		return out
	}
	return nil
}

// copy src into a fresh object (value semantics of Go assignment)
func (w *sw) copyOf(f *sfork, src *sbind) *sbind {
	switch src.kind {
	case "reg":
		r := f.fresh()
		f.op(fitem{op: "zero", d: r})
		f.op(fitem{op: "set", d: r, a: src.reg})
		return &sbind{kind: "reg", reg: r}
	case "obj":
		o := &sbind{kind: "obj", fields: map[string]*sbind{}, order: src.order}
		for _, n := range src.order {
			o.fields[n] = w.copyOf(f, src.fields[n])
		}
		return o
	}
	return src
}

// assign src's value into dst's storage
func (w *sw) store(f *sfork, dst, src *sbind) {
	switch {
	case dst.kind == "reg" && src.kind == "reg":
		f.op(fitem{op: "set", d: dst.reg, a: src.reg})
	case dst.kind == "obj" && src.kind == "obj":
		for _, n := range dst.order {
			if s, ok := src.fields[n]; ok {
				w.store(f, dst.fields[n], s)
			}
		}
	}
}

// ---- function lookup

func fkeyOf(fn *types.Func) string {
	sig := fn.Type().(*types.Signature)
	path := ""
	if fn.Pkg() != nil {
		path = fn.Pkg().Path()
	}
	if r := sig.Recv(); r != nil {
		if n, ok := named(r.Type()); ok {
			return path + "." + n.Obj().Name() + "." + fn.Name()
		}
	}
	return path + "." + fn.Name()
}

func (w *sw) calleeOf(p *Pkg, call *ast.CallExpr) *types.Func {
	switch fx := call.Fun.(type) {
	case *ast.Ident:
		if fn, ok := p.info.Uses[fx].(*types.Func); ok {
			return fn
		}
	case *ast.SelectorExpr:
		if sel, ok := p.info.Selections[fx]; ok {
			if fn, ok := sel.Obj().(*types.Func); ok {
				return fn
			}
			return nil
		}
		if fn, ok := p.info.Uses[fx.Sel].(*types.Func); ok {
			return fn
		}
	}
	return nil
}

// ---- expressions

func one(f *sfork, b *sbind) []sres { return []sres{{f, b}} }

// evalAll evaluates a list of expressions left to right over all forks
func (w *sw) evalAll(fr *frame, f *sfork, es []ast.Expr) ([]*sfork, [][]*sbind) {
	fs := []*sfork{f}
	bs := [][]*sbind{nil}
	for _, e := range es {
		var nfs []*sfork
		var nbs [][]*sbind
		for i, cf := range fs {
			for _, r := range w.eval(fr, cf, e) {
				nfs = append(nfs, r.f)
				nbs = append(nbs, append(append([]*sbind(nil), bs[i]...), r.b))
			}
		}
		fs, bs = nfs, nbs
	}
	return fs, bs
}

func (w *sw) eval(fr *frame, f *sfork, e ast.Expr) []sres {
	if w.err != nil {
		return nil
	}
	p := fr.p
	tv := p.info.Types[e]
	if tv.Type != nil && isBool(tv.Type) && tv.Value == nil {
		var out []sres
		for _, c := range w.cond(fr, f, e) {
			out = append(out, sres{c.f, &sbind{kind: "bool", bval: c.val}})
		}
		return out
	}
	switch x := e.(type) {
	case *ast.ParenExpr:
		return w.eval(fr, f, x.X)
	case *ast.BasicLit, *ast.FuncLit:
		return one(f, opaqueB)
	case *ast.Ident:
		obj := p.info.Uses[x]
		if obj == nil {
			obj = p.info.Defs[x]
		}
		if _, isNil := obj.(*types.Nil); isNil {
			return one(f, &sbind{kind: "nil"})
		}
		if b, ok := f.env[obj]; ok {
			return one(f, b)
		}
		if v, ok := obj.(*types.Var); ok && isFieldVal(v.Type()) && v.Pkg() != nil && v.Parent() == v.Pkg().Scope() {
			if g, ok := w.globals[v.Name()]; ok {
				return one(f, g)
			}
			w.fail(p, x, "package-level field value %s is not in the global register table", v.Name())
			return nil
		}
		if obj != nil && fieldy(obj.Type()) {
			if _, isType := obj.(*types.TypeName); !isType {
				if _, isNil := obj.(*types.Nil); !isNil {
					w.fail(p, x, "field-bearing variable %s has no binding", x.Name)
					return nil
				}
			}
		}
		return one(f, opaqueB)
	case *ast.StarExpr:
		return w.eval(fr, f, x.X)
	case *ast.UnaryExpr:
		rs := w.eval(fr, f, x.X)
		if x.Op == token.AND {
			return rs
		}
		for i := range rs {
			if rs[i].b.kind != "bool" {
				rs[i].b = opaqueB
			}
		}
		return rs
	case *ast.SelectorExpr:
		// package-qualified identifier
		if id, ok := x.X.(*ast.Ident); ok {
			if _, isPkg := p.info.Uses[id].(*types.PkgName); isPkg {
				if v, ok := p.info.Uses[x.Sel].(*types.Var); ok && fieldy(v.Type()) {
					w.fail(p, x, "field-bearing variable of another package")
					return nil
				}
				return one(f, opaqueB)
			}
		}
		var out []sres
		for _, r := range w.eval(fr, f, x.X) {
			if r.b.kind == "obj" {
				if fb, ok := r.b.fields[x.Sel.Name]; ok {
					out = append(out, sres{r.f, fb})
					continue
				}
			}
			if tv.Type != nil && fieldy(tv.Type) {
				if _, isSig := tv.Type.Underlying().(*types.Signature); !isSig {
					w.fail(p, x, "selector .%s of a value without field binding", x.Sel.Name)
					return nil
				}
			}
			out = append(out, sres{r.f, opaqueB})
		}
		return out
	case *ast.IndexExpr:
		// bytePoints[i][b]: an entry of the precomputed table — normalised affine point (contract of T4/C03)
		fs, _ := w.evalAll(fr, f, []ast.Expr{x.X, x.Index})
		var out []sres
		for _, cf := range fs {
			if tv.Type != nil && fieldy(tv.Type) {
				n, ok := named(tv.Type)
				if ok && n.Obj().Name() == "JacobianPoint" {
					o := w.alloc(cf, tv.Type, false)
					for _, r := range regsOf(o) {
						cf.emit(sitem{skind: "havoc", fitem: fitem{d: r}, mag: 1, nrm: true})
					}
					out = append(out, sres{cf, o})
					continue
				}
				if _, isArr := tv.Type.Underlying().(*types.Array); isArr {
					out = append(out, sres{cf, opaqueB}) // a row of the table; entries are bound when indexed again
					continue
				}
				w.fail(p, x, "indexing a field-bearing container outside the T2s subset")
				return nil
			}
			out = append(out, sres{cf, opaqueB})
		}
		return out
	case *ast.SliceExpr:
		fs, _ := w.evalAll(fr, f, nonNil(x.X, x.Low, x.High, x.Max))
		var out []sres
		for _, cf := range fs {
			out = append(out, sres{cf, opaqueB})
		}
		return out
	case *ast.BinaryExpr:
		fs, _ := w.evalAll(fr, f, []ast.Expr{x.X, x.Y})
		var out []sres
		for _, cf := range fs {
			out = append(out, sres{cf, opaqueB})
		}
		return out
	case *ast.TypeAssertExpr:
		return w.eval(fr, f, x.X)
	case *ast.CompositeLit:
		var es []ast.Expr
		var names []string
		for _, el := range x.Elts {
			if kv, ok := el.(*ast.KeyValueExpr); ok {
				es = append(es, kv.Value)
				if id, ok := kv.Key.(*ast.Ident); ok {
					names = append(names, id.Name)
				} else {
					names = append(names, "")
				}
			} else {
				es = append(es, el)
				names = append(names, "")
			}
		}
		fs, bs := w.evalAll(fr, f, es)
		var out []sres
		for i, cf := range fs {
			if tv.Type != nil && fieldy(tv.Type) {
				st, ok := tv.Type.Underlying().(*types.Struct)
				if !ok {
					w.fail(p, x, "composite literal of a field-bearing non-struct type")
					return nil
				}
				o := w.alloc(cf, tv.Type, true)
				for j, b := range bs[i] {
					nm := names[j]
					if nm == "" && j < st.NumFields() {
						nm = st.Field(j).Name()
					}
					if dst, ok := o.fields[nm]; ok {
						w.store(cf, dst, b)
					}
				}
				out = append(out, sres{cf, o})
			} else {
				out = append(out, sres{cf, opaqueB})
			}
		}
		return out
	case *ast.CallExpr:
		return w.call(fr, f, x)
	case *ast.KeyValueExpr:
		return w.eval(fr, f, x.Value)
	}
	if w.mentions(p, e) {
		w.fail(p, e, "expression %T outside the T2s subset", e)
		return nil
	}
	return one(f, opaqueB)
}

func nonNil(es ...ast.Expr) []ast.Expr {
	var out []ast.Expr
	for _, e := range es {
		if e != nil {
			out = append(out, e)
		}
	}
	return out
}

type scond struct {
	f   *sfork
	val bool
}

func both(f *sfork) []scond { return []scond{{f, true}, {f.clone(), false}} }

func (w *sw) cond(fr *frame, f *sfork, e ast.Expr) []scond {
	if w.err != nil {
		return nil
	}
	p := fr.p
	if tv, ok := p.info.Types[e]; ok && tv.Value != nil {
		return []scond{{f, tv.Value.String() == "true"}}
	}
	switch x := e.(type) {
	case *ast.ParenExpr:
		return w.cond(fr, f, x.X)
	case *ast.Ident:
		obj := p.info.Uses[x]
		if b, ok := f.env[obj]; ok && b.kind == "bool" {
			return []scond{{f, b.bval}}
		}
		return both(f)
	case *ast.UnaryExpr:
		if x.Op == token.NOT {
			rs := w.cond(fr, f, x.X)
			for i := range rs {
				rs[i].val = !rs[i].val
			}
			return rs
		}
	case *ast.BinaryExpr:
		switch x.Op {
		case token.LAND, token.LOR:
			var out []scond
			for _, l := range w.cond(fr, f, x.X) {
				if (x.Op == token.LAND && !l.val) || (x.Op == token.LOR && l.val) {
					out = append(out, l)
					continue
				}
				out = append(out, w.cond(fr, l.f, x.Y)...)
			}
			return out
		case token.EQL, token.NEQ:
			if tx := p.info.Types[x.X].Type; tx != nil && isBool(tx) && (w.mentions(p, x.X) || w.mentions(p, x.Y)) {
				var out []scond
				for _, l := range w.cond(fr, f, x.X) {
					for _, r := range w.cond(fr, l.f, x.Y) {
						v := l.val == r.val
						if x.Op == token.NEQ {
							v = !v
						}
						out = append(out, scond{r.f, v})
					}
				}
				return out
			}
		}
		// comparison of non-boolean values: evaluate the operands for their field effects; the outcome is
		// unknown unless it is a comparison with nil of a value whose nil-ness is tracked
		fs, bs := w.evalAll(fr, f, []ast.Expr{x.X, x.Y})
		var out []scond
		for i, cf := range fs {
			if x.Op == token.EQL || x.Op == token.NEQ {
				a, b := bs[i][0], bs[i][1]
				if a.kind == "nil" {
					a, b = b, a
				}
				if b.kind == "nil" {
					known, isNil := false, false
					switch a.kind {
					case "nil":
						known, isNil = true, true
					case "nonnil", "reg", "obj":
						known, isNil = true, false
					}
					if known {
						out = append(out, scond{cf, isNil == (x.Op == token.EQL)})
						continue
					}
				}
			}
			out = append(out, both(cf)...)
		}
		return out
	case *ast.CallExpr:
		var out []scond
		for _, r := range w.call(fr, f, x) {
			if r.b.kind == "bool" {
				out = append(out, scond{r.f, r.b.bval})
			} else {
				out = append(out, both(r.f)...)
			}
		}
		return out
	}
	if w.mentions(p, e) {
		w.fail(p, e, "boolean expression %T outside the T2s subset", e)
		return nil
	}
	return both(f)
}

// ---- calls

func (w *sw) call(fr *frame, f *sfork, x *ast.CallExpr) []sres {
	p := fr.p
	// conversions and builtins
	if tv, ok := p.info.Types[x.Fun]; ok && tv.IsType() {
		fs, _ := w.evalAll(fr, f, x.Args)
		var out []sres
		for _, cf := range fs {
			out = append(out, sres{cf, opaqueB})
		}
		return out
	}
	if id, ok := x.Fun.(*ast.Ident); ok {
		if _, isB := p.info.Uses[id].(*types.Builtin); isB {
			switch id.Name {
			case "new":
				t := p.info.Types[x.Args[0]].Type
				if fieldy(t) {
					return one(f, w.alloc(f, t, true))
				}
				return one(f, opaqueB)
			case "panic":
				f.dead = true
				return one(f, opaqueB)
			}
			fs, _ := w.evalAll(fr, f, x.Args)
			var out []sres
			for _, cf := range fs {
				out = append(out, sres{cf, opaqueB})
			}
			return out
		}
	}
	fn := w.calleeOf(p, x)
	if fn == nil {
		// call through a function value (s256BytePoints): arguments must not carry field values and the
		// result must be a container, not a field object
		for _, a := range x.Args {
			if w.mentions(p, a) {
				w.fail(p, x, "indirect call with field-bearing arguments")
				return nil
			}
		}
		if tv, ok := p.info.Types[x]; ok && tv.Type != nil && bindable(tv.Type) {
			w.fail(p, x, "indirect call returning a field object")
			return nil
		}
		return one(f, opaqueB)
	}
	key := fkeyOf(fn)
	sig := fn.Type().(*types.Signature)
	// FieldVal methods
	if sig.Recv() != nil && isFieldVal(sig.Recv().Type()) {
		return w.fieldMethod(fr, f, x, fn.Name())
	}
	// ModNScalar.PutBytes(&buf): remember that buf holds a canonical scalar (< N < P)
	if sig.Recv() != nil && isScalarT(sig.Recv().Type()) {
		if fn.Name() == "PutBytes" && len(x.Args) == 1 {
			if obj := identOf(p, x.Args[0]); obj != nil {
				f.env[obj] = &sbind{kind: "sbytes"}
			}
		}
		if w.mentions(p, x) {
			fs, _ := w.evalAll(fr, f, x.Args)
			var out []sres
			for _, cf := range fs {
				out = append(out, sres{cf, opaqueB})
			}
			return out
		}
		return one(f, opaqueB)
	}
	// receiver and arguments
	var recvE ast.Expr
	if sel, ok := x.Fun.(*ast.SelectorExpr); ok {
		if _, isSel := p.info.Selections[sel]; isSel {
			recvE = sel.X
		}
	}
	// contracted routines
	for ci, c := range w.contracts {
		if c.fnKey == key {
			fs, bs := w.evalAll(fr, f, x.Args)
			var out []sres
			for i, cf := range fs {
				var regs []int
				var pts []*sbind
				for _, ai := range c.ptArgs {
					b := bs[i][ai]
					if b.kind != "obj" || len(regsOf(b)) != 3 {
						w.fail(p, x, "point argument of %s has no binding", fn.Name())
						return nil
					}
					pts = append(pts, b)
				}
				// aliasing pattern
				pat := make([]int, len(pts))
				for a := range pts {
					pat[a] = a
					for b := 0; b < a; b++ {
						if regsOf(pts[b])[0] == regsOf(pts[a])[0] {
							pat[a] = b
							break
						}
					}
				}
				name := variantName(c.name, pat)
				if pretty, ok := map[string]string{"AddNonConst_a010": "AddNonConst_r1", "AddNonConst_a011": "AddNonConst_r2", "DoubleNonConst_a00": "DoubleNonConst_r1"}[name]; ok {
					name = pretty
				}
				idx := -1
				for k, cc := range w.contracts {
					if cc.name == name {
						idx = k
					}
				}
				if idx < 0 {
					w.fail(p, x, "call of %s with aliasing pattern %v has no verified contract (%s)", fn.Name(), pat, name)
					return nil
				}
				_ = ci
				for a, pt := range pts {
					if pat[a] == a {
						regs = append(regs, regsOf(pt)...)
					}
				}
				cf.emit(sitem{skind: "callc", cidx: idx, fitem: fitem{regs: regs, name: name}})
				out = append(out, sres{cf, opaqueB})
			}
			return out
		}
	}
	if errorCtor[key] {
		return one(f, &sbind{kind: "nonnil"})
	}
	if sum, ok := summaries[key]; ok && w.entry != key {
		// assume-guarantee: the callee is an entry of its own; its field-bearing arguments must meet the
		// default contract (normalised) and a returned key is normalised (checked at the callee's returns)
		all := x.Args
		if recvE != nil {
			all = append([]ast.Expr{recvE}, x.Args...)
		}
		fs, bs := w.evalAll(fr, f, all)
		var out []sres
		for i, cf := range fs {
			for _, b := range bs[i] {
				for _, r := range regsOf(b) {
					cf.emit(sitem{skind: "chk", fitem: fitem{a: r}, mag: 1, nrm: true})
				}
			}
			t := sig.Results().At(0).Type()
			okf := cf.clone()
			o := w.alloc(okf, t, false)
			for _, r := range regsOf(o) {
				okf.emit(sitem{skind: "havoc", fitem: fitem{d: r}, mag: 1, nrm: true})
			}
			_ = sum
			out = append(out, sres{okf, &sbind{kind: "tuple", elems: []*sbind{o, {kind: "nil"}}}})
			out = append(out, sres{cf, &sbind{kind: "tuple", elems: []*sbind{{kind: "nil"}, {kind: "nonnil"}}}})
		}
		return out
	}
	sf, have := w.index[key]
	involves := w.mentions(p, x) || (sig.Results() != nil && fieldy(sig.Results()))
	if !have || !involves {
		if have && !involves {
			return one(f, opaqueB)
		}
		// function without source (standard library …): arguments are evaluated, result opaque
		all := x.Args
		if recvE != nil {
			all = append([]ast.Expr{recvE}, x.Args...)
		}
		fs, _ := w.evalAll(fr, f, all)
		var out []sres
		for _, cf := range fs {
			out = append(out, sres{cf, opaqueB})
		}
		if sig.Results() != nil && fieldy(sig.Results()) {
			w.fail(p, x, "call of %s returns field values but has no source", key)
			return nil
		}
		return out
	}
	// inline
	all := x.Args
	if recvE != nil {
		all = append([]ast.Expr{recvE}, x.Args...)
	}
	fs, bs := w.evalAll(fr, f, all)
	var out []sres
	for i, cf := range fs {
		out = append(out, w.inline(sf, cf, bs[i], recvE != nil, x)...)
	}
	return out
}

// functions returning (*PublicKey, error) that are analysed as entries of their own and summarised at call sites
var summaries = map[string]string{
	rootPath + ".ParsePubKey":                "s_ParsePubKey",
	rootPath + ".Signature.RecoverPublicKey": "s_Signature_RecoverPublicKey",
}

// functions that always return a non-nil error
var errorCtor = map[string]bool{
	rootPath + ".makeError": true, rootPath + ".signatureError": true, rootPath + "/schnorr.signatureError": true,
	"fmt.Errorf": true, "errors.New": true,
}

func identOf(p *Pkg, e ast.Expr) types.Object {
	for {
		switch x := e.(type) {
		case *ast.ParenExpr:
			e = x.X
			continue
		case *ast.UnaryExpr:
			if x.Op == token.AND {
				e = x.X
				continue
			}
		case *ast.SliceExpr:
			e = x.X
			continue
		case *ast.Ident:
			return p.info.Uses[x]
		}
		return nil
	}
}

func (w *sw) inline(sf sfunc, f *sfork, args []*sbind, hasRecv bool, at ast.Node) []sres {
	if w.depth > 10 {
		w.fail(sf.p, at, "inlining too deep")
		return nil
	}
	w.depth++
	defer func() { w.depth-- }()
	saved := f.env
	env := map[types.Object]*sbind{}
	i := 0
	bindParam := func(nm *ast.Ident, isValue bool) {
		obj := sf.p.info.Defs[nm]
		if i < len(args) && obj != nil {
			b := args[i]
			if isValue && (b.kind == "reg" || b.kind == "obj") {
				b = w.copyOf(f, b) // value receiver / value parameter: the callee works on a copy
			}
			env[obj] = b
		}
		i++
	}
	fd := sf.fd
	if fd.Recv != nil {
		if hasRecv {
			_, isPtr := fd.Recv.List[0].Type.(*ast.StarExpr)
			if len(fd.Recv.List[0].Names) > 0 {
				bindParam(fd.Recv.List[0].Names[0], !isPtr)
			} else {
				i++
			}
		}
	}
	for _, fld := range fd.Type.Params.List {
		_, isPtr := fld.Type.(*ast.StarExpr)
		for _, nm := range fld.Names {
			bindParam(nm, !isPtr)
		}
		if len(fld.Names) == 0 {
			i++
		}
	}
	// named results
	if fd.Type.Results != nil {
		for _, fld := range fd.Type.Results.List {
			for _, nm := range fld.Names {
				obj := sf.p.info.Defs[nm]
				if obj != nil && fieldy(obj.Type()) {
					if _, isPtr := obj.Type().(*types.Pointer); !isPtr {
						env[obj] = w.alloc(f, obj.Type(), true)
					}
				}
			}
		}
	}
	f.env = env
	res := w.block(&frame{sf.p}, f, fd.Body.List)
	var out []sres
	for _, r := range res {
		b := r.rets
		if b == nil {
			b = opaqueB
		}
		r.returned, r.rets = false, nil
		r.env = make(map[types.Object]*sbind, len(saved))
		for k, v := range saved {
			r.env[k] = v
		}
		out = append(out, sres{r, b})
	}
	return out
}

func (w *sw) fieldMethod(fr *frame, f *sfork, x *ast.CallExpr, name string) []sres {
	p := fr.p
	sel := x.Fun.(*ast.SelectorExpr)
	cint := func(e ast.Expr) int64 {
		tv, ok := p.info.Types[e]
		if !ok || tv.Value == nil {
			w.fail(p, x, "non-constant integer argument to %s", name)
			return 0
		}
		k := &kernel{p: p}
		ce := k.constOf(e)
		if ce == nil {
			w.fail(p, x, "non-constant integer argument to %s", name)
			return 0
		}
		return ce.n.Int64()
	}
	// argument classes
	regArgs := map[string][]int{"Set": {0}, "NegateVal": {0}, "Add": {0}, "Add2": {0, 1}, "Mul": {0}, "Mul2": {0, 1},
		"SquareVal": {0}, "Equals": {0}, "SquareRootVal": {0}}
	es := []ast.Expr{sel.X}
	for _, ai := range regArgs[name] {
		es = append(es, x.Args[ai])
	}
	// non-register arguments that may still contain field expressions (byte slices …)
	var others []ast.Expr
	for ai, a := range x.Args {
		isReg := false
		for _, r := range regArgs[name] {
			if r == ai {
				isReg = true
			}
		}
		if !isReg {
			others = append(others, a)
		}
	}
	fs, bs := w.evalAll(fr, f, append(es, others...))
	var out []sres
	for i, cf := range fs {
		for _, b := range bs[i][:len(es)] {
			if b.kind != "reg" {
				w.fail(p, x, "operand of FieldVal.%s is not a register", name)
				return nil
			}
		}
		d := bs[i][0].reg
		self := bs[i][0]
		arg := func(k int) int { return bs[i][1+k].reg }
		chk := func(a int) { cf.emit(sitem{skind: "chk", fitem: fitem{a: a}, mag: 1, nrm: true}) }
		switch name {
		case "Set":
			cf.op(fitem{op: "set", d: d, a: arg(0)})
		case "SetInt":
			cf.op(fitem{op: "setInt", d: d, v: cint(x.Args[0])})
		case "Zero":
			cf.op(fitem{op: "zero", d: d})
		case "Negate":
			cf.op(fitem{op: "neg", d: d, a: d, v: cint(x.Args[0])})
		case "NegateVal":
			cf.op(fitem{op: "neg", d: d, a: arg(0), v: cint(x.Args[1])})
		case "Add":
			cf.op(fitem{op: "add", d: d, a: arg(0)})
		case "Add2":
			cf.op(fitem{op: "add2", d: d, a: arg(0), b: arg(1)})
		case "AddInt":
			cf.op(fitem{op: "addInt", d: d, v: cint(x.Args[0])})
		case "MulInt":
			cf.op(fitem{op: "mulInt", d: d, v: cint(x.Args[0])})
		case "Mul":
			cf.op(fitem{op: "mul2", d: d, a: d, b: arg(0)})
		case "Mul2":
			cf.op(fitem{op: "mul2", d: d, a: arg(0), b: arg(1)})
		case "Square":
			cf.op(fitem{op: "sq", d: d, a: d})
		case "SquareVal":
			cf.op(fitem{op: "sq", d: d, a: arg(0)})
		case "Normalize":
			cf.op(fitem{op: "norm", d: d})
		case "Inverse", "SquareRootVal":
			idx := -1
			for k, cc := range w.contracts {
				if cc.name == name {
					idx = k
				}
			}
			if idx < 0 {
				w.fail(p, x, "no contract for FieldVal.%s", name)
				return nil
			}
			if name == "Inverse" {
				cf.emit(sitem{skind: "callc", cidx: idx, fitem: fitem{regs: []int{d}, name: name}})
				out = append(out, sres{cf, self})
			} else {
				if d == arg(0) {
					w.fail(p, x, "SquareRootVal with receiver aliasing its argument")
					return nil
				}
				cf.emit(sitem{skind: "callc", cidx: idx, fitem: fitem{regs: []int{d, arg(0)}, name: name}})
				for _, v := range []bool{true, false} {
					out = append(out, sres{cf.clone(), &sbind{kind: "bool", bval: v}})
				}
			}
			continue
		case "IsZero", "IsOne", "IsOdd", "Equals":
			pred := map[string]string{"Equals": "equals", "IsZero": "isZero", "IsOne": "isOne", "IsOdd": "isOdd"}[name]
			b := 0
			if name == "Equals" {
				b = arg(0)
			}
			for _, v := range []bool{true, false} {
				nf := cf.clone()
				nf.emit(sitem{fitem: fitem{kind: "assume", op: pred, a: d, b: b, val: v}})
				out = append(out, sres{nf, &sbind{kind: "bool", bval: v}})
			}
			continue
		case "IsZeroBit", "IsOneBit", "IsOddBit", "IsGtOrEqPrimeMinusOrder", "PutBytes", "PutBytesUnchecked", "Bytes", "String":
			// methods that read the limbs as a canonical value: the operand must be normalised
			chk(d)
			if name == "IsGtOrEqPrimeMinusOrder" {
				for _, v := range []bool{true, false} {
					nf := cf.clone()
					out = append(out, sres{nf, &sbind{kind: "bool", bval: v}})
				}
				continue
			}
			out = append(out, sres{cf, opaqueB})
			continue
		case "SetBytes", "SetByteSlice":
			// bytes from outside: magnitude 1; normalised exactly when the value is below P
			known := false
			if obj := identOf(p, x.Args[0]); obj != nil {
				if b, ok := cf.env[obj]; ok && b.kind == "sbytes" {
					known = true // 32 bytes written by ModNScalar.PutBytes: a value < N < P
				}
			}
			if w.bigInRange && isBigBytes(p, x.Args[0]) {
				known = true // adaptor contract: coordinates are in [0, P)
			}
			if known {
				cf.emit(sitem{skind: "havoc", fitem: fitem{d: d}, mag: 1, nrm: true})
				out = append(out, sres{cf, &sbind{kind: "bool", bval: false}})
				continue
			}
			if name == "SetByteSlice" {
				// returns a Go bool: overflow ⇔ value ≥ P
				t := cf.clone()
				t.emit(sitem{skind: "havoc", fitem: fitem{d: d}, mag: 1, nrm: false})
				out = append(out, sres{t, &sbind{kind: "bool", bval: true}})
				cf.emit(sitem{skind: "havoc", fitem: fitem{d: d}, mag: 1, nrm: true})
				out = append(out, sres{cf, &sbind{kind: "bool", bval: false}})
				continue
			}
			cf.emit(sitem{skind: "havoc", fitem: fitem{d: d}, mag: 1, nrm: false})
			out = append(out, sres{cf, opaqueB})
			continue
		default:
			w.fail(p, x, "FieldVal method %s outside the T2s subset", name)
			return nil
		}
		out = append(out, sres{cf, self})
	}
	return out
}

// x.Bytes() with x a *big.Int
func isBigBytes(p *Pkg, e ast.Expr) bool {
	c, ok := e.(*ast.CallExpr)
	if !ok {
		return false
	}
	sel, ok := c.Fun.(*ast.SelectorExpr)
	if !ok || sel.Sel.Name != "Bytes" {
		return false
	}
	t := p.info.Types[sel.X].Type
	n, ok := named(t)
	return ok && n.Obj().Name() == "Int" && n.Obj().Pkg() != nil && n.Obj().Pkg().Path() == "math/big"
}

// ---- statements

func (w *sw) block(fr *frame, f *sfork, stmts []ast.Stmt) []*sfork {
	cur := []*sfork{f}
	for _, s := range stmts {
		var next []*sfork
		for _, cf := range cur {
			if cf.stopped() || w.err != nil {
				next = append(next, cf)
				continue
			}
			next = append(next, w.stmt(fr, cf, s)...)
		}
		cur = dedupe(next)
		if len(cur) > 20000 {
			w.fail(fr.p, s, "path explosion (%d paths)", len(cur))
			return nil
		}
	}
	return cur
}

func bindKey(b *sbind) string {
	if b == nil {
		return "-"
	}
	switch b.kind {
	case "reg":
		return fmt.Sprintf("r%d", b.reg)
	case "obj":
		return fmt.Sprint("o", regsOf(b))
	case "bool":
		return fmt.Sprint("b", b.bval)
	case "tuple":
		s := "t("
		for _, e := range b.elems {
			s += bindKey(e) + ","
		}
		return s + ")"
	}
	return b.kind
}

func dedupe(fs []*sfork) []*sfork {
	if len(fs) < 2 {
		return fs
	}
	seen := map[string]bool{}
	var out []*sfork
	for _, f := range fs {
		var sb strings.Builder
		for _, it := range f.items {
			sb.WriteString(it.lean())
			sb.WriteByte(';')
		}
		fmt.Fprintf(&sb, "|%v%v%v%v|%s|", f.returned, f.brk, f.cont, f.dead, bindKey(f.rets))
		var ks []string
		for o, b := range f.env {
			if b.kind == "opaque" {
				continue
			}
			ks = append(ks, fmt.Sprintf("%s@%d=%s", o.Name(), o.Pos(), bindKey(b)))
		}
		sort.Strings(ks)
		sb.WriteString(strings.Join(ks, ","))
		k := sb.String()
		if !seen[k] {
			seen[k] = true
			out = append(out, f)
		}
	}
	return out
}

func (w *sw) assignTo(fr *frame, f *sfork, lhs ast.Expr, b *sbind, define bool, rhs ast.Expr) {
	p := fr.p
	if id, ok := lhs.(*ast.Ident); ok {
		if id.Name == "_" {
			return
		}
		var obj types.Object
		if define {
			obj = p.info.Defs[id]
		}
		if obj == nil {
			obj = p.info.Uses[id]
		}
		if obj == nil {
			return
		}
		t := obj.Type()
		_, isPtr := t.(*types.Pointer)
		if (b.kind == "reg" || b.kind == "obj") && !isPtr {
			// value semantics: copy unless the right-hand side is a fresh temporary (call result, literal)
			fresh := false
			switch rhs.(type) {
			case *ast.CallExpr, *ast.CompositeLit:
				fresh = true
			}
			if old, ok := f.env[obj]; ok && !define && (old.kind == "reg" || old.kind == "obj") {
				w.store(f, old, b)
				return
			}
			if !fresh {
				b = w.copyOf(f, b)
			}
		}
		if (b.kind == "opaque" || b.kind == "nonnil") && bindable(t) {
			// a FieldVal / struct-of-FieldVal variable whose storage we do not know
			w.fail(p, lhs, "cannot bind field-bearing variable %s", id.Name)
		}
		f.env[obj] = b
		return
	}
	// assignment through a selector / dereference: store into the target's registers
	if w.mentions(p, lhs) {
		rs := w.eval(fr, f, lhs)
		if len(rs) != 1 {
			w.fail(p, lhs, "forking assignment target")
			return
		}
		dst := rs[0].b
		if (dst.kind == "reg" || dst.kind == "obj") && (b.kind == "reg" || b.kind == "obj") {
			w.store(f, dst, b)
			return
		}
		if dst.kind == "reg" || dst.kind == "obj" {
			w.fail(p, lhs, "assignment of an unknown value to a field-bearing target")
		}
	}
}

func (w *sw) stmt(fr *frame, f *sfork, s ast.Stmt) []*sfork {
	p := fr.p
	switch st := s.(type) {
	case *ast.EmptyStmt:
		return []*sfork{f}
	case *ast.BlockStmt:
		return w.block(fr, f, st.List)
	case *ast.LabeledStmt:
		return w.stmt(fr, f, st.Stmt)
	case *ast.DeclStmt:
		gd := st.Decl.(*ast.GenDecl)
		if gd.Tok != token.VAR {
			return []*sfork{f}
		}
		cur := []*sfork{f}
		for _, sp := range gd.Specs {
			vs := sp.(*ast.ValueSpec)
			if len(vs.Values) == 0 {
				for _, cf := range cur {
					for _, nm := range vs.Names {
						obj := p.info.Defs[nm]
						if obj != nil && fieldy(obj.Type()) {
							if _, isPtr := obj.Type().(*types.Pointer); isPtr {
								continue
							}
							b := w.alloc(cf, obj.Type(), true)
							if b.kind == "opaque" {
								w.fail(p, nm, "cannot allocate field-bearing variable %s of type %s", nm.Name, obj.Type())
							}
							cf.env[obj] = b
						}
					}
				}
				continue
			}
			var next []*sfork
			for _, cf := range cur {
				fs, bs := w.evalAll(fr, cf, vs.Values)
				for i, nf := range fs {
					if nf.dead {
						next = append(next, nf)
						continue
					}
					if len(vs.Names) == len(vs.Values) {
						for j, nm := range vs.Names {
							w.assignTo(fr, nf, nm, bs[i][j], true, vs.Values[j])
						}
					} else if len(vs.Values) == 1 && bs[i][0].kind == "tuple" {
						for j, nm := range vs.Names {
							w.assignTo(fr, nf, nm, bs[i][0].elems[j], true, vs.Values[0])
						}
					}
					next = append(next, nf)
				}
			}
			cur = next
		}
		return cur
	case *ast.AssignStmt:
		if st.Tok != token.DEFINE && st.Tok != token.ASSIGN {
			// op-assignment (+=, |=, …) on non-field values
			if w.mentions(p, st) {
				w.fail(p, st, "operator assignment involving field values")
				return nil
			}
			return []*sfork{f}
		}
		fs, bs := w.evalAll(fr, f, st.Rhs)
		for i, nf := range fs {
			if nf.dead {
				continue
			}
			vals := bs[i]
			if len(st.Lhs) != len(st.Rhs) {
				if len(st.Rhs) == 1 && vals[0].kind == "tuple" && len(vals[0].elems) == len(st.Lhs) {
					vals = vals[0].elems
				} else {
					vals = make([]*sbind, len(st.Lhs))
					for j := range vals {
						vals[j] = opaqueB
					}
					if w.mentions(p, st) && fieldyLhs(p, st.Lhs) {
						w.fail(p, st, "multi-value assignment of field-bearing results without bindings")
						return nil
					}
				}
			}
			for j, l := range st.Lhs {
				rhs := st.Rhs[0]
				if len(st.Rhs) == len(st.Lhs) {
					rhs = st.Rhs[j]
				}
				w.assignTo(fr, nf, l, vals[j], st.Tok == token.DEFINE, rhs)
			}
		}
		return fs
	case *ast.IncDecStmt:
		return []*sfork{f}
	case *ast.ExprStmt:
		var out []*sfork
		for _, r := range w.eval(fr, f, st.X) {
			out = append(out, r.f)
		}
		return out
	case *ast.IfStmt:
		cur := []*sfork{f}
		if st.Init != nil {
			cur = w.stmt(fr, f, st.Init)
		}
		var out []*sfork
		for _, cf := range cur {
			if cf.stopped() {
				out = append(out, cf)
				continue
			}
			for _, r := range w.cond(fr, cf, st.Cond) {
				if r.val {
					out = append(out, w.block(fr, r.f, st.Body.List)...)
				} else if st.Else != nil {
					out = append(out, w.stmt(fr, r.f, st.Else)...)
				} else {
					out = append(out, r.f)
				}
			}
		}
		return out
	case *ast.SwitchStmt:
		cur := []*sfork{f}
		if st.Init != nil {
			cur = w.stmt(fr, f, st.Init)
		}
		var out []*sfork
		for _, cf := range cur {
			if st.Tag != nil {
				if w.mentions(p, st.Tag) {
					w.fail(p, st, "switch on a field-bearing value")
					return nil
				}
				// any clause may be taken (the tag is not a field value); fallthrough is not used in this code base
				hasDefault := false
				for _, cc := range st.Body.List {
					cl := cc.(*ast.CaseClause)
					if cl.List == nil {
						hasDefault = true
					}
					for _, b := range cl.Body {
						if br, ok := b.(*ast.BranchStmt); ok && br.Tok == token.FALLTHROUGH {
							w.fail(p, br, "fallthrough")
							return nil
						}
					}
					nf := cf.clone()
					rs := w.block(fr, nf, cl.Body)
					for _, r := range rs {
						r.brk = false // break leaves the switch
					}
					out = append(out, rs...)
				}
				if !hasDefault {
					out = append(out, cf)
				}
				continue
			}
			pending := []*sfork{cf}
			for _, cc := range st.Body.List {
				cl := cc.(*ast.CaseClause)
				if cl.List == nil {
					for _, pf := range pending {
						rs := w.block(fr, pf, cl.Body)
						for _, r := range rs {
							r.brk = false
						}
						out = append(out, rs...)
					}
					pending = nil
					continue
				}
				var still []*sfork
				for _, pf := range pending {
					// case a, b: taken when any expression holds
					rem := []*sfork{pf}
					for _, ce := range cl.List {
						var nrem []*sfork
						for _, rf := range rem {
							for _, r := range w.cond(fr, rf, ce) {
								if r.val {
									rs := w.block(fr, r.f, cl.Body)
									for _, q := range rs {
										q.brk = false
									}
									out = append(out, rs...)
								} else {
									nrem = append(nrem, r.f)
								}
							}
						}
						rem = nrem
					}
					still = append(still, rem...)
				}
				pending = still
			}
			out = append(out, pending...)
		}
		return out
	case *ast.ForStmt, *ast.RangeStmt:
		var body *ast.BlockStmt
		var pre []ast.Stmt
		var condE ast.Expr
		var post ast.Stmt
		if fs, ok := st.(*ast.ForStmt); ok {
			body, condE, post = fs.Body, fs.Cond, fs.Post
			if fs.Init != nil {
				pre = append(pre, fs.Init)
			}
		} else {
			rs := st.(*ast.RangeStmt)
			body = rs.Body
			if w.mentions(p, rs.X) {
				w.fail(p, rs, "range over a field-bearing container")
				return nil
			}
		}
		if !w.mentions(p, body) && (condE == nil || !w.mentions(p, condE)) {
			// a loop without field effects; it may still return or panic, which ends paths we do not need
			return []*sfork{f}
		}
		if condE != nil && w.mentions(p, condE) {
			w.fail(p, st, "loop condition involving field values")
			return nil
		}
		if post != nil && w.mentions(p, post) {
			w.fail(p, st, "loop post statement involving field values")
			return nil
		}
		cur := []*sfork{f}
		for _, s0 := range pre {
			var nx []*sfork
			for _, cf := range cur {
				nx = append(nx, w.stmt(fr, cf, s0)...)
			}
			cur = nx
		}
		var out []*sfork
		for _, cf := range cur {
			headEnv := map[types.Object]string{}
			for o, b := range cf.env {
				headEnv[o] = bindKey(b)
			}
			cf.emit(sitem{skind: "lb"})
			for _, r := range w.block(fr, cf, body.List) {
				switch {
				case r.returned || r.dead:
					out = append(out, r)
					continue
				case r.brk:
					r.brk = false
					r.emit(sitem{skind: "brk"})
				default:
					r.cont = false
					r.emit(sitem{skind: "le"})
				}
				// variables that existed at the head must still denote the same storage
				for o, k := range headEnv {
					if nb, ok := r.env[o]; ok && bindKey(nb) != k {
						w.fail(p, st, "loop body rebinds %s", o.Name())
						return nil
					}
				}
				out = append(out, r)
			}
		}
		return out
	case *ast.BranchStmt:
		switch st.Tok {
		case token.BREAK:
			if st.Label != nil {
				w.fail(p, st, "labelled break")
				return nil
			}
			f.brk = true
		case token.CONTINUE:
			if st.Label != nil {
				w.fail(p, st, "labelled continue")
				return nil
			}
			f.cont = true
		default:
			w.fail(p, st, "branch statement %s", st.Tok)
			return nil
		}
		return []*sfork{f}
	case *ast.ReturnStmt:
		if len(st.Results) == 0 {
			f.returned = true
			return []*sfork{f}
		}
		fs, bs := w.evalAll(fr, f, st.Results)
		for i, nf := range fs {
			nf.returned = true
			if len(bs[i]) == 1 {
				nf.rets = bs[i][0]
			} else {
				nf.rets = &sbind{kind: "tuple", elems: bs[i]}
			}
		}
		return fs
	case *ast.DeferStmt, *ast.GoStmt:
		if w.mentions(p, st) {
			w.fail(p, st, "defer/go involving field values")
			return nil
		}
		return []*sfork{f}
	}
	if w.mentions(p, s) {
		w.fail(p, s, "statement %T outside the T2s subset", s)
		return nil
	}
	return []*sfork{f}
}

func fieldyLhs(p *Pkg, lhs []ast.Expr) bool {
	for _, l := range lhs {
		if tv, ok := p.info.Types[l]; ok && fieldy(tv.Type) {
			return true
		}
		if id, ok := l.(*ast.Ident); ok {
			if o := p.info.Defs[id]; o != nil && fieldy(o.Type()) {
				return true
			}
		}
	}
	return false
}

// ---- entries

type sliceEntry struct {
	lean     string
	key      string
	nparam   int
	nglobal  int
	nreg     int
	in       []string // abstract input contract per parameter register, Lean syntax
	outs     []int    // registers that must end normalised (result points)
	retNorm  bool
	paths    [][]sitem
	regNames []string
	note     string
}

// per-entry overrides of the default contract (every field-bearing parameter normalised)
type sliceSpec struct {
	inMag      map[string]int // parameter name → magnitude bound (not normalised)
	bigInRange bool
	outParams  []string // point parameters that must end normalised
	alias      map[string]string
}

var sliceSpecs = map[string]sliceSpec{
	rootPath + ".ScalarMultNonConst":            {outParams: []string{"result"}},
	rootPath + ".ScalarBaseMultNonConst":        {outParams: []string{"result"}},
	rootPath + ".bigAffineToJacobian":           {bigInRange: true, outParams: []string{"result"}},
	rootPath + ".KoblitzCurve.IsOnCurve":        {bigInRange: true},
	rootPath + ".KoblitzCurve.Add":              {bigInRange: true},
	rootPath + ".KoblitzCurve.Double":           {bigInRange: true},
	rootPath + ".KoblitzCurve.ScalarMult":       {bigInRange: true},
	rootPath + "/ecckd.asFV":                    {bigInRange: true},
	rootPath + "/ecckd.ExtendedKey.ChildWithIL": {bigInRange: true},
	rootPath + "/ecckd.ExtendedKey.Child":       {bigInRange: true},
	rootPath + ".PublicKey.AsJacobian":          {outParams: []string{"result"}},
	rootPath + ".JacobianPoint.Set":             {outParams: []string{"p"}},
}

// functions handled by other passes or outside the analysed surface
func sliceSkip(p *Pkg, fd *ast.FuncDecl, key string) bool {
	file := p.fset.Position(fd.Pos()).Filename
	base := file[strings.LastIndex(file, "/")+1:]
	if base == "field.go" {
		return true // T1 kernels and the chains extracted by T2
	}
	for _, es := range formulaEntries {
		if rootPath+"."+es.fn == key {
			return true
		}
	}
	switch key {
	case rootPath + ".hexToFieldVal", rootPath + ".MakeJacobianPoint":
		return true // init-time constants / a constructor that copies caller-supplied values verbatim
	}
	return false
}

func passSlices(pkgs []*Pkg) (string, []string) {
	var errs []string
	w0 := &sw{pkgs: pkgs, index: map[string]sfunc{}}
	for _, p := range pkgs {
		for k, fd := range p.funcs {
			if fd.Body != nil {
				w0.index[p.pkg.Path()+"."+k] = sfunc{p, fd}
			}
		}
	}
	contracts := []contract{
		{name: "AddNonConst", fnKey: rootPath + ".AddNonConst", ptArgs: []int{0, 1, 2}, npts: 3, out: 2},
		{name: "AddNonConst_r1", fnKey: "-", npts: 2, out: 0}, {name: "AddNonConst_r2", fnKey: "-", npts: 2, out: 1},
		{name: "DoubleNonConst", fnKey: rootPath + ".DoubleNonConst", ptArgs: []int{0, 1}, npts: 2, out: 1},
		{name: "DoubleNonConst_r1", fnKey: "-", npts: 1, out: 0},
		{name: rootPath + ".ScalarMultNonConst", fnKey: rootPath + ".ScalarMultNonConst", ptArgs: []int{1, 2}, npts: 2, out: 1},
		{name: rootPath + ".ScalarBaseMultNonConst", fnKey: rootPath + ".ScalarBaseMultNonConst", ptArgs: []int{1}, npts: 1, out: 0},
		// the addition chains: f.Inverse() — f of magnitude ≤ 8 becomes f^(P-2), magnitude 1;
		// f.SquareRootVal(val) — val of magnitude ≤ 8 is normalised in place, f becomes a candidate root of magnitude 1
		{name: "Inverse", fnKey: "-", pre: "[some (8, false)]", post: "[(0, (1, false))]"},
		{name: "SquareRootVal", fnKey: "-", pre: "[none, some (8, false)]", post: "[(0, (1, false)), (1, (1, true))]"},
	}
	// package-level FieldVal variables of the root package
	var gnames []string
	root := pkgs[0]
	sc := root.pkg.Scope()
	for _, n := range sc.Names() {
		if v, ok := sc.Lookup(n).(*types.Var); ok && isFieldVal(v.Type()) {
			gnames = append(gnames, n)
		}
	}
	sort.Strings(gnames)

	var keys []string
	for k, sf := range w0.index {
		if sliceSkip(sf.p, sf.fd, k) {
			continue
		}
		probe := &sw{}
		if !probe.mentions(sf.p, sf.fd.Body) && !probe.mentionsParams(sf.p, sf.fd) {
			continue
		}
		keys = append(keys, k)
	}
	sort.Strings(keys)
	var entries []*sliceEntry
	for _, k := range keys {
		sf := w0.index[k]
		spec := sliceSpecs[k]
		w := &sw{pkgs: pkgs, index: w0.index, contracts: contracts, globals: map[string]*sbind{}, bigInRange: spec.bigInRange}
		w.entry = k
		f := &sfork{env: map[types.Object]*sbind{}}
		e := &sliceEntry{key: k, lean: leanName(k)}
		bindP := func(nm *ast.Ident) {
			obj := sf.p.info.Defs[nm]
			if obj == nil || !fieldy(obj.Type()) {
				if obj != nil && isBool(obj.Type()) {
					// unknown boolean parameter: every use forks
				}
				return
			}
			b := w.alloc(f, obj.Type(), false)
			if b.kind == "opaque" {
				return
			}
			f.env[obj] = b
			for _, r := range regsOf(b) {
				_ = r
				if m, ok := spec.inMag[nm.Name]; ok {
					e.in = append(e.in, fmt.Sprintf("some (%d, false)", m))
				} else {
					e.in = append(e.in, "some (1, true)")
				}
				e.regNames = append(e.regNames, nm.Name)
			}
			for _, o := range spec.outParams {
				if o == nm.Name {
					e.outs = append(e.outs, regsOf(b)...)
				}
			}
		}
		if sf.fd.Recv != nil && len(sf.fd.Recv.List[0].Names) > 0 {
			bindP(sf.fd.Recv.List[0].Names[0])
		}
		for _, fld := range sf.fd.Type.Params.List {
			for _, nm := range fld.Names {
				bindP(nm)
			}
		}
		e.nparam = f.nreg
		for _, g := range gnames {
			r := f.fresh()
			w.globals[g] = &sbind{kind: "reg", reg: r}
			e.in = append(e.in, "some (1, true)")
			e.regNames = append(e.regNames, g)
		}
		e.nglobal = len(gnames)
		// named results of the entry itself
		if sf.fd.Type.Results != nil {
			for _, fld := range sf.fd.Type.Results.List {
				for _, nm := range fld.Names {
					obj := sf.p.info.Defs[nm]
					if obj != nil && fieldy(obj.Type()) {
						if _, isPtr := obj.Type().(*types.Pointer); !isPtr {
							f.env[obj] = w.alloc(f, obj.Type(), true)
						}
					}
				}
			}
		}
		res := w.block(&frame{sf.p}, f, sf.fd.Body.List)
		if w.err != nil {
			errs = append(errs, w.err.Error())
			continue
		}
		res = dedupe(res)
		for _, r := range res {
			items := r.items
			// class invariant: a returned PublicKey / FieldVal-bearing object has normalised coordinates
			if r.returned && r.rets != nil {
				for _, b := range flattenRet(r.rets) {
					for _, rg := range regsOf(b) {
						items = append(items, sitem{skind: "chk", fitem: fitem{a: rg}, mag: 1, nrm: true})
					}
				}
			}
			for _, o := range e.outs {
				items = append(items, sitem{skind: "chk", fitem: fitem{a: o}, mag: 1, nrm: true})
			}
			if r.dead {
				// a path that ends in panic(...) has no result to check
				items = r.items
			}
			e.paths = append(e.paths, items)
			if r.nreg > e.nreg {
				e.nreg = r.nreg
			}
		}
		entries = append(entries, e)
	}
	// render
	var sb strings.Builder
	sb.WriteString("import Secp.Core.FSlice\n/- GENERATED by tools/gotr (pass T2s) from /repo — do not edit.\n   Sliced field programs: every function outside field.go / the T2 point formulas whose body touches\n   field values, as the complete list of its paths (see tools/gotr/slice.go for the item vocabulary). -/\nset_option maxRecDepth 100000\nnamespace Secp.Gen.Slices\nopen Secp.FOp\n\n")
	fmt.Fprintf(&sb, "/-- contracts of the routines that are called, not inlined: name of the verified entry, number of distinct\n    point arguments, index of the written point; each is justified by a theorem of Props/C16 -/\ndef contracts : List Contract := [%s]\n\n", quoteJoin(contracts))
	var names []string
	for _, e := range entries {
		var pn []string
		for i, items := range e.paths {
			its := make([]string, len(items))
			for j, it := range items {
				its[j] = it.lean()
			}
			n := fmt.Sprintf("%s_p%d", e.lean, i)
			fmt.Fprintf(&sb, "def %s : List SItem := [%s]\n", n, strings.Join(its, ", "))
			pn = append(pn, n)
		}
		fmt.Fprintf(&sb, "/-- %s; input registers: %s -/\n", e.key, regTable(e.regNames))
		fmt.Fprintf(&sb, "def %s : SEntry := {\n  name := %q\n  nin := %d\n  σ0 := [%s]\n  paths := [%s]\n}\n\n", e.lean, e.key, len(e.in), strings.Join(e.in, ", "), strings.Join(pn, ", "))
		names = append(names, e.lean)
	}
	fmt.Fprintf(&sb, "def allSlices : List SEntry := [%s]\n\nend Secp.Gen.Slices\n", strings.Join(names, ", "))
	return sb.String(), errs
}

func flattenRet(b *sbind) []*sbind {
	if b.kind == "tuple" {
		var out []*sbind
		for _, e := range b.elems {
			out = append(out, flattenRet(e)...)
		}
		return out
	}
	return []*sbind{b}
}

func quoteJoin(cs []contract) string {
	var out []string
	for _, c := range cs {
		out = append(out, c.lean())
	}
	return strings.Join(out, ", ")
}

func leanName(key string) string {
	s := strings.TrimPrefix(key, rootPath)
	s = strings.TrimPrefix(s, "/")
	s = strings.TrimPrefix(s, ".")
	s = strings.NewReplacer("/", "_", ".", "_").Replace(s)
	return "s_" + s
}

func (w *sw) mentionsParams(p *Pkg, fd *ast.FuncDecl) bool {
	chk := func(fl *ast.FieldList) bool {
		if fl == nil {
			return false
		}
		for _, f := range fl.List {
			if tv, ok := p.info.Types[f.Type]; ok && fieldy(tv.Type) {
				return true
			}
		}
		return false
	}
	return chk(fd.Recv) || chk(fd.Type.Params)
}
