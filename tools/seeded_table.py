#!/usr/bin/env python3
"""Print the table 'which check catches which seeded change' from seeded/*/meta.json (markdown)."""
import json, glob, os
V = os.path.dirname(os.path.dirname(os.path.abspath(__file__)))
rows = []
for mp in sorted(glob.glob(os.path.join(V, "seeded", "*", "meta.json"))):
    m = json.load(open(mp))
    name = os.path.basename(os.path.dirname(mp))
    patch = open(os.path.join(os.path.dirname(mp), "patch.diff")).read()
    files = sorted({l[6:].strip() for l in patch.split("\n") if l.startswith("+++ b/")})
    res = []
    for c, r in sorted(m.get("checks", {}).items()):
        res.append("%s: %s" % (c, r["result"]))
    needs = " ".join(m["needs_to_manifest"].replace("|", "/").split())
    if len(needs) > 230:
        needs = needs[:227] + "…"
    rows.append((name, m["property"], ", ".join(files), needs, "; ".join(res)))
print("| seeded change | targets | file | needs, to manifest | result of `./check … quick` with the change applied |")
print("|---|---|---|---|---|")
for r in rows:
    print("| %s | %s | %s | %s | %s |" % r)
