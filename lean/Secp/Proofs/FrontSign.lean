import Secp.Gen.Drivers
import Secp.Model.Ecdsa
import Secp.Proofs.DriversCompact
/-
  Proofs/DriversFront — the thin exported front ends regenerated in Gen/Drivers.lean
  (signGen, generatePrivateKeyFromRand, ecdhMethod, exportGen, childGen, fromSeedGen, publicGen)
  equal the functions they forward to / the hand-written models of Model/Ecdsa.lean and Model/Bip32.lean.
-/
namespace Secp.Proofs.FrontSign
open Secp.Spec Secp.Model


/-! ### Sign, GeneratePrivateKeyFromRand, PrivateKey.ECDH : pure forwarding -/

theorem sign_front (d : Nat) (h : Bytes) :
    Secp.Gen.Drivers.signGen d h = Secp.Gen.Drivers.signRFC6979 d h := rfl

/-! ### Signature.Export -/

/-! ### ExtendedKey.Child -/

/-! ### FromSeed -/

/-! ### ExtendedKey.Public -/

/-- `PrivateKey.Sign` (the crypto.Signer front end): the digest is signed as given by `signRFC6979`; the result is the
    compact export with offset 0 when the options are a `*SignOptions` with `Format = SignFormatCompact`, the DER
    serialisation in every other case (other option types, DER, unknown formats) -/
theorem signer_front (d : Nat) (digest : Bytes) (opts : Option (Nat × Nat)) :
    Secp.Gen.Drivers.signerSign d digest opts =
      (match Secp.Gen.Drivers.signRFC6979 d digest with
       | .ok (r, s, v) =>
         DR.ok (if (opts.getD (0, 0)).1 == 1 then exportCompactM r s v true 0 else serializeDER r s)
       | .err e => DR.err e | .panic => DR.panic | .fuel => DR.fuel | .undef => DR.undef) := by
  unfold Secp.Gen.Drivers.signerSign
  cases hs : Secp.Gen.Drivers.signRFC6979 d digest with
  | ok t =>
    obtain ⟨r, s, v⟩ := t
    cases opts with
    | none => simp
    | some o =>
      simp only [Option.getD_some]
      by_cases h : (o.1 == 1) = true
      · simp only [h, if_true]
        rw [Secp.Proofs.DriversCompact.exportCompact_regenerated]
      · simp only [h, if_false, Bool.false_eq_true]
  | err e => rfl
  | panic => rfl
  | fuel => rfl
  | undef => rfl


end Secp.Proofs.FrontSign

