/-
  Core/CT — a leakage model for the functions documented "constant time".

  tools/gotr (pass T5) renders each such function (and everything it calls inside the
  package) as a list of statements whose expressions make explicit every place where a value
  can influence what is executed or which memory is touched.  `leak` is the trace an observer of
  control flow and addresses sees; `ctOK` is a syntactic check; `ct_sound` proves that `ctOK`
  implies the trace is the same for all values of the secret leaves (non-interference), for every
  interpretation of the arithmetic operators.  Core-only.
-/
namespace Secp.CT

/-- expression trees; `pub` = constants and len/cap, `sec` = any variable or field -/
inductive CE where
  | pub
  | sec
  | un (a : CE)
  | bin (a b : CE)
  | sc (a b : CE)             -- short-circuit && / ||  : leaks the value of a
  | idx (base i : CE)         -- base[i]                : leaks i
  | sl (base lo hi : CE)      -- base[lo:hi]            : leaks lo, hi
  | shift (a k : CE)          -- a << k, a >> k         : leaks k
  | dm (a b : CE)             -- a / b, a % b           : leaks a, b
  | call (f : Nat) (args : CE)
  | argCons (a rest : CE)
  | argNil
  deriving Repr, DecidableEq, Inhabited

inductive Stmt where
  | eval (e : CE)
  | ctrl (cond : CE)          -- if / for / switch / range on cond : leaks cond
  | ret
  deriving Repr, DecidableEq, Inhabited

structure Fn where
  id : Nat
  name : String
  documented : Bool
  body : List Stmt
  deriving Repr, Inhabited

/-- an interpretation of the operators, and an assignment of values to the leaves.
    Leaves are numbered in evaluation order by a counter threaded through `eval`. -/
structure Interp where
  un : Nat → Nat
  bin : Nat → Nat → Nat
  callv : Nat → Nat → Nat       -- callee id, combined argument value ↦ result
  pubv : Nat → Nat              -- value of the n-th public leaf
  secv : Nat → Nat              -- value of the n-th secret leaf

/-- public expressions: no secret leaf; a call is public when all its arguments are
    (package functions are deterministic functions of their arguments) -/
def isPub : CE → Bool
  | .pub => true
  | .sec => false
  | .un a => isPub a
  | .bin a b => isPub a && isPub b
  | .sc a b => isPub a && isPub b
  | .idx b i => isPub b && isPub i
  | .sl b lo hi => isPub b && isPub lo && isPub hi
  | .shift a k => isPub a && isPub k
  | .dm a b => isPub a && isPub b
  | .call _ args => isPub args
  | .argCons a r => isPub a && isPub r
  | .argNil => true

/-- number of leaves (so that sibling subtrees read disjoint leaf indices) -/
def leaves : CE → Nat
  | .pub => 1
  | .sec => 1
  | .un a => leaves a
  | .bin a b => leaves a + leaves b
  | .sc a b => leaves a + leaves b
  | .idx b i => leaves b + leaves i
  | .sl b lo hi => leaves b + leaves lo + leaves hi
  | .shift a k => leaves a + leaves k
  | .dm a b => leaves a + leaves b
  | .call _ args => leaves args
  | .argCons a r => leaves a + leaves r
  | .argNil => 0

/-- value of an expression whose first leaf has index n -/
def eval (I : Interp) : Nat → CE → Nat
  | n, .pub => I.pubv n
  | n, .sec => I.secv n
  | n, .un a => I.un (eval I n a)
  | n, .bin a b => I.bin (eval I n a) (eval I (n + leaves a) b)
  | n, .sc a b => I.bin (eval I n a) (eval I (n + leaves a) b)
  | n, .idx b i => I.bin (eval I n b) (eval I (n + leaves b) i)
  | n, .sl b lo hi => I.bin (eval I n b) (I.bin (eval I (n + leaves b) lo) (eval I (n + leaves b + leaves lo) hi))
  | n, .shift a k => I.bin (eval I n a) (eval I (n + leaves a) k)
  | n, .dm a b => I.bin (eval I n a) (eval I (n + leaves a) b)
  | n, .call f args => I.callv f (eval I n args)
  | n, .argCons a r => I.bin (eval I n a) (eval I (n + leaves a) r)
  | _, .argNil => 0

/-- what an observer of control flow / addresses / operand-dependent instruction timing sees -/
def leak (I : Interp) : Nat → CE → List Nat
  | _, .pub => []
  | _, .sec => []
  | n, .un a => leak I n a
  | n, .bin a b => leak I n a ++ leak I (n + leaves a) b
  | n, .sc a b => leak I n a ++ [eval I n a] ++ leak I (n + leaves a) b
  | n, .idx b i => leak I n b ++ leak I (n + leaves b) i ++ [eval I (n + leaves b) i]
  | n, .sl b lo hi => leak I n b ++ leak I (n + leaves b) lo ++ leak I (n + leaves b + leaves lo) hi ++
      [eval I (n + leaves b) lo, eval I (n + leaves b + leaves lo) hi]
  | n, .shift a k => leak I n a ++ leak I (n + leaves a) k ++ [eval I (n + leaves a) k]
  | n, .dm a b => leak I n a ++ leak I (n + leaves a) b ++ [eval I n a, eval I (n + leaves a) b]
  | n, .call f args => leak I n args ++ [f]
  | n, .argCons a r => leak I n a ++ leak I (n + leaves a) r
  | _, .argNil => []

/-- syntactic constant-time check of an expression: every leaked operand is public -/
def ctOKE : CE → Bool
  | .pub => true
  | .sec => true
  | .un a => ctOKE a
  | .bin a b => ctOKE a && ctOKE b
  | .sc a b => ctOKE a && ctOKE b && isPub a
  | .idx b i => ctOKE b && ctOKE i && isPub i
  | .sl b lo hi => ctOKE b && ctOKE lo && ctOKE hi && isPub lo && isPub hi
  | .shift a k => ctOKE a && ctOKE k && isPub k
  | .dm a b => ctOKE a && ctOKE b && isPub a && isPub b
  | .call _ args => ctOKE args
  | .argCons a r => ctOKE a && ctOKE r
  | .argNil => true

/-- two interpretations that differ only in the secret leaves -/
def SameButSecrets (I J : Interp) : Prop :=
  I.un = J.un ∧ I.bin = J.bin ∧ I.callv = J.callv ∧ I.pubv = J.pubv

theorem eval_pub (I J : Interp) (h : SameButSecrets I J) (e : CE) (n : Nat) (hp : isPub e = true) :
    eval I n e = eval J n e := by
  obtain ⟨hu, hb, hc, hv⟩ := h
  induction e generalizing n with
  | pub => simp [eval, hv]
  | sec => simp [isPub] at hp
  | un a ih => simp only [isPub] at hp; simp [eval, hu, ih n hp]
  | bin a b iha ihb =>
    simp only [isPub, Bool.and_eq_true] at hp; simp [eval, hb, iha n hp.1, ihb _ hp.2]
  | sc a b iha ihb =>
    simp only [isPub, Bool.and_eq_true] at hp; simp [eval, hb, iha n hp.1, ihb _ hp.2]
  | idx a b iha ihb =>
    simp only [isPub, Bool.and_eq_true] at hp; simp [eval, hb, iha n hp.1, ihb _ hp.2]
  | sl a b c iha ihb ihc =>
    simp only [isPub, Bool.and_eq_true] at hp
    simp [eval, hb, iha n hp.1.1, ihb _ hp.1.2, ihc _ hp.2]
  | shift a b iha ihb =>
    simp only [isPub, Bool.and_eq_true] at hp; simp [eval, hb, iha n hp.1, ihb _ hp.2]
  | dm a b iha ihb =>
    simp only [isPub, Bool.and_eq_true] at hp; simp [eval, hb, iha n hp.1, ihb _ hp.2]
  | call f args ih => simp only [isPub] at hp; simp [eval, hc, ih n hp]
  | argCons a r iha ihr =>
    simp only [isPub, Bool.and_eq_true] at hp; simp [eval, hb, iha n hp.1, ihr _ hp.2]
  | argNil => simp [eval]

/-- non-interference for expressions -/
theorem leak_indep (I J : Interp) (h : SameButSecrets I J) (e : CE) (n : Nat) (hok : ctOKE e = true) :
    leak I n e = leak J n e := by
  induction e generalizing n with
  | pub => simp [leak]
  | sec => simp [leak]
  | un a ih => simp only [ctOKE] at hok; simp [leak, ih n hok]
  | bin a b iha ihb =>
    simp only [ctOKE, Bool.and_eq_true] at hok; simp [leak, iha n hok.1, ihb _ hok.2]
  | sc a b iha ihb =>
    simp only [ctOKE, Bool.and_eq_true] at hok
    simp [leak, iha n hok.1.1, ihb _ hok.1.2, eval_pub I J h a n hok.2]
  | idx a b iha ihb =>
    simp only [ctOKE, Bool.and_eq_true] at hok
    simp [leak, iha n hok.1.1, ihb _ hok.1.2, eval_pub I J h b _ hok.2]
  | sl a b c iha ihb ihc =>
    simp only [ctOKE, Bool.and_eq_true] at hok
    simp [leak, iha n hok.1.1.1.1, ihb _ hok.1.1.1.2, ihc _ hok.1.1.2, eval_pub I J h b _ hok.1.2,
      eval_pub I J h c _ hok.2]
  | shift a b iha ihb =>
    simp only [ctOKE, Bool.and_eq_true] at hok
    simp [leak, iha n hok.1.1, ihb _ hok.1.2, eval_pub I J h b _ hok.2]
  | dm a b iha ihb =>
    simp only [ctOKE, Bool.and_eq_true] at hok
    simp [leak, iha n hok.1.1.1, ihb _ hok.1.1.2, eval_pub I J h a n hok.1.2, eval_pub I J h b _ hok.2]
  | call f args ih => simp only [ctOKE] at hok; simp [leak, ih n hok]
  | argCons a r iha ihr =>
    simp only [ctOKE, Bool.and_eq_true] at hok; simp [leak, iha n hok.1, ihr _ hok.2]
  | argNil => simp [leak]

/-- leak of a statement; each statement reads fresh leaves starting at `n` -/
def leakS (I : Interp) (n : Nat) : Stmt → List Nat
  | .eval e => leak I n e
  | .ctrl c => leak I n c ++ [eval I n c]
  | .ret => []

def stmtLeaves : Stmt → Nat
  | .eval e => leaves e
  | .ctrl c => leaves c
  | .ret => 0

def leakBody (I : Interp) : Nat → List Stmt → List Nat
  | _, [] => []
  | n, s :: rest => leakS I n s ++ leakBody I (n + stmtLeaves s) rest

/-- a statement is constant time when its expression is, and a control construct additionally
    has a public condition -/
def ctOKS : Stmt → Bool
  | .eval e => ctOKE e
  | .ctrl c => ctOKE c && isPub c
  | .ret => true

/-- call targets must be inside the table (ids below `nfn`) or intrinsics (100000 + k) -/
def callsOK (nfn : Nat) : CE → Bool
  | .pub => true
  | .sec => true
  | .un a => callsOK nfn a
  | .bin a b => callsOK nfn a && callsOK nfn b
  | .sc a b => callsOK nfn a && callsOK nfn b
  | .idx a b => callsOK nfn a && callsOK nfn b
  | .sl a b c => callsOK nfn a && callsOK nfn b && callsOK nfn c
  | .shift a b => callsOK nfn a && callsOK nfn b
  | .dm a b => callsOK nfn a && callsOK nfn b
  | .call f args => (f < nfn || (100000 ≤ f && f < 100100)) && callsOK nfn args
  | .argCons a r => callsOK nfn a && callsOK nfn r
  | .argNil => true

def stmtExpr : Stmt → CE
  | .eval e => e
  | .ctrl c => c
  | .ret => .argNil

def Fn.ctOK (nfn : Nat) (f : Fn) : Bool :=
  f.body.all fun s => ctOKS s && callsOK nfn (stmtExpr s)

/-- non-interference for a function body: if every statement passes `ctOKS`, the leakage trace
    does not depend on the secret leaves -/
theorem ct_sound (I J : Interp) (h : SameButSecrets I J) (body : List Stmt) (n : Nat)
    (hok : body.all ctOKS = true) : leakBody I n body = leakBody J n body := by
  induction body generalizing n with
  | nil => rfl
  | cons s rest ih =>
    simp only [List.all_cons, Bool.and_eq_true] at hok
    have hs : leakS I n s = leakS J n s := by
      cases s with
      | eval e => exact leak_indep I J h e n hok.1
      | ctrl c =>
        simp only [ctOKS, Bool.and_eq_true] at hok
        simp [leakS, leak_indep I J h c n hok.1.1, eval_pub I J h c n hok.1.2]
      | ret => rfl
    simp [leakBody, hs, ih _ hok.2]

/-- the whole table: every function passes, and every call stays inside the table or the intrinsics -/
def tableOK (fns : List Fn) : Bool := fns.all (Fn.ctOK fns.length)

/-- first offending function and statement index, for diagnostics -/
def firstBad (fns : List Fn) : Option (String × Nat) :=
  fns.findSome? fun f =>
    (f.body.zipIdx.find? fun (s, _) => !(ctOKS s && callsOK fns.length (stmtExpr s))).map fun (_, i) => (f.name, i)

end Secp.CT
