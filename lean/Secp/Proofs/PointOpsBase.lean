/-
  Proofs/PointOpsBase — infrastructure for C04: running entries of the call-structured formula
  table (`Gen.FormulasC.allEntries`) symbolically, and the representation relation between
  Jacobian triples of naturals and affine coordinates in `ZMod P`.
-/
import Secp.Model.PointSpec
import Secp.Proofs.SpecGroup

namespace Secp.Proofs.PointOps
open Secp.Spec Secp.Model Secp.FOp Secp.Proofs
open Secp.Gen.FormulasC (allEntries)

/-! ### running table entries -/

/-- the answer of a call: final values of the callee's parameter registers -/
def callE (fuel idx : Nat) (args : List Nat) : Option (List Nat) :=
  (runEntryC allEntries fuel idx args []).map fun (r, _) => r.take args.length

/-- first path whose assumptions hold -/
def runPaths (callF : Nat → List Nat → Option (List Nat)) (bools : List Bool) (paths : List FPath)
    (r0 : Regs) : Option Regs :=
  paths.findSome? fun p => execPathWith callF bools p.items r0

theorem findSome?_map_aux {α β γ δ : Type} (l : List α) (g : α → Option β) (h : α → β → γ)
    (k : γ → δ) (k' : β → δ) (hk : ∀ a b, k (h a b) = k' b) :
    (l.findSome? fun p => (g p).map (h p)).map k = (l.findSome? g).map k' := by
  induction l with
  | nil => rfl
  | cons a l ih =>
    simp only [List.findSome?_cons]
    cases hg : g a with
    | none => simpa using ih
    | some b => simp [hk]

theorem runEntryC_succ (f idx : Nat) (args : List Nat) (bools : List Bool) (e : Entry)
    (he : allEntries[idx]? = some e) :
    runEntryC allEntries (f + 1) idx args bools =
      e.paths.findSome? fun p =>
        (execPathWith (callE f) bools p.items
          (args ++ List.replicate (e.nreg - args.length) 0)).map fun r => (r, p.ret) := by
  simp only [runEntryC, he]
  rfl

theorem callE_succ (f idx : Nat) (args : List Nat) (e : Entry)
    (he : allEntries[idx]? = some e) :
    callE (f + 1) idx args =
      (runPaths (callE f) [] e.paths (args ++ List.replicate (e.nreg - args.length) 0)).map
        (·.take args.length) := by
  unfold callE runPaths
  rw [runEntryC_succ f idx args [] e he]
  exact findSome?_map_aux _ _ _ _ _ (fun _ _ => rfl)

/-- top-level run of an entry: the parameter registers it leaves -/
theorem runEntryC_of_callE {f idx : Nat} {args outs : List Nat}
    (h : callE f idx args = some outs) :
    ∃ r ret, runEntryC allEntries f idx args [] = some (r, ret) ∧ r.take args.length = outs := by
  unfold callE at h
  cases hr : runEntryC allEntries f idx args [] with
  | none => rw [hr] at h; exact absurd h (by simp)
  | some p =>
    rw [hr] at h
    exact ⟨p.1, p.2, rfl, by simpa using h⟩

theorem rget_of_take {r outs : List Nat} {n : Nat} (h : r.take n = outs) (i : Nat) (hi : i < n) :
    rget r i = rget outs i := by
  subst h
  unfold rget
  simp [List.getD, hi]

/-- symbolic execution of paths on explicit register lists -/
macro "exec_simp" "[" ts:Lean.Parser.Tactic.simpLemma,* "]" : tactic =>
  `(tactic| simp [runPaths, execPathWith, stepF, condF, rget, rset, writeBack, $ts,*])

/-- as `exec_simp`, with `simp only` (no conditions to decide) -/
macro "exec_simp_only" "[" ts:Lean.Parser.Tactic.simpLemma,* "]" : tactic =>
  `(tactic| simp only [runPaths, execPathWith, stepF, rget, rset, List.findSome?_cons,
    List.set_cons_zero, List.set_cons_succ, List.getD_cons_zero, List.getD_cons_succ, List.length_cons,
    List.length_nil, List.replicate, List.cons_append, List.nil_append, Nat.reduceSub, Nat.reduceAdd,
    Option.map_some, List.take_succ_cons, List.take_zero, $ts,*])

/-- casting the value-level field operations into `ZMod P` -/
macro "cast_simp" : tactic =>
  `(tactic| simp only [ZMod.natCast_mod, fmul_cast, fadd_cast, fneg_cast, fsq_cast_pow, Nat.cast_ofNat,
    Nat.cast_one, Nat.cast_zero])

/-! ### entry indices -/

theorem idx_AddNonConst : entryIdx "AddNonConst" = 0 := by decide +kernel
theorem idx_AddNonConst_a010 : entryIdx "AddNonConst_a010" = 1 := by decide +kernel
theorem idx_DoubleNonConst_a00 : entryIdx "DoubleNonConst_a00" = 5 := by decide +kernel
theorem idx_ToAffine : entryIdx "ToAffine" = 8 := by decide +kernel

end Secp.Proofs.PointOps
