import Secp.Gen.FormulasC
import Secp.Gen.Consts
import Secp.Gen.Table
import Secp.Spec.Curve
/-
  Model/ScalarMult — curve.go: naf, splitK, ScalarMultNonConst, ScalarBaseMultNonConst.

  The control flow (loops, NAF digit selection, sign flips, table lookups) is mirrored by hand;
  every point operation is the REGENERATED call-structured formula program (`Gen.FormulasC`,
  entries AddNonConst_a010 = result≡p1, DoubleNonConst_a00 = result≡p, run at value level), the endomorphism constants come from `Gen.Consts`
  and the base-point table from `Gen.Table` (all regenerated from /repo on every check run).
-/
namespace Secp.Model
open Secp.Spec Secp.FOp

abbrev Jac := Nat × Nat × Nat

def Jac.inf : Jac := (0, 0, 0)

/-- index of a named entry in the call-structured table -/
def entryIdx (name : String) : Nat := (Secp.Gen.FormulasC.allEntries.findIdx? (·.name == name)).getD 0

/-- run a named entry of the regenerated call-structured formula table at value level -/
def runNamed (name : String) (params : List Nat) (bools : List Bool) : Option (Regs × Option Bool) :=
  runEntryC Secp.Gen.FormulasC.allEntries 8 (entryIdx name) params bools

/-- `AddNonConst(&q, p, &q)` (result aliases the first operand, as everywhere in curve.go) -/
def addNC (q p : Jac) : Jac :=
  match runNamed "AddNonConst_a010" [q.1, q.2.1, q.2.2, p.1, p.2.1, p.2.2] [] with
  | some (r, _) => (rget r 0, rget r 1, rget r 2)
  | none => Jac.inf   -- unreachable: the paths cover every predicate outcome

/-- `DoubleNonConst(&q, &q)` -/
def dblNC (q : Jac) : Jac :=
  match runNamed "DoubleNonConst_a00" [q.1, q.2.1, q.2.2] [] with
  | some (r, _) => (rget r 0, rget r 1, rget r 2)
  | none => Jac.inf

/-- `p.ToAffine()` -/
def toAffineJ (q : Jac) : Jac :=
  match runNamed "ToAffine" [q.1, q.2.1, q.2.2] [] with
  | some (r, _) => (rget r 0, rget r 1, rget r 2)
  | none => Jac.inf

/-- value of a signed hex constant as a scalar mod N -/
def signedConst (neg : Bool) (mag : Nat) : Nat := if neg then (N - mag % N) % N else mag % N

def endoNegLambda : Nat := signedConst Secp.Gen.Consts.endoNegLambda_neg Secp.Gen.Consts.endoNegLambda
def endoNegB1 : Nat := signedConst Secp.Gen.Consts.endoNegB1_neg Secp.Gen.Consts.endoNegB1
def endoNegB2 : Nat := signedConst Secp.Gen.Consts.endoNegB2_neg Secp.Gen.Consts.endoNegB2
def endoZ1 : Nat := signedConst Secp.Gen.Consts.endoZ1_neg Secp.Gen.Consts.endoZ1
def endoZ2 : Nat := signedConst Secp.Gen.Consts.endoZ2_neg Secp.Gen.Consts.endoZ2
def endoBeta : Nat := Secp.Gen.Consts.endoBeta % P

/-- `mul512Rsh320Round`: ⌊(a·b + 2^319) / 2^320⌋ -/
def mul512Rsh320Round (a b : Nat) : Nat := (a * b + 2 ^ 319) / 2 ^ 320

/-- `splitK` -/
def splitK (k : Nat) : Nat × Nat :=
  let c1 := mul512Rsh320Round k endoZ1
  let c2 := mul512Rsh320Round k endoZ2
  let k2 := nadd (nmul c1 endoNegB1) (nmul c2 endoNegB2)
  let k1 := nadd (nmul k2 endoNegLambda) k
  (k1, k2)

structure NafScalar where
  pos : List UInt8     -- 33 entries
  neg : List UInt8
  start : Nat
  stop : Nat
  deriving Repr

/-- the byte loop of `naf`, from the least significant byte; `k` is the stripped scalar.
    Returns digits for positions 1..kLen (most significant first) and the final carry. -/
def nafLoop : List UInt8 → UInt8 → List UInt8 → List UInt8 → (List UInt8 × List UInt8 × UInt8)
  -- input: bytes in REVERSED order (least significant first), carry, accumulated pos/neg (MS first)
  | [], carry, pos, neg => (pos, neg, carry)
  | b :: rest, carry, pos, neg =>
    let kc : UInt16 := b.toUInt16 + carry.toUInt16
    let nextWord : UInt8 := match rest with | [] => 0 | n :: _ => n
    let halfK : UInt16 := (kc >>> 1) ||| (nextWord <<< 7).toUInt16
    let threeHalfK : UInt16 := kc + halfK
    let nz : UInt16 := threeHalfK ^^^ halfK
    let p : UInt8 := (threeHalfK &&& nz).toUInt8
    let n : UInt8 := (halfK &&& nz).toUInt8
    nafLoop rest (threeHalfK >>> 8).toUInt8 (p :: pos) (n :: neg)

def naf (k : Bytes) : NafScalar :=
  let ks := stripZeros k
  let kLen := ks.length
  let (pos, neg, carry) := nafLoop ks.reverse 0 [] []
  -- result.pos[0] = carry; digits occupy indices 1..kLen of the 33-byte arrays
  let padTo33 (l : List UInt8) := l ++ List.replicate (33 - l.length) 0
  { pos := padTo33 (carry :: pos), neg := padTo33 ((0 : UInt8) :: neg),
    start := 1 - carry.toNat, stop := kLen + 1 }

def NafScalar.posBytes (s : NafScalar) : Bytes := (s.pos.take s.stop).drop s.start
def NafScalar.negBytes (s : NafScalar) : Bytes := (s.neg.take s.stop).drop s.start

/-- one bit position of the interleaved double-and-add loop -/
def smBit (q p1 p1Neg p2 p2Neg : Jac) (k1p k1n k2p k2n mask : UInt8) : Jac :=
  let q := dblNC q
  let q := if k1p &&& mask == mask then addNC q p1 else if k1n &&& mask == mask then addNC q p1Neg else q
  if k2p &&& mask == mask then addNC q p2 else if k2n &&& mask == mask then addNC q p2Neg else q

def smByte (q p1 p1Neg p2 p2Neg : Jac) (k1p k1n k2p k2n : UInt8) : Jac :=
  [0x80, 0x40, 0x20, 0x10, 0x08, 0x04, 0x02, 0x01].foldl
    (fun q (mask : UInt8) => smBit q p1 p1Neg p2 p2Neg k1p k1n k2p k2n mask) q

/-- `ScalarMultNonConst(k, point)`; `point` has normalised coordinates -/
def scalarMultNC (k : Nat) (point : Jac) : Jac :=
  let (x, y, z) := point
  let p1 : Jac := (x, y, z)
  let p1Neg : Jac := (x, fneg y, z)
  let p2 : Jac := (fmul x endoBeta, y, z)
  let p2Neg : Jac := (fmul x endoBeta, fneg y, z)
  let (k1, k2) := splitK k
  let (k1, p1, p1Neg) := if k1 > halfN then (nneg k1, p1Neg, p1) else (k1, p1, p1Neg)
  let (k2, p2, p2Neg) := if k2 > halfN then (nneg k2, p2Neg, p2) else (k2, p2, p2Neg)
  let n1 := naf (be32 k1)
  let n2 := naf (be32 k2)
  let k1p := n1.posBytes; let k1n := n1.negBytes
  let k2p := n2.posBytes; let k2n := n2.negBytes
  let k1Len := k1p.length; let k2Len := k2p.length
  let m := max k1Len k2Len
  (List.range m).foldl (fun q i =>
    let (a, b) := if i ≥ m - k1Len then (k1p.getD (i - (m - k1Len)) 0, k1n.getD (i - (m - k1Len)) 0) else (0, 0)
    let (c, d) := if i ≥ m - k2Len then (k2p.getD (i - (m - k2Len)) 0, k2n.getD (i - (m - k2Len)) 0) else (0, 0)
    smByte q p1 p1Neg p2 p2Neg a b c d) Jac.inf

/-- table entry as a Jacobian point with Z = 1 -/
def tablePoint (i j : Nat) : Jac :=
  let e := (Secp.Gen.Table.rows.getD i #[]).getD j (0, 0)
  (e.1, e.2, 1)

/-- `ScalarBaseMultNonConst(k)` -/
def scalarBaseMultNC (k : Nat) : Jac :=
  let kb := be32 k
  (List.range 32).foldl (fun r i => addNC r (tablePoint i (kb.getD i 0).toNat)) Jac.inf

/-- affine view of a Jacobian result (for comparison with the specification) -/
def Jac.toPt (q : Jac) : Pt :=
  if q.2.2 % P = 0 ∨ (q.1 % P = 0 ∧ q.2.1 % P = 0) then none else
  let zi := finv q.2.2
  let zi2 := fsq zi
  some (fmul q.1 zi2, fmul q.2.1 (fmul zi2 zi))

end Secp.Model
