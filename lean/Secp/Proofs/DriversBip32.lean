import Secp.Gen.Drivers
import Secp.Model.Bip32
import Secp.Proofs.PubKey
/-
  Proofs/DriversBip32 — the regenerated value-level drivers of ecckd/version.go and of
  ExtendedKey.UnmarshalBinary (Gen/Drivers.lean: versionIsPrivateGen, versionToPublicGen,
  unmarshalBinary) equal the hand-written models of Model/Bip32.lean.
-/
namespace Secp.Proofs.DriversBip32
open Secp.Spec Secp.Model

/-! ### KeyVersion.IsPrivate / KeyVersion.ToPublic -/

theorem versionIsPrivate_regenerated (v : Bytes) : Secp.Gen.Drivers.versionIsPrivateGen v = versionIsPrivate v := by
  unfold Secp.Gen.Drivers.versionIsPrivateGen versionIsPrivate
  unfold Secp.Gen.Drivers.pv_BitcoinMainnetPrivate Secp.Gen.Drivers.pv_BitcoinTestnetPrivate
    mainnetPriv testnetPriv
  split <;> simp_all

theorem versionToPublic_regenerated (v : Bytes) : Secp.Gen.Drivers.versionToPublicGen v = versionToPublic v := by
  unfold Secp.Gen.Drivers.versionToPublicGen versionToPublic
  unfold Secp.Gen.Drivers.pv_BitcoinMainnetPrivate Secp.Gen.Drivers.pv_BitcoinTestnetPrivate
    Secp.Gen.Drivers.pv_BitcoinMainnetPublic Secp.Gen.Drivers.pv_BitcoinTestnetPublic
    mainnetPriv testnetPriv mainnetPub testnetPub
  rfl

/-! ### ExtendedKey.UnmarshalBinary -/

theorem unmarshalBinary_regenerated (k : Bytes × Nat × Bytes × Nat × Bytes × Bytes × Unit) (data : Bytes) :
    Secp.Gen.Drivers.unmarshalBinary k data =
      (match unmarshal data with
       | .ok e => DR.ok (e.version, e.depth, e.fingerprint, e.childNumber, e.keyData, e.chainCode, ())
       | .error err => DR.err err) := by
  unfold Secp.Gen.Drivers.unmarshalBinary unmarshal
  by_cases hlen : data.length = 82
  · have hX : (List.take 78 data).length = 78 := by simp [hlen]
    have h45 : 45 < data.length := by omega
    have hb : ((data[45]).toNat == 0) = (data[45] == 0) := by
      by_cases ha : data[45] = 0
      · rw [ha]; rfl
      · have : (data[45]).toNat ≠ 0 := fun h0 => ha (UInt8.toNat_inj.mp (by simpa using h0))
        simp [ha, this]
    simp only [hlen, bne_self_eq_false, Bool.false_eq_true, ↓reduceIte, Nat.reduceLT, decide_false, Nat.reduceSub,
      List.drop_zero, Bool.not_eq_eq_eq_not, Bool.not_true, beq_eq_false_iff_ne, ne_eq, List.getD_eq_getElem?_getD,
      List.length_drop, List.length_take, Nat.reduceLeDiff, inf_of_le_left, Nat.ofNat_pos, getElem?_pos,
      List.getElem_drop, add_zero, List.getElem_take, Option.getD_some, List.reduceReplicate, List.take_zero,
      List.length_cons, List.length_nil, zero_add, Nat.reduceAdd, List.nil_append, List.drop_succ_cons, List.drop_nil,
      List.append_nil, bne_iff_ne, beq_iff_eq, List.drop_drop, ge_iff_le, Bool.or_eq_true, decide_eq_true_eq,
      ite_eq_left_iff, one_ne_zero, imp_false, Decidable.not_not, Order.lt_one_iff, ite_not, not_true_eq_false,
      List.headD_eq_head?_getD, List.head?_drop]
    have h1 : List.take 4 (List.take 4 (List.take 78 data)) = List.take 4 (List.take 78 data) := by simp
    have h2 : List.take 4 (List.drop 5 (List.take 9 (List.take 78 data))) = List.drop 5 (List.take 9 (List.take 78 data)) :=
      List.take_of_length_le (by simp [hX])
    have h3 : List.take 4 (List.drop 9 (List.take 13 (List.take 78 data))) = List.drop 9 (List.take 13 (List.take 78 data)) :=
      List.take_of_length_le (by simp [hX])
    rw [h1, h2, h3, hb]
    have hnp := Secp.Proofs.PubKey.parsePubKey_no_panic (List.drop 45 (List.take 78 (List.take 78 data)))
    have hz : ((data[45]).toNat = 0) = (data[45] = 0) := by
      simpa using hb
    simp only [hz]
    generalize parsePubKey (List.drop 45 (List.take 78 (List.take 78 data))) = r at hnp ⊢
    split_ifs <;> try rfl
    cases r with
    | panic => exact absurd rfl hnp
    | err e => rfl
    | ok a => rfl
  · simp [hlen]

/-- consequences spelled out: the result never depends on the receiver, and `.undef`, `.panic`, `.fuel` never occur -/
theorem unmarshalBinary_receiver_indep (k k' : Bytes × Nat × Bytes × Nat × Bytes × Bytes × Unit) (data : Bytes) :
    Secp.Gen.Drivers.unmarshalBinary k data = Secp.Gen.Drivers.unmarshalBinary k' data := by
  rw [unmarshalBinary_regenerated, unmarshalBinary_regenerated]

theorem unmarshalBinary_total (k : Bytes × Nat × Bytes × Nat × Bytes × Bytes × Unit) (data : Bytes) :
    Secp.Gen.Drivers.unmarshalBinary k data ≠ .undef ∧ Secp.Gen.Drivers.unmarshalBinary k data ≠ .panic
      ∧ Secp.Gen.Drivers.unmarshalBinary k data ≠ .fuel := by
  rw [unmarshalBinary_regenerated]
  cases unmarshal data <;> simp

end Secp.Proofs.DriversBip32

#print axioms Secp.Proofs.DriversBip32.versionIsPrivate_regenerated
#print axioms Secp.Proofs.DriversBip32.versionToPublic_regenerated
#print axioms Secp.Proofs.DriversBip32.unmarshalBinary_regenerated
#print axioms Secp.Proofs.DriversBip32.unmarshalBinary_receiver_indep
#print axioms Secp.Proofs.DriversBip32.unmarshalBinary_total
