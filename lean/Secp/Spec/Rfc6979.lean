import Secp.Spec.Sha256
import Secp.Spec.Field
/-
  Spec/Rfc6979 — RFC 6979 §3.2 generator for HMAC-SHA256 / qlen = 256, written
  from the RFC (steps b–h), parameterised by the HMAC function so that theorems
  can treat it abstractly.  `keyMaterial` is the byte string  int2octets(x) ‖
  bits2octets(h1) [‖ extra [‖ version]]  fed at steps d and f.
-/
namespace Secp.Spec

abbrev HmacFn := Bytes → Bytes → Bytes

structure DrbgState where
  k : Bytes
  v : Bytes

/-- RFC 6979 §3.2 steps b–g -/
def drbgInit (H : HmacFn) (keyMaterial : Bytes) : DrbgState :=
  let v0 := List.replicate 32 (0x01 : UInt8)
  let k0 := List.replicate 32 (0x00 : UInt8)
  let k1 := H k0 (v0 ++ [0x00] ++ keyMaterial)
  let v1 := H k1 v0
  let k2 := H k1 (v1 ++ [0x01] ++ keyMaterial)
  let v2 := H k2 v1
  { k := k2, v := v2 }

/-- step h.2: one candidate T (tlen = qlen = hlen = 256, so a single HMAC) -/
def drbgNext (H : HmacFn) (s : DrbgState) : Bytes × DrbgState :=
  let v := H s.k s.v
  (v, { s with v := v })

/-- step h.3 retry update -/
def drbgRetry (H : HmacFn) (s : DrbgState) : DrbgState :=
  let k := H s.k (s.v ++ [0x00])
  { k := k, v := H k s.v }

/-- the (skip+1)-th candidate in [1, N-1]; `fuel` bounds the number of candidates examined -/
def drbgNonce (H : HmacFn) : Nat → DrbgState → Nat → Option Nat
  | 0, _, _ => none
  | fuel+1, s, skip =>
    let (t, s') := drbgNext H s
    let c := beNat t
    if 0 < c ∧ c < N then
      if skip = 0 then some c else drbgNonce H fuel (drbgRetry H s') (skip - 1)
    else drbgNonce H fuel (drbgRetry H s') skip

/-- left-pad or truncate to exactly 32 bytes (truncation keeps the first 32) -/
def fit32 (b : Bytes) : Bytes := leftPad 32 (b.take 32)

/-- key material as documented for `NonceRFC6979` -/
def nonceKeyMaterial (priv hash extra version : Bytes) : Bytes :=
  fit32 priv ++ fit32 hash ++
    (if extra.length = 32 then extra ++ (if version.length = 16 then version else [])
     else if version.length = 16 then List.replicate 32 0 ++ version else [])

def nonceRFC6979 (H : HmacFn) (fuel : Nat) (priv hash extra version : Bytes) (iter : Nat) : Option Nat :=
  drbgNonce H fuel (drbgInit H (nonceKeyMaterial priv hash extra version)) iter

end Secp.Spec
