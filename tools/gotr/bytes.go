package main

// T7: byte-level guard-style parsers → executable Lean definitions in the `Outcome` monad.
//
// The translation is structural, statement by statement:
//   const block                      → let name := value
//   x := e / x = e                   → let x := ⟦e⟧            (index / slice sub-expressions are bound first, in
//                                                               evaluation order: `let t ← idx b i`, `let t ← slice b lo hi`)
//   if c { …; return nil, err(K,…) } → if ⟦c⟧ then .err .K else …
//   a && b, a || b with an index on the right → a Boolean computed by a nested `do` (short-circuit kept)
//   for len(x) > 0 && x[0] == 0 { x = x[1:] }  → let x := stripZeros x        (the one loop idiom of these parsers)
//   if ov := s.SetByteSlice(x); ov { return … } → let (s, ov) := scalarSetByteSlice x; if ov then …
//   s.IsZero()                       → s == 0
//   return NewSignature(&r, &s), nil → pure (r, s)
// Go `int` becomes ℕ; a subtraction is only translated when a dominating guard proves it cannot go negative
// (lower bounds collected from `if x < c { return }`), otherwise the pass fails.  Anything else is an error:
// the pass fails closed and ./check reports a broken tie.

import (
	"fmt"
	"go/ast"
	"go/constant"
	"go/token"
	"go/types"
	"strings"
)

type t7 struct {
	p      *Pkg
	err    error
	ntmp   int
	lower  map[string]int64    // known lower bounds of int variables
	scalar map[string]bool     // names bound to decoded scalars
	field  map[string]bool     // names bound to field values (value level: naturals < P once range-checked)
	errT   string              // Lean error type of the function
	sigLit map[string][]string // sig := &Signature{r, s, code}
	recv   string              // builders: name of the receiver
	sb     strings.Builder
	indent string
	fn     string
}

func (t *t7) fail(n ast.Node, format string, a ...any) {
	if t.err == nil {
		t.err = fmt.Errorf("bytes %s: %s: %s", t.fn, t.p.pos(n), fmt.Sprintf(format, a...))
	}
}

func (t *t7) line(format string, a ...any) {
	t.sb.WriteString(t.indent + fmt.Sprintf(format, a...) + "\n")
}

func (t *t7) tmp() string { t.ntmp++; return fmt.Sprintf("t%d", t.ntmp) }

func (t *t7) constVal(e ast.Expr) (string, bool) {
	tv, ok := t.p.info.Types[e]
	if !ok || tv.Value == nil {
		return "", false
	}
	switch tv.Value.Kind() {
	case constant.Int:
		return tv.Value.ExactString(), true
	case constant.Bool:
		return tv.Value.String(), true
	}
	return "", false
}

func isByteT(t types.Type) bool {
	b, ok := t.Underlying().(*types.Basic)
	return ok && (b.Kind() == types.Uint8)
}

func isIntT(t types.Type) bool {
	b, ok := t.Underlying().(*types.Basic)
	return ok && (b.Kind() == types.Int || b.Kind() == types.UntypedInt)
}

func isByteSlice(t types.Type) bool {
	s, ok := t.Underlying().(*types.Slice)
	return ok && isByteT(s.Elem())
}

// effectful: does evaluating e index or slice (i.e. may it panic)?
func effectful(e ast.Expr) bool {
	found := false
	ast.Inspect(e, func(n ast.Node) bool {
		switch n.(type) {
		case *ast.IndexExpr, *ast.SliceExpr:
			found = true
		}
		return !found
	})
	return found
}

// lowerBound of an int expression, from literals and recorded guards
func (t *t7) lowerBound(e ast.Expr) int64 {
	if tv, ok := t.p.info.Types[e]; ok && tv.Value != nil && tv.Value.Kind() == constant.Int {
		v, _ := constant.Int64Val(tv.Value)
		return v
	}
	switch x := e.(type) {
	case *ast.ParenExpr:
		return t.lowerBound(x.X)
	case *ast.Ident:
		if lb, ok := t.lower[x.Name]; ok {
			return lb
		}
	case *ast.BinaryExpr:
		if x.Op == token.ADD {
			return t.lowerBound(x.X) + t.lowerBound(x.Y)
		}
	case *ast.CallExpr:
		return 0 // len(..), int(byte)
	}
	return 0
}

// expr translates a pure-or-effectful expression; effects are emitted as binds before it and the result is a pure Lean term
func (t *t7) expr(e ast.Expr) string {
	if t.err != nil {
		return "0"
	}
	if c, ok := t.constVal(e); ok {
		return c
	}
	switch x := e.(type) {
	case *ast.ParenExpr:
		return "(" + t.expr(x.X) + ")"
	case *ast.Ident:
		return x.Name
	case *ast.BasicLit:
		return x.Value
	case *ast.UnaryExpr:
		if x.Op == token.NOT {
			return "(!" + t.expr(x.X) + ")"
		}
	case *ast.CallExpr:
		if id, ok := x.Fun.(*ast.Ident); ok {
			switch id.Name {
			case "len":
				return t.expr(x.Args[0]) + ".length"
			case "int":
				a := t.expr(x.Args[0])
				if isByteT(t.p.info.Types[x.Args[0]].Type) {
					return a + ".toNat"
				}
				return a
			}
		}
		if sel, ok := x.Fun.(*ast.SelectorExpr); ok {
			if id, ok := sel.X.(*ast.Ident); ok && t.scalar[id.Name] && sel.Sel.Name == "IsZero" && len(x.Args) == 0 {
				return "(" + id.Name + " == 0)"
			}
			if id, ok := sel.X.(*ast.Ident); ok && t.field[id.Name] && sel.Sel.Name == "IsOdd" && len(x.Args) == 0 {
				return "(" + id.Name + " % 2 == 1)"
			}
		}
		if id, ok := x.Fun.(*ast.Ident); ok && id.Name == "isOnCurve" && len(x.Args) == 2 {
			a, b := t.fieldArg(x.Args[0]), t.fieldArg(x.Args[1])
			return "(isOnCurveM " + a + " " + b + ")"
		}
	case *ast.IndexExpr:
		base := t.expr(x.X)
		i := t.expr(x.Index)
		v := t.tmp()
		t.line("let %s ← idx %s (%s)", v, base, i)
		return v
	case *ast.SliceExpr:
		base := t.expr(x.X)
		v := t.tmp()
		switch {
		case x.Low != nil && x.High != nil && x.Max == nil:
			lo, hi := t.expr(x.Low), t.expr(x.High)
			t.line("let %s ← slice %s (%s) (%s)", v, base, lo, hi)
		case x.Low != nil && x.High == nil:
			t.line("let %s ← sliceFrom %s (%s)", v, base, t.expr(x.Low))
		default:
			t.fail(x, "slice expression form")
		}
		return v
	case *ast.BinaryExpr:
		switch x.Op {
		case token.LAND, token.LOR:
			if !effectful(x.Y) {
				l, r := t.expr(x.X), t.expr(x.Y)
				op := "&&"
				if x.Op == token.LOR {
					op = "||"
				}
				return "(" + l + " " + op + " " + r + ")"
			}
			// short-circuit with effects on the right: a monadic Boolean
			l := t.expr(x.X)
			v := t.tmp()
			saved := t.indent
			if x.Op == token.LAND {
				t.line("let %s ← (if %s then (do", v, l)
			} else {
				t.line("let %s ← (if !%s then (do", v, l)
			}
			t.indent = saved + "    "
			r := t.expr(x.Y)
			t.line("pure %s)", r)
			t.indent = saved
			if x.Op == token.LAND {
				t.line("  else pure false : Outcome %s Bool)", t.errT)
			} else {
				t.line("  else pure true : Outcome %s Bool)", t.errT)
			}
			return v
		case token.ADD:
			return "(" + t.expr(x.X) + " + " + t.expr(x.Y) + ")"
		case token.SUB:
			if t.lowerBound(x.X) < 0 || func() bool {
				c, ok := t.constVal(x.Y)
				if !ok {
					return true
				}
				var k int64
				fmt.Sscan(c, &k)
				return t.lowerBound(x.X) < k
			}() {
				t.fail(x, "subtraction that is not known to stay non-negative")
			}
			return "(" + t.expr(x.X) + " - " + t.expr(x.Y) + ")"
		case token.AND:
			return "(" + t.expr(x.X) + " &&& " + t.expr(x.Y) + ")"
		case token.EQL, token.NEQ, token.LSS, token.LEQ, token.GTR, token.GEQ:
			op := map[token.Token]string{token.EQL: "==", token.NEQ: "!=", token.LSS: "<", token.LEQ: "≤", token.GTR: ">", token.GEQ: "≥"}[x.Op]
			l, r := t.expr(x.X), t.expr(x.Y)
			if x.Op == token.EQL || x.Op == token.NEQ {
				return "(" + l + " " + op + " " + r + ")"
			}
			return "decide (" + l + " " + op + " " + r + ")"
		}
	}
	t.fail(e, "expression %T outside the T7 subset", e)
	return "0"
}

// fieldArg: `&x` with x a field-value variable
func (t *t7) fieldArg(e ast.Expr) string {
	if u, ok := e.(*ast.UnaryExpr); ok && u.Op == token.AND {
		if id, ok := u.X.(*ast.Ident); ok && t.field[id.Name] {
			return id.Name
		}
	}
	t.fail(e, "argument is not the address of a field-value variable")
	return "0"
}

// errKindOf: the error kind of `return nil, signatureError(K, …)` / `makeError(K, …)`; "" if the statement is not of that form
func (t *t7) errKindOf(s ast.Stmt) string {
	r, ok := s.(*ast.ReturnStmt)
	if !ok || len(r.Results) == 0 {
		return ""
	}
	call, ok := r.Results[len(r.Results)-1].(*ast.CallExpr)
	if !ok || len(call.Args) < 1 {
		return ""
	}
	id, ok := call.Fun.(*ast.Ident)
	if !ok || (id.Name != "signatureError" && id.Name != "makeError") {
		return ""
	}
	k, ok := call.Args[0].(*ast.Ident)
	if !ok {
		return ""
	}
	if len(r.Results) == 3 {
		// return nil, flag, err : the flag travels with the error kind
		if effectful(r.Results[1]) {
			return ""
		}
		return "(" + k.Name + ", " + t.expr(r.Results[1]) + ")"
	}
	return k.Name
}

// errTerm: Lean term for an error payload produced by errKindOf
func errTerm(kind string) string {
	if strings.HasPrefix(kind, "(") {
		return "(." + kind[1:]
	}
	return "." + kind
}

// errBody: a block whose only effect is to return an error (string building allowed)
func (t *t7) errBody(b *ast.BlockStmt) string {
	for i, s := range b.List {
		if i == len(b.List)-1 {
			return t.errKindOf(s)
		}
		as, ok := s.(*ast.AssignStmt)
		if !ok || len(as.Lhs) != 1 {
			return ""
		}
		if id, ok := as.Lhs[0].(*ast.Ident); !ok || id.Name != "str" {
			return ""
		}
	}
	return ""
}

// recordGuard: after `if x < c { return }` we know x ≥ c
func (t *t7) recordGuard(c ast.Expr) {
	b, ok := c.(*ast.BinaryExpr)
	if !ok || b.Op != token.LSS {
		return
	}
	id, ok := b.X.(*ast.Ident)
	if !ok {
		return
	}
	if cv, ok := t.constVal(b.Y); ok {
		var k int64
		fmt.Sscan(cv, &k)
		if k > t.lower[id.Name] {
			t.lower[id.Name] = k
		}
	}
}

// block translates a statement list; k emits what follows the list when it does not end in a return.
func (t *t7) block(list []ast.Stmt, k func()) {
	for si, s := range list {
		if t.err != nil {
			return
		}
		rest := list[si+1:]
		switch st := s.(type) {
		case *ast.SwitchStmt:
			t.switchStmt(st, func() { t.block(rest, k) })
			return
		case *ast.ExprStmt:
			// v.Normalize() on a field value: the identity at value level (that it is NEEDED at limb level is C16's concern)
			if call, ok := st.X.(*ast.CallExpr); ok {
				if sel, ok := call.Fun.(*ast.SelectorExpr); ok && sel.Sel.Name == "Normalize" && len(call.Args) == 0 {
					if id, ok := sel.X.(*ast.Ident); ok && t.field[id.Name] {
						continue
					}
				}
			}
			t.fail(st, "expression statement outside the T7 subset")
		case *ast.DeclStmt:
			gd := st.Decl.(*ast.GenDecl)
			if gd.Tok == token.CONST {
				for _, sp := range gd.Specs {
					vs := sp.(*ast.ValueSpec)
					for i, nm := range vs.Names {
						if len(vs.Values) > i {
							if c, ok := t.constVal(vs.Values[i]); ok {
								t.line("let %s := %s", nm.Name, c)
								var k int64
								fmt.Sscan(c, &k)
								t.lower[nm.Name] = k
								continue
							}
						}
						t.fail(st, "constant %s without a literal value", nm.Name)
					}
				}
				continue
			}
			if gd.Tok == token.VAR {
				for _, sp := range gd.Specs {
					vs := sp.(*ast.ValueSpec)
					for _, nm := range vs.Names {
						obj := t.p.info.Defs[nm]
						if isScalarT(obj.Type()) && len(vs.Values) == 0 {
							t.scalar[nm.Name] = true
							continue
						}
						if isFieldVal(obj.Type()) && len(vs.Values) == 0 {
							t.field[nm.Name] = true
							continue
						}
						t.fail(st, "variable declaration of %s", nm.Name)
					}
				}
				continue
			}
			t.fail(st, "declaration")
		case *ast.AssignStmt:
			if len(st.Lhs) == 1 && len(st.Rhs) == 1 && st.Tok == token.SUB_ASSIGN {
				// b -= c on a byte: wrap-around subtraction, the same in Go and in Lean's UInt8
				if id, ok := st.Lhs[0].(*ast.Ident); ok && isByteT(t.p.info.Types[st.Lhs[0]].Type) {
					t.line("let %s := %s - %s", id.Name, id.Name, t.expr(st.Rhs[0]))
					continue
				}
			}
			if len(st.Lhs) == 1 && len(st.Rhs) == 1 && st.Tok == token.DEFINE {
				// sig := &Signature{r, s, code}
				if u, ok := st.Rhs[0].(*ast.UnaryExpr); ok && u.Op == token.AND {
					if cl, ok := u.X.(*ast.CompositeLit); ok && len(cl.Elts) == 3 {
						if tn, ok := cl.Type.(*ast.Ident); ok && tn.Name == "Signature" {
							var parts []string
							for _, e := range cl.Elts {
								parts = append(parts, t.expr(e))
							}
							if t.sigLit == nil {
								t.sigLit = map[string][]string{}
							}
							t.sigLit[st.Lhs[0].(*ast.Ident).Name] = parts
							continue
						}
					}
				}
			}
			if len(st.Lhs) != 1 || len(st.Rhs) != 1 || (st.Tok != token.DEFINE && st.Tok != token.ASSIGN) {
				t.fail(st, "assignment form")
				return
			}
			id, ok := st.Lhs[0].(*ast.Ident)
			if !ok {
				t.fail(st, "assignment target")
				return
			}
			if id.Name == "str" {
				continue // error text only
			}
			lb := t.lowerBound(st.Rhs[0])
			v := t.expr(st.Rhs[0])
			t.line("let %s := %s", id.Name, v)
			if isIntT(t.p.info.Types[st.Rhs[0]].Type) {
				t.lower[id.Name] = lb
			}
		case *ast.ForStmt:
			// the strip-leading-zeroes idiom
			if name, ok := t.stripIdiom(st); ok {
				t.line("let %s := stripZeros %s", name, name)
				continue
			}
			t.fail(st, "loop outside the T7 subset")
		case *ast.IfStmt:
			if st.Else != nil {
				t.fail(st, "if with else")
				return
			}
			kind := t.errBody(st.Body)
			if kind == "" {
				// a block that falls through: its effects are checks only (it may return an error, it binds nothing
				// that is used afterwards)
				if st.Init != nil {
					t.fail(st, "if with initialiser and a body that falls through")
					return
				}
				c := t.expr(st.Cond)
				saved := t.indent
				t.line("let _ ← (if %s then (do", c)
				t.indent = saved + "    "
				t.block(st.Body.List, func() { t.line("pure ())") })
				t.indent = saved
				t.line("  else pure () : Outcome %s Unit)", t.errT)
				continue
			}
			// if !DecompressY(&x, odd, &y) { return err }
			if u, ok := st.Cond.(*ast.UnaryExpr); ok && u.Op == token.NOT && st.Init == nil {
				if call, ok := u.X.(*ast.CallExpr); ok {
					if id, ok := call.Fun.(*ast.Ident); ok && id.Name == "DecompressY" && len(call.Args) == 3 {
						x := t.fieldArg(call.Args[0])
						odd := t.expr(call.Args[1])
						y := t.fieldArg(call.Args[2])
						t.line("let %s ← (match decompressY %s %s with | none => (.err %s : Outcome %s Nat) | some v => pure v)", y, x, odd, errTerm(kind), t.errT)
						continue
					}
				}
			}
			if st.Init != nil {
				// overflow := s.SetByteSlice(x)
				as, ok := st.Init.(*ast.AssignStmt)
				if !ok || len(as.Lhs) != 1 || len(as.Rhs) != 1 {
					t.fail(st, "if initialiser")
					return
				}
				call, ok := as.Rhs[0].(*ast.CallExpr)
				var sel *ast.SelectorExpr
				ok2 := false
				if ok {
					sel, ok2 = call.Fun.(*ast.SelectorExpr)
				}
				if !ok || !ok2 || sel.Sel.Name != "SetByteSlice" || len(call.Args) != 1 {
					t.fail(st, "if initialiser is not x.SetByteSlice(b)")
					return
				}
				recv, ok := sel.X.(*ast.Ident)
				if !ok || !(t.scalar[recv.Name] || t.field[recv.Name]) {
					t.fail(st, "SetByteSlice receiver")
					return
				}
				ov := as.Lhs[0].(*ast.Ident).Name
				arg := t.expr(call.Args[0])
				if t.field[recv.Name] {
					t.line("let (%s, %s) := fieldSetBytes32 %s", recv.Name, ov, arg)
				} else {
					t.line("let (%s, %s) := scalarSetByteSlice %s", recv.Name, ov, arg)
				}
			}
			c := t.expr(st.Cond)
			t.line("if %s then .err %s else", c, errTerm(kind))
			t.recordGuard(st.Cond)
		case *ast.ReturnStmt:
			// return NewSignature(&r, &s), nil
			if len(st.Results) == 2 {
				if call, ok := st.Results[0].(*ast.CallExpr); ok {
					if id, ok := call.Fun.(*ast.Ident); ok && (id.Name == "NewSignature" || id.Name == "NewPublicKey") && len(call.Args) == 2 {
						var names []string
						for _, a := range call.Args {
							u, ok := a.(*ast.UnaryExpr)
							if !ok || u.Op != token.AND {
								t.fail(st, "NewSignature argument")
								return
							}
							names = append(names, u.X.(*ast.Ident).Name)
						}
						t.line("pure (%s, %s)", names[0], names[1])
						return
					}
				}
			}
			if kind := t.errKindOf(st); kind != "" {
				t.line(".err %s", errTerm(kind))
				return
			}
			// return sig, flag, nil   with sig := &Signature{r, s, code}
			if len(st.Results) == 3 {
				if id, ok := st.Results[0].(*ast.Ident); ok {
					if parts, ok := t.sigLit[id.Name]; ok && !effectful(st.Results[1]) {
						t.line("pure (%s, %s, %s.toNat, %s)", parts[0], parts[1], parts[2], t.expr(st.Results[1]))
						return
					}
				}
			}
			t.fail(st, "return form")
			return
		default:
			t.fail(s, "statement %T outside the T7 subset", s)
		}
	}
	if k != nil {
		k()
	}
}

// switchStmt: a tagged switch on a value without effects.
//   - every non-default clause empty, default = error return:   if !(tag == v1 || …) then .err .K else <k>
//   - otherwise an if / else-if chain; each clause body is followed by the continuation k (duplicated)
func (t *t7) switchStmt(st *ast.SwitchStmt, k func()) {
	if st.Init != nil || st.Tag == nil {
		t.fail(st, "switch form")
		return
	}
	if effectful(st.Tag) {
		t.fail(st, "switch tag with effects")
		return
	}
	tag := t.expr(st.Tag)
	var clauses []*ast.CaseClause
	var def *ast.CaseClause
	allEmpty := true
	for _, c := range st.Body.List {
		cl := c.(*ast.CaseClause)
		if cl.List == nil {
			def = cl
			continue
		}
		clauses = append(clauses, cl)
		if len(cl.Body) != 0 {
			allEmpty = false
		}
	}
	condOf := func(cl *ast.CaseClause) string {
		var parts []string
		for _, v := range cl.List {
			parts = append(parts, "("+tag+" == "+t.expr(v)+")")
		}
		return strings.Join(parts, " || ")
	}
	if allEmpty && def != nil {
		kind := t.errBody(&ast.BlockStmt{List: def.Body})
		if kind == "" {
			t.fail(st, "default clause is not an error return")
			return
		}
		var parts []string
		for _, cl := range clauses {
			parts = append(parts, condOf(cl))
		}
		t.line("if !(%s) then .err %s else", strings.Join(parts, " || "), errTerm(kind))
		k()
		return
	}
	saved := t.indent
	for i, cl := range clauses {
		if i == 0 {
			t.line("if %s then (do", condOf(cl))
		} else {
			t.line("else if %s then (do", condOf(cl))
		}
		t.indent = saved + "    "
		lower := map[string]int64{}
		for n, v := range t.lower {
			lower[n] = v
		}
		t.block(cl.Body, k)
		t.lower = lower
		t.indent = saved
		t.line("  )")
	}
	t.line("else (do")
	t.indent = saved + "    "
	if def != nil {
		t.block(def.Body, k)
	} else {
		k()
	}
	t.indent = saved
	t.line("  )")
}

// for len(x) > 0 && x[0] == 0x00 { x = x[1:] }
func (t *t7) stripIdiom(f *ast.ForStmt) (string, bool) {
	if f.Init != nil || f.Post != nil || f.Cond == nil || len(f.Body.List) != 1 {
		return "", false
	}
	c, ok := f.Cond.(*ast.BinaryExpr)
	if !ok || c.Op != token.LAND {
		return "", false
	}
	l, ok := c.X.(*ast.BinaryExpr)
	if !ok || l.Op != token.GTR {
		return "", false
	}
	lc, ok := l.X.(*ast.CallExpr)
	if !ok || len(lc.Args) != 1 {
		return "", false
	}
	if id, ok := lc.Fun.(*ast.Ident); !ok || id.Name != "len" {
		return "", false
	}
	name, ok := lc.Args[0].(*ast.Ident)
	if !ok {
		return "", false
	}
	if v, ok := t.constVal(l.Y); !ok || v != "0" {
		return "", false
	}
	r, ok := c.Y.(*ast.BinaryExpr)
	if !ok || r.Op != token.EQL {
		return "", false
	}
	ix, ok := r.X.(*ast.IndexExpr)
	if !ok {
		return "", false
	}
	if b, ok := ix.X.(*ast.Ident); !ok || b.Name != name.Name {
		return "", false
	}
	if v, ok := t.constVal(ix.Index); !ok || v != "0" {
		return "", false
	}
	if v, ok := t.constVal(r.Y); !ok || v != "0" {
		return "", false
	}
	as, ok := f.Body.List[0].(*ast.AssignStmt)
	if !ok || as.Tok != token.ASSIGN || len(as.Lhs) != 1 || len(as.Rhs) != 1 {
		return "", false
	}
	if b, ok := as.Lhs[0].(*ast.Ident); !ok || b.Name != name.Name {
		return "", false
	}
	sl, ok := as.Rhs[0].(*ast.SliceExpr)
	if !ok || sl.High != nil || sl.Low == nil {
		return "", false
	}
	if b, ok := sl.X.(*ast.Ident); !ok || b.Name != name.Name {
		return "", false
	}
	if v, ok := t.constVal(sl.Low); !ok || v != "1" {
		return "", false
	}
	return name.Name, true
}

type bytesEntry struct {
	pkg                  int // 0 = secp256k1, 1 = schnorr
	fn, lean, errT, retT string
}

func passBytes(pkgs []*Pkg) (string, []string) {
	var errs []string
	var sb strings.Builder
	sb.WriteString("import Secp.Model.Der\nimport Secp.Model.PubKey\nimport Secp.Model.Schnorr\n/- GENERATED by tools/gotr (pass T7) from /repo — do not edit.\n   Byte-level parsers translated statement by statement into the `Outcome` monad (see tools/gotr/bytes.go). -/\nnamespace Secp.Gen.BytesProg\nopen Secp.Spec Secp.Model\n\n")
	for _, e := range []bytesEntry{
		{0, "ParseDERSignature", "parseDER", "SigErr", "Nat × Nat"},
		{0, "ParsePubKey", "parsePubKey", "PubErr", "Nat × Nat"},
		{0, "ParseCompactSignature", "parseCompact", "(SigErr × Bool)", "Nat × Nat × Nat × Bool"},
		{1, "ParseSignature", "schnorrParse", "SchnorrErr", "Nat × Nat"},
	} {
		if e.pkg >= len(pkgs) {
			errs = append(errs, "bytes: package of "+e.fn+" not loaded")
			continue
		}
		p := pkgs[e.pkg]
		fd := p.funcs[e.fn]
		if fd == nil {
			errs = append(errs, "bytes: "+e.fn+" not found")
			continue
		}
		t := &t7{p: p, lower: map[string]int64{}, scalar: map[string]bool{}, field: map[string]bool{}, indent: "  ", fn: e.fn, errT: e.errT}
		if len(fd.Type.Params.List) != 1 || len(fd.Type.Params.List[0].Names) != 1 {
			errs = append(errs, "bytes: "+e.fn+" signature changed")
			continue
		}
		arg := fd.Type.Params.List[0].Names[0].Name
		t.block(fd.Body.List, nil)
		if t.err != nil {
			errs = append(errs, t.err.Error())
		}
		fmt.Fprintf(&sb, "/-- %s -/\ndef %s (%s : Bytes) : Outcome %s (%s) := do\n%s\n", e.fn, e.lean, arg, e.errT, e.retT, t.sb.String())
	}
	sb.WriteString("end Secp.Gen.BytesProg\n")
	return sb.String(), errs
}

// ---- builders: functions that assemble a byte string from decoded values (Serialize*, pass T7) ----
//
//   sigS := new(ModNScalar).Set(&sig.s)                 let sigS := s
//   if sigS.IsOverHalfOrder() { sigS.Negate() }         let sigS := if decide (sigS > halfN) then (N - sigS) % N else sigS
//   var b [33]byte                                      let b : Bytes := List.replicate 33 0
//   b[i] = e                                            let b := b.set i e
//   v.PutBytesUnchecked(b[lo:hi])                       let b := putBytes b lo hi (be32 v)
//   c := b[:]  /  c, d := a[:], b[:]                    let c := b
//   for len(c) > 1 && c[0] == 0 && c[1]&0x80 == 0 { c = c[1:] }      let c := canonLoop c
//   b := make([]byte, 0, n)                             let b : Bytes := []
//   b = append(b, e) / append(b, xs...)                 let b := b ++ [e] / b ++ xs
//   v := C ; if cond { v = D }                          let v := if cond then D else v
//   return b / b[:]                                     b
// Receiver fields sig.r, sig.s, p.x, p.y are the parameters r, s, x, y (decoded values).

func (t *t7) recvField(e ast.Expr) (string, bool) {
	// &sig.s / sig.r / p.x
	if u, ok := e.(*ast.UnaryExpr); ok && u.Op == token.AND {
		e = u.X
	}
	sel, ok := e.(*ast.SelectorExpr)
	if !ok {
		return "", false
	}
	if id, ok := sel.X.(*ast.Ident); !ok || id.Name != t.recv {
		return "", false
	}
	switch sel.Sel.Name {
	case "r", "s", "x", "y":
		return sel.Sel.Name, true
	}
	return "", false
}

func (t *t7) valueName(e ast.Expr) (string, bool) {
	if n, ok := t.recvField(e); ok {
		return n, true
	}
	if id, ok := e.(*ast.Ident); ok && (t.scalar[id.Name] || t.field[id.Name]) {
		return id.Name, true
	}
	return "", false
}

// bexpr: byte / int expressions of builders
func (t *t7) bexpr(e ast.Expr) string {
	if c, ok := t.constVal(e); ok {
		return c
	}
	switch x := e.(type) {
	case *ast.ParenExpr:
		return "(" + t.bexpr(x.X) + ")"
	case *ast.Ident:
		return x.Name
	case *ast.CallExpr:
		if id, ok := x.Fun.(*ast.Ident); ok {
			switch id.Name {
			case "len":
				return t.bexpr(x.Args[0]) + ".length"
			case "byte":
				if isIntT(t.p.info.Types[x.Args[0]].Type) {
					return "(UInt8.ofNat " + t.bexpr(x.Args[0]) + ")"
				}
				return t.bexpr(x.Args[0])
			}
		}
		if sel, ok := x.Fun.(*ast.SelectorExpr); ok && len(x.Args) == 0 {
			if v, ok := t.valueName(sel.X); ok {
				switch sel.Sel.Name {
				case "IsOdd":
					return "(" + v + " % 2 == 1)"
				case "IsOverHalfOrder":
					return "decide (" + v + " > halfN)"
				}
			}
		}
	case *ast.BinaryExpr:
		switch x.Op {
		case token.ADD:
			return "(" + t.bexpr(x.X) + " + " + t.bexpr(x.Y) + ")"
		case token.SUB:
			c, ok := t.constVal(x.Y)
			var k int64
			if ok {
				fmt.Sscan(c, &k)
			}
			if !ok || t.lowerBound(x.X) < k {
				t.fail(x, "subtraction that is not known to stay non-negative")
			}
			return "(" + t.bexpr(x.X) + " - " + t.bexpr(x.Y) + ")"
		}
	}
	t.fail(e, "expression %T outside the T7 builder subset", e)
	return "0"
}

// canonIdiom: for len(c) > 1 && c[0] == 0x00 && c[1]&0x80 == 0 { c = c[1:] }
func (t *t7) canonIdiom(f *ast.ForStmt) (string, bool) {
	if f.Init != nil || f.Post != nil || f.Cond == nil || len(f.Body.List) != 1 {
		return "", false
	}
	src := t.p.fset.Position(f.Cond.Pos())
	_ = src
	var buf strings.Builder
	ast.Inspect(f.Cond, func(n ast.Node) bool { return true })
	// compare the printed condition with the expected shape, modulo the variable name
	as, ok := f.Body.List[0].(*ast.AssignStmt)
	if !ok || len(as.Lhs) != 1 || len(as.Rhs) != 1 || as.Tok != token.ASSIGN {
		return "", false
	}
	v, ok := as.Lhs[0].(*ast.Ident)
	if !ok {
		return "", false
	}
	sl, ok := as.Rhs[0].(*ast.SliceExpr)
	if !ok || sl.High != nil || sl.Low == nil {
		return "", false
	}
	if b, ok := sl.X.(*ast.Ident); !ok || b.Name != v.Name {
		return "", false
	}
	if c, ok := t.constVal(sl.Low); !ok || c != "1" {
		return "", false
	}
	want := fmt.Sprintf("len(%s) > 1 && %s[0] == 0 && %s[1]&128 == 0", v.Name, v.Name, v.Name)
	got := t.printCond(f.Cond)
	buf.WriteString(got)
	if got != want {
		return "", false
	}
	return v.Name, true
}

// printCond: a canonical rendering of a small condition with constants folded
func (t *t7) printCond(e ast.Expr) string {
	if c, ok := t.constVal(e); ok {
		return c
	}
	switch x := e.(type) {
	case *ast.ParenExpr:
		return t.printCond(x.X)
	case *ast.Ident:
		return x.Name
	case *ast.BinaryExpr:
		op := x.Op.String()
		sp := " "
		if x.Op == token.AND {
			sp = ""
		}
		return t.printCond(x.X) + sp + op + sp + t.printCond(x.Y)
	case *ast.IndexExpr:
		return t.printCond(x.X) + "[" + t.printCond(x.Index) + "]"
	case *ast.CallExpr:
		if id, ok := x.Fun.(*ast.Ident); ok && len(x.Args) == 1 {
			return id.Name + "(" + t.printCond(x.Args[0]) + ")"
		}
	}
	return "?"
}

func (t *t7) builder(list []ast.Stmt) {
	for _, s := range list {
		if t.err != nil {
			return
		}
		switch st := s.(type) {
		case *ast.DeclStmt:
			gd := st.Decl.(*ast.GenDecl)
			if gd.Tok != token.VAR {
				t.fail(st, "declaration")
				return
			}
			for _, sp := range gd.Specs {
				vs := sp.(*ast.ValueSpec)
				for _, nm := range vs.Names {
					obj := t.p.info.Defs[nm]
					arr, ok := obj.Type().Underlying().(*types.Array)
					if !ok || !isByteT(arr.Elem()) || len(vs.Values) != 0 {
						t.fail(st, "variable %s", nm.Name)
						return
					}
					t.line("let %s : Bytes := List.replicate %d 0", nm.Name, arr.Len())
				}
			}
		case *ast.AssignStmt:
			if len(st.Lhs) == 2 && len(st.Rhs) == 2 && st.Tok == token.DEFINE {
				for i := range st.Lhs {
					sl, ok := st.Rhs[i].(*ast.SliceExpr)
					if !ok || sl.Low != nil || sl.High != nil {
						t.fail(st, "parallel definition")
						return
					}
					t.line("let %s := %s", st.Lhs[i].(*ast.Ident).Name, sl.X.(*ast.Ident).Name)
				}
				continue
			}
			if len(st.Lhs) != 1 || len(st.Rhs) != 1 {
				t.fail(st, "assignment form")
				return
			}
			// b[i] = e
			if ix, ok := st.Lhs[0].(*ast.IndexExpr); ok && st.Tok == token.ASSIGN {
				b := ix.X.(*ast.Ident).Name
				t.line("let %s := %s.set %s %s", b, b, t.bexpr(ix.Index), t.bexpr(st.Rhs[0]))
				continue
			}
			id, ok := st.Lhs[0].(*ast.Ident)
			if !ok {
				t.fail(st, "assignment target")
				return
			}
			switch r := st.Rhs[0].(type) {
			case *ast.CallExpr:
				// sigS := new(ModNScalar).Set(&sig.s)
				if sel, ok := r.Fun.(*ast.SelectorExpr); ok && sel.Sel.Name == "Set" && len(r.Args) == 1 {
					if v, ok := t.valueName(r.Args[0]); ok {
						t.scalar[id.Name] = true
						t.line("let %s := %s", id.Name, v)
						continue
					}
				}
				if fid, ok := r.Fun.(*ast.Ident); ok {
					switch fid.Name {
					case "make": // make([]byte, 0, n)
						if len(r.Args) == 3 {
							if c, ok := t.constVal(r.Args[1]); ok && c == "0" {
								t.line("let %s : Bytes := []", id.Name)
								continue
							}
						}
					case "append":
						if len(r.Args) == 2 {
							if b, ok := r.Args[0].(*ast.Ident); ok && b.Name == id.Name {
								if r.Ellipsis != token.NoPos {
									t.line("let %s := %s ++ %s", id.Name, id.Name, t.bexpr(r.Args[1]))
								} else {
									t.line("let %s := %s ++ [%s]", id.Name, id.Name, t.bexpr(r.Args[1]))
								}
								continue
							}
						}
					}
				}
			case *ast.SliceExpr:
				if r.Low == nil && r.High == nil {
					t.line("let %s := %s", id.Name, r.X.(*ast.Ident).Name)
					continue
				}
			}
			v := t.bexpr(st.Rhs[0])
			if isIntT(t.p.info.Types[st.Rhs[0]].Type) {
				t.lower[id.Name] = t.lowerBound(st.Rhs[0])
			}
			t.line("let %s := %s", id.Name, v)
		case *ast.IfStmt:
			if st.Init != nil || st.Else != nil || len(st.Body.List) != 1 {
				t.fail(st, "if form")
				return
			}
			c := t.bexpr(st.Cond)
			switch b := st.Body.List[0].(type) {
			case *ast.ExprStmt: // sigS.Negate()
				call, ok := b.X.(*ast.CallExpr)
				if ok {
					if sel, ok := call.Fun.(*ast.SelectorExpr); ok && sel.Sel.Name == "Negate" && len(call.Args) == 0 {
						if id, ok := sel.X.(*ast.Ident); ok && t.scalar[id.Name] {
							t.line("let %s := if %s then (N - %s) %% N else %s", id.Name, c, id.Name, id.Name)
							continue
						}
					}
				}
			case *ast.AssignStmt: // v = D
				if len(b.Lhs) == 1 && len(b.Rhs) == 1 && b.Tok == token.ASSIGN {
					if id, ok := b.Lhs[0].(*ast.Ident); ok {
						t.line("let %s := if %s then %s else %s", id.Name, c, t.bexpr(b.Rhs[0]), id.Name)
						continue
					}
				}
			}
			t.fail(st, "if body outside the T7 builder subset")
		case *ast.ForStmt:
			if name, ok := t.canonIdiom(st); ok {
				t.line("let %s := canonLoop %s", name, name)
				continue
			}
			t.fail(st, "loop outside the T7 builder subset")
		case *ast.ExprStmt:
			// v.PutBytesUnchecked(b[lo:hi])
			call, ok := st.X.(*ast.CallExpr)
			if ok {
				if sel, ok := call.Fun.(*ast.SelectorExpr); ok && sel.Sel.Name == "PutBytesUnchecked" && len(call.Args) == 1 {
					if v, ok := t.valueName(sel.X); ok {
						if sl, ok := call.Args[0].(*ast.SliceExpr); ok && sl.Low != nil && sl.High != nil {
							b := sl.X.(*ast.Ident).Name
							t.line("let %s := putBytes %s %s %s (be32 %s)", b, b, t.bexpr(sl.Low), t.bexpr(sl.High), v)
							continue
						}
					}
				}
			}
			t.fail(st, "expression statement outside the T7 builder subset")
		case *ast.ReturnStmt:
			if len(st.Results) == 1 {
				switch r := st.Results[0].(type) {
				case *ast.Ident:
					t.line("%s", r.Name)
					return
				case *ast.SliceExpr:
					if r.Low == nil && r.High == nil {
						t.line("%s", r.X.(*ast.Ident).Name)
						return
					}
				}
			}
			t.fail(st, "return form")
			return
		default:
			t.fail(s, "statement %T outside the T7 builder subset", s)
		}
	}
}

type builderEntry struct {
	pkg            int
	fn, lean, args string
}

func passBuilders(pkgs []*Pkg) (string, []string) {
	var errs []string
	var sb strings.Builder
	sb.WriteString("import Secp.Model.Der\nimport Secp.Model.PubKey\nimport Secp.Model.Schnorr\n/- GENERATED by tools/gotr (pass T7, builders) from /repo — do not edit.\n   Serialisers translated statement by statement (see tools/gotr/bytes.go). -/\nnamespace Secp.Gen.BytesBuild\nopen Secp.Spec Secp.Model\n\n/-- `v.PutBytesUnchecked(b[lo:hi])`: the window [lo, hi) of b is overwritten by src (hi - lo = src.length) -/\ndef putBytes (b : Bytes) (lo hi : Nat) (src : Bytes) : Bytes := b.take lo ++ src.take (hi - lo) ++ b.drop hi\n\n")
	for _, e := range []builderEntry{
		{0, "Signature.Serialize", "serializeDER", "(r s : Nat)"},
		{0, "PublicKey.SerializeCompressed", "serializeCompressed", "(x y : Nat)"},
		{0, "PublicKey.SerializeUncompressed", "serializeUncompressed", "(x y : Nat)"},
		{1, "Signature.Serialize", "schnorrSerialize", "(r s : Nat)"},
	} {
		if e.pkg >= len(pkgs) {
			errs = append(errs, "builders: package of "+e.fn+" not loaded")
			continue
		}
		p := pkgs[e.pkg]
		fd := p.funcs[e.fn]
		if fd == nil {
			errs = append(errs, "builders: "+e.fn+" not found")
			continue
		}
		t := &t7{p: p, lower: map[string]int64{}, scalar: map[string]bool{}, field: map[string]bool{}, indent: "  ", fn: e.fn}
		if fd.Recv == nil || len(fd.Recv.List[0].Names) != 1 || len(fd.Type.Params.List) != 0 {
			errs = append(errs, "builders: "+e.fn+" signature changed")
			continue
		}
		t.recv = fd.Recv.List[0].Names[0].Name
		t.builder(fd.Body.List)
		if t.err != nil {
			errs = append(errs, t.err.Error())
		}
		fmt.Fprintf(&sb, "/-- %s (package %s) -/\ndef %s %s : Bytes :=\n%s\n", e.fn, p.pkg.Name(), e.lean, e.args, t.sb.String())
	}
	sb.WriteString("end Secp.Gen.BytesBuild\n")
	return sb.String(), errs
}
