package main

// T2: functions built from chained FieldVal method calls → path-enumerated FOp programs.
//
// Every function is symbolically executed with all calls to other package functions inlined;
// each `if`/`switch`/boolean operator forks the execution, so the result is the complete list
// of execution paths, each a straight-line list of field operations and `assume`d predicate
// outcomes.  Registers are numbered per entry point: parameters first, then globals, then
// locals in order of creation.  Aliasing between parameters is expressed by binding two
// parameters to the same registers (entries with suffix _r1 / _r2).

import (
	"fmt"
	"go/ast"
	"go/token"
	"go/types"
	"sort"
	"strings"
)

type fitem struct {
	name string // call: callee variant name
	regs []int  // call: caller registers bound to the callee's distinct point parameters
	kind string // op | assume | call
	op   string // set setInt zero neg add add2 addInt mulInt mul2 sq norm  |  equals isZero isOne isOdd boolIn
	d    int
	a    int
	b    int
	v    int64
	val  bool
}

func (it fitem) lean() string {
	if it.kind == "call" {
		rs := make([]string, len(it.regs))
		for i, r := range it.regs {
			rs[i] = fmt.Sprint(r)
		}
		return fmt.Sprintf(".call %d [%s]", it.d, strings.Join(rs, ", "))
	}
	if it.kind == "assume" {
		var c string
		switch it.op {
		case "equals":
			c = fmt.Sprintf(".equals %d %d", it.a, it.b)
		case "boolIn":
			c = fmt.Sprintf(".boolIn %d", it.a)
		default:
			c = fmt.Sprintf(".%s %d", it.op, it.a)
		}
		return fmt.Sprintf(".assume (%s) %v", c, it.val)
	}
	switch it.op {
	case "set", "add", "sq":
		return fmt.Sprintf(".op (.%s %d %d)", it.op, it.d, it.a)
	case "setInt", "addInt", "mulInt":
		return fmt.Sprintf(".op (.%s %d %d)", it.op, it.d, it.v)
	case "zero", "norm":
		return fmt.Sprintf(".op (.%s %d)", it.op, it.d)
	case "neg":
		return fmt.Sprintf(".op (.neg %d %d %d)", it.d, it.a, it.v)
	case "add2", "mul2":
		return fmt.Sprintf(".op (.%s %d %d %d)", it.op, it.d, it.a, it.b)
	}
	panic("bad fitem " + it.op)
}

type binding struct {
	kind string // reg | point | bool | boolIn
	reg  int
	pt   [3]int
	bval bool
	idx  int
}

type fstate struct {
	items    []fitem
	returned bool
	ret      int // -1 none, 0 false, 1 true
	nreg     int // registers are numbered per path, so that every path's register file stays small
	globals  map[string]int
}

func (s *fstate) clone() *fstate {
	n := &fstate{returned: s.returned, ret: s.ret, nreg: s.nreg, globals: map[string]int{}}
	n.items = append([]fitem(nil), s.items...)
	for k, v := range s.globals {
		n.globals[k] = v
	}
	return n
}

func (s *fstate) fresh() int {
	s.nreg++
	return s.nreg - 1
}

type fscope struct {
	vars   map[types.Object]binding
	parent *fscope
}

func (sc *fscope) lookup(o types.Object) (binding, bool) {
	for s := sc; s != nil; s = s.parent {
		if b, ok := s.vars[o]; ok {
			return b, true
		}
	}
	return binding{}, false
}

// scopes are immutable-by-copy across forks: each fork carries its own scope chain
func (sc *fscope) clone() *fscope {
	if sc == nil {
		return nil
	}
	n := &fscope{vars: map[types.Object]binding{}, parent: sc.parent.clone()}
	for k, v := range sc.vars {
		n.vars[k] = v
	}
	return n
}

type variantReq struct {
	fn      string
	pattern []int
}

type fctx struct {
	callMode    bool
	requests    []variantReq
	p           *Pkg
	nreg        int
	regNames    []string
	globals     map[string]int
	globalNames map[string]bool
	err         error
	depth       int
	entry       string
}

func (c *fctx) fail(n ast.Node, format string, a ...any) {
	if c.err == nil {
		c.err = fmt.Errorf("formula %s: %s: %s", c.entry, c.p.pos(n), fmt.Sprintf(format, a...))
	}
}

func (c *fctx) fresh(name string) int {
	c.regNames = append(c.regNames, name)
	c.nreg++
	return c.nreg - 1
}

type fork struct {
	st *fstate
	sc *fscope
}

func typeName(t types.Type) string {
	if p, ok := t.(*types.Pointer); ok {
		t = p.Elem()
	}
	if n, ok := t.(*types.Named); ok {
		return n.Obj().Name()
	}
	return ""
}

// evalReg evaluates a FieldVal-valued (or pointer) expression; may emit ops; may fork (inlined bool-free calls don't).
func (c *fctx) evalReg(f fork, e ast.Expr) (fork, int) {
	if c.err != nil {
		return f, 0
	}
	switch x := e.(type) {
	case *ast.ParenExpr:
		return c.evalReg(f, x.X)
	case *ast.UnaryExpr:
		if x.Op == token.AND {
			return c.evalReg(f, x.X)
		}
	case *ast.StarExpr:
		return c.evalReg(f, x.X)
	case *ast.Ident:
		obj := c.p.info.Uses[x]
		if b, ok := f.sc.lookup(obj); ok && b.kind == "reg" {
			return f, b.reg
		}
		// package-level *FieldVal / FieldVal variable
		if v, ok := obj.(*types.Var); ok && v.Parent() == c.p.pkg.Scope() && typeName(v.Type()) == "FieldVal" {
			if r, ok := f.st.globals[x.Name]; ok {
				return f, r
			}
			r := f.st.fresh()
			f.st.globals[x.Name] = r
			c.globalNames[x.Name] = true
			return f, r
		}
		c.fail(x, "identifier %s is not a field register", x.Name)
		return f, 0
	case *ast.SelectorExpr:
		// p.X / p.Y / p.Z of a point binding; pubKey.x etc. are not handled here
		if id, ok := x.X.(*ast.Ident); ok {
			if b, ok := f.sc.lookup(c.p.info.Uses[id]); ok && b.kind == "point" {
				switch x.Sel.Name {
				case "X":
					return f, b.pt[0]
				case "Y":
					return f, b.pt[1]
				case "Z":
					return f, b.pt[2]
				}
			}
		}
		c.fail(x, "selector %s outside the T2 subset", x.Sel.Name)
		return f, 0
	case *ast.CallExpr:
		// new(FieldVal)
		if id, ok := x.Fun.(*ast.Ident); ok && id.Name == "new" {
			r := f.st.fresh()
			f.st.items = append(f.st.items, fitem{kind: "op", op: "zero", d: r})
			return f, r
		}
		if sel, ok := x.Fun.(*ast.SelectorExpr); ok && typeName(c.p.info.Types[sel.X].Type) == "FieldVal" {
			return c.fieldMethod(f, sel, x)
		}
	}
	c.fail(e, "expression %T is not a field-value expression of the T2 subset", e)
	return f, 0
}

func (c *fctx) intArg(e ast.Expr) (int64, bool) {
	tv, ok := c.p.info.Types[e]
	if !ok || tv.Value == nil {
		return 0, false
	}
	k := &kernel{p: c.p}
	ce := k.constOf(e)
	if ce == nil {
		return 0, false
	}
	return ce.n.Int64(), true
}

func (c *fctx) fieldMethod(f fork, sel *ast.SelectorExpr, x *ast.CallExpr) (fork, int) {
	f, d := c.evalReg(f, sel.X)
	emit := func(it fitem) { f.st.items = append(f.st.items, it) }
	arg := func(i int) int {
		var r int
		f, r = c.evalReg(f, x.Args[i])
		return r
	}
	cint := func(i int) int64 {
		v, ok := c.intArg(x.Args[i])
		if !ok {
			c.fail(x, "non-constant integer argument to %s", sel.Sel.Name)
		}
		return v
	}
	switch sel.Sel.Name {
	case "Set":
		emit(fitem{kind: "op", op: "set", d: d, a: arg(0)})
	case "SetInt":
		emit(fitem{kind: "op", op: "setInt", d: d, v: cint(0)})
	case "Zero":
		emit(fitem{kind: "op", op: "zero", d: d})
	case "Negate":
		emit(fitem{kind: "op", op: "neg", d: d, a: d, v: cint(0)})
	case "NegateVal":
		a := arg(0)
		emit(fitem{kind: "op", op: "neg", d: d, a: a, v: cint(1)})
	case "Add":
		emit(fitem{kind: "op", op: "add", d: d, a: arg(0)})
	case "Add2":
		a := arg(0)
		b := arg(1)
		emit(fitem{kind: "op", op: "add2", d: d, a: a, b: b})
	case "AddInt":
		emit(fitem{kind: "op", op: "addInt", d: d, v: cint(0)})
	case "MulInt":
		emit(fitem{kind: "op", op: "mulInt", d: d, v: cint(0)})
	case "Mul":
		emit(fitem{kind: "op", op: "mul2", d: d, a: d, b: arg(0)})
	case "Mul2":
		a := arg(0)
		b := arg(1)
		emit(fitem{kind: "op", op: "mul2", d: d, a: a, b: b})
	case "Square":
		emit(fitem{kind: "op", op: "sq", d: d, a: d})
	case "SquareVal":
		emit(fitem{kind: "op", op: "sq", d: d, a: arg(0)})
	case "Normalize":
		emit(fitem{kind: "op", op: "norm", d: d})
	case "Inverse":
		fd := c.p.funcs["FieldVal.Inverse"]
		if fd == nil {
			c.fail(x, "FieldVal.Inverse not found")
			return f, d
		}
		fs := c.inlineCall(f, fd, &binding{kind: "reg", reg: d}, nil, x)
		if len(fs) != 1 {
			c.fail(x, "Inverse forked")
			return f, d
		}
		f = fs[0]
	default:
		c.fail(x, "FieldVal method %s outside the T2 subset", sel.Sel.Name)
	}
	return f, d
}

type condRes struct {
	f   fork
	val bool
}

// evalCond evaluates a boolean expression, forking on every predicate outcome.
func (c *fctx) evalCond(f fork, e ast.Expr) []condRes {
	if c.err != nil {
		return nil
	}
	switch x := e.(type) {
	case *ast.ParenExpr:
		return c.evalCond(f, x.X)
	case *ast.Ident:
		if x.Name == "true" || x.Name == "false" {
			return []condRes{{f, x.Name == "true"}}
		}
		b, ok := f.sc.lookup(c.p.info.Uses[x])
		if ok && b.kind == "bool" {
			return []condRes{{f, b.bval}}
		}
		if ok && b.kind == "boolIn" {
			var out []condRes
			for _, v := range []bool{true, false} {
				nf := fork{f.st.clone(), f.sc.clone()}
				nf.st.items = append(nf.st.items, fitem{kind: "assume", op: "boolIn", a: b.idx, val: v})
				out = append(out, condRes{nf, v})
			}
			return out
		}
		c.fail(x, "boolean %s unknown", x.Name)
		return nil
	case *ast.UnaryExpr:
		if x.Op == token.NOT {
			rs := c.evalCond(f, x.X)
			for i := range rs {
				rs[i].val = !rs[i].val
			}
			return rs
		}
	case *ast.BinaryExpr:
		switch x.Op {
		case token.LAND, token.LOR:
			var out []condRes
			for _, l := range c.evalCond(f, x.X) {
				if (x.Op == token.LAND && !l.val) || (x.Op == token.LOR && l.val) {
					out = append(out, l)
					continue
				}
				out = append(out, c.evalCond(l.f, x.Y)...)
			}
			return out
		case token.EQL, token.NEQ:
			if widthOf(c.p.info.Types[x.X].Type) == 1 {
				var out []condRes
				for _, l := range c.evalCond(f, x.X) {
					for _, r := range c.evalCond(l.f, x.Y) {
						v := l.val == r.val
						if x.Op == token.NEQ {
							v = !v
						}
						out = append(out, condRes{r.f, v})
					}
				}
				return out
			}
		}
	case *ast.CallExpr:
		if sel, ok := x.Fun.(*ast.SelectorExpr); ok && typeName(c.p.info.Types[sel.X].Type) == "FieldVal" {
			pred := map[string]string{"Equals": "equals", "IsZero": "isZero", "IsOne": "isOne", "IsOdd": "isOdd"}[sel.Sel.Name]
			if pred != "" {
				f2, a := c.evalReg(f, sel.X)
				b := 0
				if pred == "equals" {
					f2, b = c.evalReg(f2, x.Args[0])
				}
				var out []condRes
				for _, v := range []bool{true, false} {
					nf := fork{f2.st.clone(), f2.sc.clone()}
					nf.st.items = append(nf.st.items, fitem{kind: "assume", op: pred, a: a, b: b, val: v})
					out = append(out, condRes{nf, v})
				}
				return out
			}
			if sel.Sel.Name == "SquareRootVal" {
				f2, d := c.evalReg(f, sel.X)
				f2, a := c.evalReg(f2, x.Args[0])
				fd := c.p.funcs["FieldVal.SquareRootVal"]
				return c.boolCall(c.inlineCall(f2, fd, &binding{kind: "reg", reg: d}, []binding{{kind: "reg", reg: a}}, x))
			}
		}
		// bool-returning package function
		if id, ok := x.Fun.(*ast.Ident); ok {
			if fd := c.p.funcs[id.Name]; fd != nil {
				args, f2, ok := c.bindArgs(f, fd, x)
				if !ok {
					return nil
				}
				return c.boolCall(c.inlineCall(f2, fd, nil, args, x))
			}
		}
	}
	c.fail(e, "boolean expression %T outside the T2 subset", e)
	return nil
}

func (c *fctx) boolCall(fs []fork) []condRes {
	var out []condRes
	for _, f := range fs {
		if f.st.ret < 0 {
			c.fail(nil2{}, "inlined boolean function returned no value")
			return nil
		}
		v := f.st.ret == 1
		f.st.ret = -1
		out = append(out, condRes{f, v})
	}
	return out
}

type nil2 struct{}

func (nil2) Pos() token.Pos { return token.NoPos }
func (nil2) End() token.Pos { return token.NoPos }

// bindArgs evaluates call arguments to bindings according to the callee's parameter types.
func (c *fctx) bindArgs(f fork, fd *ast.FuncDecl, x *ast.CallExpr) ([]binding, fork, bool) {
	var out []binding
	i := 0
	for _, fld := range fd.Type.Params.List {
		for range fld.Names {
			if i >= len(x.Args) {
				c.fail(x, "arity")
				return nil, f, false
			}
			a := x.Args[i]
			i++
			t := c.p.info.Types[a].Type
			switch {
			case typeName(t) == "FieldVal":
				var r int
				f, r = c.evalReg(f, a)
				out = append(out, binding{kind: "reg", reg: r})
			case typeName(t) == "JacobianPoint":
				b, ok := c.pointOf(f, a)
				if !ok {
					c.fail(a, "point argument outside the T2 subset")
					return nil, f, false
				}
				out = append(out, b)
			case widthOf(t) == 1:
				rs := c.evalCond(f, a)
				if len(rs) != 1 {
					// a bool argument that forks: only identifiers are supported
					c.fail(a, "forking boolean argument")
					return nil, f, false
				}
				f = rs[0].f
				out = append(out, binding{kind: "bool", bval: rs[0].val})
			default:
				c.fail(a, "argument of type %s outside the T2 subset", t)
				return nil, f, false
			}
		}
	}
	return out, f, true
}

func (c *fctx) pointOf(f fork, e ast.Expr) (binding, bool) {
	switch x := e.(type) {
	case *ast.ParenExpr:
		return c.pointOf(f, x.X)
	case *ast.UnaryExpr:
		if x.Op == token.AND {
			return c.pointOf(f, x.X)
		}
	case *ast.Ident:
		b, ok := f.sc.lookup(c.p.info.Uses[x])
		if ok && b.kind == "point" {
			return b, true
		}
	}
	return binding{}, false
}

// inlineCall executes fd's body in a fresh scope; returns the forks (with `returned` cleared).
func (c *fctx) inlineCall(f fork, fd *ast.FuncDecl, recv *binding, args []binding, at ast.Node) []fork {
	if c.depth > 12 {
		c.fail(at, "inlining too deep (recursion?)")
		return nil
	}
	c.depth++
	defer func() { c.depth-- }()
	ns := &fscope{vars: map[types.Object]binding{}, parent: nil}
	if recv != nil && fd.Recv != nil && len(fd.Recv.List[0].Names) > 0 {
		ns.vars[c.p.info.Defs[fd.Recv.List[0].Names[0]]] = *recv
	}
	i := 0
	for _, fld := range fd.Type.Params.List {
		for _, nm := range fld.Names {
			if i < len(args) {
				ns.vars[c.p.info.Defs[nm]] = args[i]
			}
			i++
		}
	}
	saved := f.sc
	res := c.block(fork{f.st, ns}, fd.Body.List)
	var out []fork
	for _, r := range res {
		r.st.returned = false
		out = append(out, fork{r.st, saved.clone()})
	}
	return out
}

func (c *fctx) block(f fork, stmts []ast.Stmt) []fork {
	cur := []fork{f}
	for _, s := range stmts {
		var next []fork
		for _, cf := range cur {
			if cf.st.returned || c.err != nil {
				next = append(next, cf)
				continue
			}
			next = append(next, c.stmt(cf, s)...)
		}
		cur = next
	}
	return cur
}

func (c *fctx) stmt(f fork, s ast.Stmt) []fork {
	switch st := s.(type) {
	case *ast.BlockStmt:
		return c.block(f, st.List)
	case *ast.DeclStmt:
		gd := st.Decl.(*ast.GenDecl)
		if gd.Tok == token.CONST {
			return []fork{f}
		}
		for _, sp := range gd.Specs {
			vs := sp.(*ast.ValueSpec)
			for _, nm := range vs.Names {
				obj := c.p.info.Defs[nm]
				switch typeName(obj.Type()) {
				case "FieldVal":
					r := f.st.fresh()
					f.st.items = append(f.st.items, fitem{kind: "op", op: "zero", d: r})
					f.sc.vars[obj] = binding{kind: "reg", reg: r}
				case "JacobianPoint":
					var pt [3]int
					for i := range pt {
						pt[i] = f.st.fresh()
						f.st.items = append(f.st.items, fitem{kind: "op", op: "zero", d: pt[i]})
					}
					f.sc.vars[obj] = binding{kind: "point", pt: pt}
				default:
					c.fail(st, "local %s of type %s outside the T2 subset", nm.Name, obj.Type())
				}
			}
		}
		return []fork{f}
	case *ast.AssignStmt:
		if st.Tok != token.DEFINE && st.Tok != token.ASSIGN {
			c.fail(st, "assignment operator %s", st.Tok)
			return nil
		}
		if len(st.Lhs) != len(st.Rhs) {
			c.fail(st, "unbalanced assignment")
			return nil
		}
		cur := []fork{f}
		for i := range st.Lhs {
			id, ok := st.Lhs[i].(*ast.Ident)
			if !ok {
				c.fail(st, "assignment target %T", st.Lhs[i])
				return nil
			}
			var obj types.Object
			if st.Tok == token.DEFINE {
				obj = c.p.info.Defs[id]
			}
			if obj == nil {
				obj = c.p.info.Uses[id]
			}
			t := c.p.info.Types[st.Rhs[i]].Type
			var next []fork
			for _, cf := range cur {
				switch {
				case typeName(t) == "FieldVal":
					nf, r := c.evalReg(cf, st.Rhs[i])
					nf.sc.vars[obj] = binding{kind: "reg", reg: r}
					next = append(next, nf)
				case widthOf(t) == 1:
					for _, r := range c.evalCond(cf, st.Rhs[i]) {
						r.f.sc.vars[obj] = binding{kind: "bool", bval: r.val}
						next = append(next, r.f)
					}
				default:
					c.fail(st, "assignment of type %s outside the T2 subset", t)
					return nil
				}
			}
			cur = next
		}
		return cur
	case *ast.ExprStmt:
		call, ok := st.X.(*ast.CallExpr)
		if !ok {
			c.fail(st, "expression statement")
			return nil
		}
		// FieldVal method chain
		if sel, ok := call.Fun.(*ast.SelectorExpr); ok {
			rt := typeName(c.p.info.Types[sel.X].Type)
			if rt == "FieldVal" {
				nf, _ := c.evalReg(f, call)
				return []fork{nf}
			}
			if rt == "JacobianPoint" {
				fd := c.p.funcs["JacobianPoint."+sel.Sel.Name]
				recv, ok := c.pointOf(f, sel.X)
				if fd == nil || !ok {
					c.fail(st, "JacobianPoint method %s", sel.Sel.Name)
					return nil
				}
				args, f2, ok := c.bindArgs(f, fd, call)
				if !ok {
					return nil
				}
				return c.inlineCall(f2, fd, &recv, args, st)
			}
		}
		if id, ok := call.Fun.(*ast.Ident); ok {
			if fd := c.p.funcs[id.Name]; fd != nil {
				args, f2, ok := c.bindArgs(f, fd, call)
				if !ok {
					return nil
				}
				if c.callMode && isPointFunc(c.p, fd) {
					// not inlined: a call item to the variant of the callee with this aliasing pattern
					var pattern []int
					var regs []int
					var pts [][3]int
					for _, a := range args {
						if a.kind != "point" {
							c.fail(st, "call with non-point argument in call mode")
							return nil
						}
						idx := len(pts)
						for j, q := range pts {
							if q == a.pt {
								idx = j
								break
							}
						}
						if idx == len(pts) {
							regs = append(regs, a.pt[0], a.pt[1], a.pt[2])
						}
						pts = append(pts, a.pt)
						pattern = append(pattern, idx)
					}
					// normalise the pattern: index of first parameter with the same registers
					norm := make([]int, len(pattern))
					for i := range pts {
						norm[i] = i
						for j := 0; j < i; j++ {
							if pts[j] == pts[i] {
								norm[i] = j
								break
							}
						}
					}
					c.requests = append(c.requests, variantReq{id.Name, norm})
					f2.st.items = append(f2.st.items, fitem{kind: "call", name: variantName(id.Name, norm), regs: regs}) // point routines keep their Go names
					return []fork{f2}
				}
				return c.inlineCall(f2, fd, nil, args, st)
			}
		}
		c.fail(st, "call outside the T2 subset")
		return nil
	case *ast.IfStmt:
		cur := []fork{f}
		if st.Init != nil {
			cur = c.stmt(f, st.Init)
		}
		var out []fork
		for _, cf := range cur {
			for _, r := range c.evalCond(cf, st.Cond) {
				if r.val {
					out = append(out, c.block(r.f, st.Body.List)...)
				} else if st.Else != nil {
					out = append(out, c.stmt(r.f, st.Else)...)
				} else {
					out = append(out, r.f)
				}
			}
		}
		return out
	case *ast.SwitchStmt:
		if st.Tag != nil || st.Init != nil {
			c.fail(st, "switch with tag")
			return nil
		}
		pending := []fork{f}
		var out []fork
		for _, cc := range st.Body.List {
			cl := cc.(*ast.CaseClause)
			if cl.List == nil { // default
				for _, pf := range pending {
					out = append(out, c.block(pf, cl.Body)...)
				}
				pending = nil
				continue
			}
			if len(cl.List) != 1 {
				c.fail(st, "case with several expressions")
				return nil
			}
			var still []fork
			for _, pf := range pending {
				for _, r := range c.evalCond(pf, cl.List[0]) {
					if r.val {
						out = append(out, c.block(r.f, cl.Body)...)
					} else {
						still = append(still, r.f)
					}
				}
			}
			pending = still
		}
		return append(out, pending...)
	case *ast.ReturnStmt:
		if len(st.Results) == 0 {
			f.st.returned = true
			return []fork{f}
		}
		if len(st.Results) == 1 && widthOf(c.p.info.Types[st.Results[0]].Type) == 1 {
			var out []fork
			for _, r := range c.evalCond(f, st.Results[0]) {
				r.f.st.returned = true
				r.f.st.ret = 0
				if r.val {
					r.f.st.ret = 1
				}
				out = append(out, r.f)
			}
			return out
		}
		// `return f.Mul(&a45)` in Inverse: a field-valued chain
		if len(st.Results) == 1 && typeName(c.p.info.Types[st.Results[0]].Type) == "FieldVal" {
			nf, _ := c.evalReg(f, st.Results[0])
			nf.st.returned = true
			return []fork{nf}
		}
		c.fail(st, "return value outside the T2 subset")
		return nil
	}
	c.fail(s, "statement %T outside the T2 subset", s)
	return nil
}

func isPointFunc(p *Pkg, fd *ast.FuncDecl) bool {
	if fd.Recv != nil {
		return false
	}
	n := 0
	for _, fld := range fd.Type.Params.List {
		for _, nm := range fld.Names {
			if typeName(p.info.Defs[nm].Type()) != "JacobianPoint" {
				return false
			}
			n++
		}
	}
	return n > 0
}

// variantName: the plain function name when no two parameters alias, else name_a<pattern>
func variantName(fn string, pattern []int) string {
	plain := true
	for i, v := range pattern {
		if v != i {
			plain = false
		}
	}
	if plain {
		return fn
	}
	s := fn + "_a"
	for _, v := range pattern {
		s += fmt.Sprint(v)
	}
	return s
}

type entrySpec struct {
	lean  string
	fn    string   // function key
	alias []string // parameter names that share registers with an earlier parameter: "result=p1"
}

var formulaEntries = []entrySpec{
	{"addZ1AndZ2EqualsOne", "addZ1AndZ2EqualsOne", nil},
	{"addZ1EqualsZ2", "addZ1EqualsZ2", nil},
	{"addZ2EqualsOne", "addZ2EqualsOne", nil},
	{"addGeneric", "addGeneric", nil},
	{"doubleZ1EqualsOne", "doubleZ1EqualsOne", nil},
	{"doubleGeneric", "doubleGeneric", nil},
	{"AddNonConst", "AddNonConst", nil},
	{"AddNonConst_r1", "AddNonConst", []string{"result=p1"}},
	{"AddNonConst_r2", "AddNonConst", []string{"result=p2"}},
	{"DoubleNonConst", "DoubleNonConst", nil},
	{"DoubleNonConst_r1", "DoubleNonConst", []string{"result=p"}},
	{"ToAffine", "JacobianPoint.ToAffine", nil},
	{"isOnCurve", "isOnCurve", nil},
	{"DecompressY", "DecompressY", nil},
	{"Inverse", "FieldVal.Inverse", nil},
	{"SquareRootVal", "FieldVal.SquareRootVal", nil},
}

type genEntryRes struct {
	lean     string
	fn       string
	params   []string
	nparam   int
	nreg     int
	paths    []*fstate
	regNames []string
	requests []variantReq
}

// genEntry symbolically executes one function; `pattern[i]` = index of the first parameter that
// shares registers with parameter i (i itself when distinct).
func genEntry(p *Pkg, lean, fn string, pattern []int, callMode bool) (*genEntryRes, error) {
	fd := p.funcs[fn]
	if fd == nil {
		return nil, fmt.Errorf("formula %s: function %s not found", lean, fn)
	}
	c := &fctx{p: p, globals: map[string]int{}, globalNames: map[string]bool{}, entry: lean, callMode: callMode}
	sc := &fscope{vars: map[types.Object]binding{}}
	var params []string
	var bound []binding
	var perr error
	bind := func(nm *ast.Ident, obj types.Object) {
		i := len(bound)
		if pattern != nil && i < len(pattern) && pattern[i] != i {
			sc.vars[obj] = bound[pattern[i]]
			bound = append(bound, bound[pattern[i]])
			params = append(params, fmt.Sprintf("%s≡param%d", nm.Name, pattern[i]))
			return
		}
		var b binding
		switch {
		case typeName(obj.Type()) == "FieldVal":
			b = binding{kind: "reg", reg: c.fresh(nm.Name)}
		case typeName(obj.Type()) == "JacobianPoint":
			b = binding{kind: "point"}
			for i, f := range []string{"X", "Y", "Z"} {
				b.pt[i] = c.fresh(nm.Name + "." + f)
			}
		case widthOf(obj.Type()) == 1:
			b = binding{kind: "boolIn", idx: 0}
		default:
			perr = fmt.Errorf("formula %s: parameter %s of type %s", lean, nm.Name, obj.Type())
			return
		}
		sc.vars[obj] = b
		bound = append(bound, b)
		params = append(params, nm.Name)
	}
	if fd.Recv != nil && len(fd.Recv.List[0].Names) > 0 {
		nm := fd.Recv.List[0].Names[0]
		bind(nm, p.info.Defs[nm])
	}
	for _, fld := range fd.Type.Params.List {
		for _, nm := range fld.Names {
			bind(nm, p.info.Defs[nm])
		}
	}
	if perr != nil {
		return nil, perr
	}
	nparam := c.nreg
	res := c.block(fork{&fstate{ret: -1, nreg: nparam, globals: map[string]int{}}, sc}, fd.Body.List)
	if c.err != nil {
		return nil, c.err
	}
	maxreg := nparam
	out := &genEntryRes{lean: lean, fn: fn, params: params, nparam: nparam, regNames: c.regNames, requests: c.requests}
	for _, r := range res {
		if r.st.nreg > maxreg {
			maxreg = r.st.nreg
		}
		out.paths = append(out.paths, r.st)
	}
	out.nreg = maxreg
	return out, nil
}

func renderEntries(ns, header string, entries []*genEntryRes) string {
	index := map[string]int{}
	for i, e := range entries {
		index[e.lean] = i
	}
	var sb strings.Builder
	fmt.Fprintf(&sb, "import Secp.Core.FOp\n/- GENERATED by tools/gotr (pass T2) from /repo — do not edit.\n   %s -/\nset_option maxRecDepth 100000\nnamespace %s\nopen Secp.FOp\n\n", header, ns)
	var names []string
	for _, e := range entries {
		var pnames []string
		for pi, st := range e.paths {
			ret := "none"
			if st.ret == 0 {
				ret = "some false"
			} else if st.ret == 1 {
				ret = "some true"
			}
			its := make([]string, len(st.items))
			for i, it := range st.items {
				if it.kind == "call" {
					it.d = index[it.name]
				}
				its[i] = it.lean()
			}
			pn := fmt.Sprintf("%s_p%d", e.lean, pi)
			fmt.Fprintf(&sb, "def %s : FPath := { ret := %s, items := [%s] }\n", pn, ret, strings.Join(its, ", "))
			pnames = append(pnames, pn)
		}
		fmt.Fprintf(&sb, "/-- %s (%s); registers: %s -/\n", e.fn, strings.Join(e.params, ", "), regTable(e.regNames))
		fmt.Fprintf(&sb, "def %s : Entry := {\n  name := %q\n  nparam := %d\n  nreg := %d\n  paths := [%s]\n}\n\n", e.lean, e.lean, e.nparam, e.nreg, strings.Join(pnames, ", "))
		names = append(names, e.lean)
	}
	fmt.Fprintf(&sb, "/-- the entry table; `.call i args` refers to position i -/\ndef allEntries : List Entry := [%s]\n\nend %s\n", strings.Join(names, ", "), ns)
	return sb.String()
}

func aliasPattern(fd *ast.FuncDecl, alias []string) []int {
	var names []string
	if fd.Recv != nil && len(fd.Recv.List[0].Names) > 0 {
		names = append(names, fd.Recv.List[0].Names[0].Name)
	}
	for _, fld := range fd.Type.Params.List {
		for _, nm := range fld.Names {
			names = append(names, nm.Name)
		}
	}
	pat := make([]int, len(names))
	for i := range pat {
		pat[i] = i
	}
	for _, al := range alias {
		kv := strings.SplitN(al, "=", 2)
		for i, n := range names {
			if n == kv[0] {
				for j, m := range names {
					if m == kv[1] {
						pat[i] = j
					}
				}
			}
		}
	}
	return pat
}

// passFormulas: every call inlined (used by the abstract interpreter of C16).
func passFormulas(p *Pkg) (string, []string) {
	var errs []string
	var entries []*genEntryRes
	for _, es := range formulaEntries {
		fd := p.funcs[es.fn]
		if fd == nil {
			errs = append(errs, "formula "+es.lean+": function "+es.fn+" not found")
			continue
		}
		e, err := genEntry(p, es.lean, es.fn, aliasPattern(fd, es.alias), false)
		if err != nil {
			errs = append(errs, err.Error())
			continue
		}
		entries = append(entries, e)
	}
	sort.Slice(entries, func(i, j int) bool { return entries[i].lean < entries[j].lean })
	return renderEntries("Secp.Gen.Formulas", "Each entry: parameter registers and the complete list of execution paths, all calls inlined.", entries), errs
}

// passFormulasC: calls between point routines are kept as `.call` items to the variant of the callee
// with the aliasing pattern of the call site (used by the executable model and the group-law proofs).
func passFormulasC(p *Pkg) (string, []string) {
	var errs []string
	done := map[string]*genEntryRes{}
	var order []string
	var work []variantReq
	pretty := map[string]string{"AddNonConst_a010": "AddNonConst_r1", "AddNonConst_a011": "AddNonConst_r2", "DoubleNonConst_a00": "DoubleNonConst_r1"}
	base := map[string]string{}
	for _, es := range formulaEntries {
		if es.alias == nil {
			base[es.fn] = es.lean
		}
	}
	nameOf := func(fn string, pat []int) string {
		if b, ok := base[fn]; ok {
			return variantName(b, pat)
		}
		return variantName(fn, pat)
	}
	for _, es := range formulaEntries {
		fd := p.funcs[es.fn]
		if fd == nil {
			errs = append(errs, "formula "+es.lean+": function "+es.fn+" not found")
			continue
		}
		work = append(work, variantReq{es.fn, aliasPattern(fd, es.alias)})
	}
	for len(work) > 0 {
		rq := work[0]
		work = work[1:]
		name := nameOf(rq.fn, rq.pattern)
		if _, ok := done[name]; ok {
			continue
		}
		e, err := genEntry(p, name, rq.fn, rq.pattern, true)
		if err != nil {
			errs = append(errs, err.Error())
			done[name] = nil
			continue
		}
		done[name] = e
		order = append(order, name)
		work = append(work, e.requests...)
	}
	sort.Strings(order)
	var entries []*genEntryRes
	for _, n := range order {
		if done[n] != nil {
			entries = append(entries, done[n])
		}
	}
	out := renderEntries("Secp.Gen.FormulasC", "Call-structured variant: calls between point routines are `.call` items; aliasing between parameters is a separate entry (suffix _a<pattern>).", entries)
	// stable pretty aliases for the three public aliasing patterns
	var al strings.Builder
	al.WriteString("\nnamespace Secp.Gen.FormulasC\n")
	var pk []string
	for k := range pretty {
		pk = append(pk, k)
	}
	sort.Strings(pk)
	for _, k := range pk {
		if done[k] != nil {
			fmt.Fprintf(&al, "abbrev %s := %s\n", pretty[k], k)
		}
	}
	al.WriteString("end Secp.Gen.FormulasC\n")
	return out + al.String(), errs
}

func regTable(names []string) string {
	parts := make([]string, len(names))
	for i, n := range names {
		parts[i] = fmt.Sprintf("%d=%s", i, n)
	}
	s := strings.Join(parts, " ")
	if len(s) > 1500 {
		s = s[:1500] + " …"
	}
	return s
}
