"""
props — per-property configuration of ./check.
"""

def proj_c08(op, s):
    if op == "pubkey_parse" and s.startswith("err "):
        return "reject"
    return s

def proj_c09(op, s):
    if op == "der_parse" and s.startswith("err "):
        return "reject"
    return s

COMMON_TRUST = [
    "hand-written Lean models are tied to the Go code by the correspondence run (differential, generator-bounded)",
    "Go compiler/runtime semantics of integer and slice operations",
]

HOOK_COMMITS = ["62e1034"]

UNDER_CONSTRUCTION = "machinery for this property is still under construction in this session; not claimed until its check is green and validated"
NOT_APPLICABLE = {("C%02d" % i): UNDER_CONSTRUCTION for i in range(1, 21)}

def c18_static_search(ctx, run, LEAN, WORK):
    """name the first function/statement that fails the constant-time check (the witness is the code site itself)"""
    import os
    f = os.path.join(WORK, "C18", "FirstBad.lean")
    os.makedirs(os.path.dirname(f), exist_ok=True)
    open(f, "w").write("import Secp.Gen.CTGen\nopen Secp.CT Secp.Gen.CTGen\n#eval firstBad fns\n#eval documented\n#eval unknownCalls\n")
    rc, out, err, _ = run(["lake", "build", "Secp.Gen.CTGen"], cwd=LEAN, timeout=1800)
    if rc != 0:
        return []
    rc, out, err, _ = run(["lake", "env", "lean", f], cwd=LEAN, timeout=600)
    import re
    m = re.search(r'some \("([^"]+)", (\d+)\)', out)
    if m:
        return [{"op": "ct-site %s statement#%s" % (m.group(1), m.group(2)),
                 "impl": "the regenerated body of %s has an operand-dependent branch/index/shift/division/short-circuit or calls outside the constant-time table at statement %s" % (m.group(1), m.group(2)),
                 "driver": out.strip()[:300], "static": True}]
    return []

PROPS = {
    "C18": {
        "correspondence": False,
        "static_search": c18_static_search,
        "level_text": "Structural for-all, fully regenerated: tools/gotr T5 extracts from /repo every function documented 'in constant time' (64 today, the count is a theorem) and everything they call inside the package, with every timing-relevant position explicit (branch/loop/switch conditions, short-circuit operators, index expressions, slice bounds, shift counts, division operands, call targets). Lean proves once (ct_sound, by induction) that a body passing the syntactic check has a leakage trace independent of all secret leaves for EVERY interpretation of the operators, and `decide +kernel` shows every regenerated function passes and calls only table functions or intrinsics. An early return on zero, a data-dependent loop, a secret index or a call to a NonConst function makes table_ok false.",
        "level_note": "Source-level claim: what the Go compiler emits and micro-architectural timing are outside any executable model. Variables/fields are all treated as secret, len/cap/constants as public; package functions are assumed deterministic (a call with public arguments is public). Control constructs are only accepted with public conditions (today there are none at all).",
        "technique": "Lean 4 non-interference theorem for a leakage model + `decide +kernel` on the regenerated function table",
        "trusted_base": ["Lean 4.33.0 kernel", "tools/gotr T5 extraction (go/ast), regenerated every run", "Go compiler does not introduce data-dependent branches (source-level claim)"],
        "assumptions": ["timing depends only on control flow, memory addresses, shift counts and division operands (the leakage model)"],
    },
    "C05": {
        "level_text": "Machine-checked theorems (Lean 4 kernel) about the limb-level kernels of field.go as REGENERATED from /repo on every run (tools/gotr T1 -> Secp.Gen.FieldIR, Go wrap-around semantics evalW): Mul2/SquareVal exact mod P with no intermediate wrap for operands of magnitude <= 8; Normalize returns the unique representative in [0,P) for EVERY uint32 limb vector; NegateVal/Add/Add2/AddInt/MulInt exact within uint32 capacity (magnitudes <= 63); SetBytes/PutBytesUnchecked exact with overflow flag iff >= P; IsZero/IsOne/IsOdd/Equals/IsGtOrEqPrimeMinusOrder equal their arithmetic definitions; alias safety of every kernel. No-wrap is a reflective interval analysis (bnd, proved sound once) decided by `decide +kernel` on the regenerated program; congruences by omega/ring. Also: each regenerated kernel is executed by the Lean driver on raw limb vectors (boundary classes, carry windows) and diffed against the real function through verif hooks.",
        "level_note": "Trusted: Lean kernel; tools/gotr prints what go/ast+go/types say (its output is additionally executed against the real functions on every run); Go integer semantics. Magnitude is formalised with per-limb slack (limb <= m*(2^26+2^20)), which is what Mul2's output actually satisfies; the theorems cover magnitudes up to 63, not the documented 64 (MulInt(64) of a Mul2 output can exceed uint32; see DESIGN.md F3/O5). Inverse/SquareRootVal chains are covered at formula level in C16 (exponents) rather than here.",
        "technique": "Lean 4 proof about regenerated deep-embedded kernels (reflective interval analysis + omega congruences) + raw-limb differential run",
        "trusted_base": COMMON_TRUST + ["tools/gotr T1 translation (regenerated every run, executed against the real kernels)"],
        "assumptions": ["operands respect the stated magnitude bounds (<= 8 for Mul2/SquareVal, <= 63 elsewhere)"],
    },
    "C16": {
        "generator": "C16",
        "level_text": "Static for-all over every execution path: tools/gotr T2 regenerates from /repo every path of addZ1AndZ2EqualsOne, addZ1EqualsZ2, addZ2EqualsOne, addGeneric, doubleZ1EqualsOne, doubleGeneric, AddNonConst (x3 alias patterns), DoubleNonConst (x2), ToAffine (with the inversion chain), isOnCurve, DecompressY, Inverse, SquareRootVal as lists of FieldVal operations and predicate tests; the Lean abstract interpreter absPath over (magnitude, normalised?) rejects any NegateVal with too small a magnitude argument, any Add/MulInt exceeding magnitude 63, any Mul/Square operand above 8 and any Equals/IsZero/IsOne/IsOdd on a value not known to be normalised; `decide +kernel` shows all paths pass and results end normalised. The same regenerated programs are run at value level by the Lean driver and diffed against the real routines (all relation classes x Z patterns x alias patterns).",
        "level_note": "Trusted: Lean kernel; tools/gotr T2 (regenerated every run; its programs are executed against the real routines); the per-operation meaning of 'magnitude' is tied to limbs by C05's kernel theorems (the soundness theorem linking absPath to limb execution is stated in DESIGN.md as future work: today C16 proves the abstract contract is respected on every path, C05 proves each operation exact under that contract). Signature/Schnorr routines' field segments are not yet extracted.",
        "technique": "Lean 4 `decide +kernel` of an abstract interpreter on regenerated path programs + differential run of the same programs",
        "trusted_base": COMMON_TRUST + ["tools/gotr T2 path extraction (regenerated every run, executed against the real routines)"],
        "assumptions": ["inputs to point routines are normalised (their documented contract)"],
    },
    "C08": {
        "level_text": "Machine-checked theorems (Lean 4 kernel, Mathlib ZMod P with a Pratt-certificate proof that P is prime) for ALL byte strings about a hand-written model of ParsePubKey / Serialize* / schnorr.ParsePubKey: never panics; accepts exactly the valid SEC1 compressed/uncompressed/hybrid encodings of curve points with coordinates < P (using Euler's criterion for the square-root test and that -7 is not a cube mod P), returns that very point, never an off-curve key; each error kind names a rule really violated; all serialise/parse round trips incl. byte-for-byte reproduction of canonical inputs. Tied to the code by a correspondence run: all 256 tag bytes x both lengths, lengths 0..70, x >= P, non-residue x, flipped / mismatched-parity / off-curve y, bit flips; every op is also compared with a specification-level verdict computed independently of the model.",
        "level_note": "Trusted: Lean kernel + Mathlib definitions of ZMod/IsSquare; hand-written model mirrors pubkey.go (validated on generated inputs); field arithmetic inside the parser is modelled at value level (x, y as naturals mod P) - the limb level is C05/C16.",
        "technique": "Lean 4 proof over a hand-written model (Secp.Props.C08) + differential correspondence with ParsePubKey and an independent spec oracle",
        "project": proj_c08,
        "trusted_base": COMMON_TRUST + ["Mathlib ZMod / Euler criterion", "Model.parsePubKey mirrors pubkey.go (hand-written)"],
        "assumptions": ["field operations inside ParsePubKey are exact mod P (this is what C05/C16 establish at limb level)"],
    },
    "C19": {
        "level_text": "Machine-checked theorems (Lean 4 kernel), by induction over the entropy stream, about a hand-written model of generatePrivateKey/PrivKeyFromBytes/Serialize/Zero: success iff some whole 32-byte block is in [1,N-1], the key is exactly the FIRST such block, exactly the blocks up to it are consumed, earlier blocks are discarded never reduced; otherwise the io.ReadFull error (reader error / ErrUnexpectedEOF) and no key; load+serialise = be32(first 32 bytes mod N); Zero clears. Tied to the code by running scripted readers (arbitrary chunking, failure at every offset 0..96, error returned with data) through GeneratePrivateKeyFromRand and diffing result and bytes consumed.",
        "level_note": "Trusted: Lean kernel; io.ReadFull's documented contract (the reader is abstracted to the bytes it delivers and its terminal error); the hand-written model mirrors privkey.go (validated on generated streams); SetBytes at value level (limb level is C06).",
        "technique": "Lean 4 proof by induction over streams (Secp.Props.C19) + differential correspondence with scripted io.Readers",
        "trusted_base": COMMON_TRUST + ["io.ReadFull contract", "Model.generatePrivateKey mirrors privkey.go (hand-written)"],
        "assumptions": ["a reader is characterised by the bytes it delivers and its terminal error (what io.ReadFull can observe)"],
    },
    "C09": {
        "level_text": "Machine-checked theorems (Lean 4 kernel) for ALL byte strings about a hand-written model of ParseDERSignature/Serialize: never panics; accepts exactly the canonical DER of (r,s) in [1,N-1]^2 and returns those values; length 8..72; uniqueness; serialise = canonical DER of (r, low-s); both round trips; every error kind names a really violated rule. The model is tied to the code by a correspondence run (structure-aware mutations of valid encodings, all lengths 0..80) diffed against the real parser.",
        "level_note": "Trusted: Lean kernel (axioms propext, Classical.choice, Quot.sound); that the hand-written model mirrors signature.go (validated only on generated inputs); scalar decoding inside the parser modelled at value level (limb level is C06).",
        "technique": "Lean 4 proof over a hand-written model (Secp.Props.C09) + differential correspondence with the Go parser",
        "project": proj_c09,
        "trusted_base": COMMON_TRUST + ["Model.parseDER / serializeDER mirror signature.go ParseDERSignature / Serialize (hand-written)"],
        "assumptions": ["scalar decoding inside the parser is modelled at value level (SetByteSlice = reduce once); the limb-level kernel is C06's concern"],
    },
}
